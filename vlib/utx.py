"""TXRING  the sender's application half (src/stream_tx.rs: UserTx -- the TX ring buffer shared between the
writer and the connection task -- and the public UtpStreamWriteHalf) as a component; serves C19 and the
send-side clauses of C01 and C03.

  1. TLC on MCTxRing (spec/TxRing.tla): EVERY sequence of calls -- write(1 | 2 | 5 bytes), flush, shutdown, drop
     of the write half, acknowledgement of 1 | 2 | all bytes (truncate_front + wake), grow (+ wake),
     mark_vsock_closed, registration of the connection task's waker -- to depth 6 (quick) / 9 (thorough: full
     alphabet to depth 7, reduced in steps 8 and 9) on transmit buffers of initially 2, 3, 4 bytes with a maximum
     of 1x, 2x, 3x (the doubling is clamped), 4x the initial size, and one with the maximum below the initial size.
     In every state the invariants of TxRing.tla (bounded by max(initial, maximum), capacity = initial doubled and
     clamped, no lost wake-up) and of MCTxRing (closed => every writer call resolves; everything acknowledged =>
     flush completes; growth of a full ring makes room and keeps the content); on every transition no rule is
     broken by the specification's own answer.
  2. spec -> impl: every transition comes out as a CASE (witnessing history, call, the specification's answer:
     result, wake-ups, and the observables after the call: ring length, capacity, registered wakers, flags,
     wrapped, the ring's bytes as stream positions); unit_utx replays history ++ call on fresh real objects and
     the answer to the call must be EQUAL.  Cases that differ are re-run in full and judged by TxRingTrace, which
     names the broken clauses.
  3. impl -> spec: unit_utx records scripted tours + seeded random runs with realistic sizes (initial 1 KiB ..
     64 KiB, maximum up to 1 MiB incl. ratios that are no power of two, writes of 1 .. 100 000 bytes, vectored
     writes, packet-sized acknowledgements, a peer that stops acknowledging, graceful / aborted / dropped
     endings); TxRingTrace steps the specification alongside and evaluates every rule on every line.

`part(r, tier, seed, prefixes)` adds all of this to an existing core.Result (violations only for rules whose
name starts with one of `prefixes`); `run(tier, seed)` is the standalone check (pid TXRING, all rules).
The outcome of a (binary, specifications, tier, seed) combination is cached under out/utx/cache, so the three
properties that call `part` pay for it once.

Limits (see also spec/TxRing.tla): "the writer is woken by an acknowledgement / by growth" is composed by the
connection task (stream_dispatch.rs: truncate_front, then writer_waker.take().wake()); the driver performs those
statements in its place, so what is checked here is the component's half -- a call that answered Pending left
the caller's waker where the connection task finds it, and mark_vsock_closed (which is UserTx's own) wakes it."""
import hashlib, json, os, re, shutil, subprocess, time
from concurrent.futures import ThreadPoolExecutor
from . import core
from .core import log

PID = "TXRING"
SCR = os.path.join(core.OUT, "utx")
# UTX_UNIT_DIR: development self-test only (a scratch copy of the unit crate pointed at a mutated tree)
UNIT = os.environ.get("UTX_UNIT_DIR") or os.path.join(core.ROOT, "unit")
BIN = os.path.join(UNIT, "target", "debug", "unit_utx")
ALL_PREFIXES = ("C19.", "C01.", "C03.", "TxRing.")

RULES = ["C19.TxBounded", "C19.GrowthBounded", "C19.WriteAcceptsWhatFits", "C19.WriteWaitsWhenFull", "C19.WokenOnAck",
         "C19.NoWriteAfterShutdown",
         "C01.RingIsFifo", "C01.TruncateExact", "C01.GrowthPreservesContent",
         "C03.FlushOnlyWhenEmpty", "C03.ShutdownOnlyWhenEmpty", "C03.ClosedSurfaces",
         "TxRing.DispatcherNotified", "TxRing.YieldHonest", "TxRing.ObsAgrees", "TxRing.NoPanic"]
# branches of the rules that a run must have exercised to count (vacuity guard)
MARKERS = ["C19.TxBounded.atlimit", "C19.GrowthBounded.doubled", "C19.GrowthBounded.clamped", "C19.GrowthBounded.atmax",
           "C19.WriteAcceptsWhatFits.partial", "C19.WriteAcceptsWhatFits.tofull",
           "C19.WriteWaitsWhenFull.atlimit", "C19.WriteWaitsWhenFull.growable",
           "C19.WokenOnAck.room", "C19.WokenOnAck.flush",
           "C19.NoWriteAfterShutdown.shut", "C19.NoWriteAfterShutdown.closed",
           "C01.RingIsFifo.wrapped", "C01.RingIsFifo.long", "C01.RingIsFifo.readwrap",
           "C01.TruncateExact.part", "C01.TruncateExact.all", "C01.TruncateExact.wrapped",
           "C01.GrowthPreservesContent.nonempty", "C01.GrowthPreservesContent.wrapped", "C01.GrowthPreservesContent.full",
           "C03.FlushOnlyWhenEmpty.empty", "C03.FlushOnlyWhenEmpty.waits",
           "C03.ShutdownOnlyWhenEmpty.waits", "C03.ShutdownOnlyWhenEmpty.fin", "C03.ShutdownOnlyWhenEmpty.done",
           "C03.ClosedSurfaces.write", "C03.ClosedSurfaces.flush", "C03.ClosedSurfaces.shutdown", "C03.ClosedSurfaces.woken",
           "TxRing.DispatcherNotified.write", "TxRing.DispatcherNotified.fin", "TxRing.DispatcherNotified.drop"]

ANSWER_FIELDS = ["res", "n", "err", "wwake", "dwake", "runs", "len", "cap", "wreg", "dreg", "shut", "dropped",
                 "wrapped", "content"]
OPS = {"w": "write", "f": "flush", "s": "shutdown", "d": "drop", "t": "ack", "g": "grow", "c": "close", "r": "regdisp"}
RESULTS = ["ok", "pending", "err", "grown", "none"]
SPECS = ("TxRing.tla", "MCTxRing.tla", "MCTxRing.cfg", "TxRingTrace.tla", "TxRingTrace.cfg")


def required(prefixes=ALL_PREFIXES, r=None):
    """Rule and marker names a caller should put into required_cov for these prefixes.  With a Result that holds
    violations: none (the vacuity guard is for the verdict "held"; a broken rule ends the affected runs early --
    after a panic there is nothing left to call -- and core.Result.finish looks at the coverage first)."""
    if r is not None and r.violations:
        return []
    return [x for x in RULES + MARKERS if x.startswith(tuple(prefixes))]


# ------------------------------------------------------------------------------------------ tools
def _build():
    p = core.sh(["cargo", "build", "--offline", "--bin", "unit_utx"], cwd=UNIT, timeout=1800, check=False)
    if p.returncode != 0:
        raise core.ToolError("unit_utx build failed:\n" + p.stdout[-4000:])


def _bin(args, timeout=900):
    p = core.sh([BIN] + args, timeout=timeout, check=False)
    if p.returncode != 0:
        raise core.ToolError(f"unit_utx {args[0]} failed ({p.returncode}):\n{p.stdout[-2000:]}")
    return p.stdout


def _mc(inst, rundir, workers, timeout):
    """One bounded instance.  TLC's output goes to a file (it holds one line per transition); the CASE lines are
    moved to <rundir>/<tag>.cases.ndjson.  Returns (result dict for Result.add_model, cases path, #cases)."""
    tag = inst["tag"]
    frm = os.environ.get("UTX_MC_FROM")   # development self-test only: reuse the cases of an earlier run
    if frm:
        res = json.load(open(os.path.join(frm, tag + ".model.json")))
        return res, os.path.join(frm, tag + ".cases.ndjson"), res["transitions"] - 1
    md = os.path.join(core.OUT, "tlc", "utx_" + tag)
    shutil.rmtree(md, ignore_errors=True)
    os.makedirs(md, exist_ok=True)
    outp = os.path.join(rundir, tag + ".tlc.out")
    casesp = os.path.join(rundir, tag + ".cases.ndjson")
    env = dict(os.environ)
    env.update({"JAVA_TOOL_OPTIONS": "-Xss512m -Xmx3g -XX:ParallelGCThreads=2",
                "TXR_INIT": str(inst["init"]), "TXR_MAX": str(inst["max"]),
                "TXR_DEPTH": str(inst["depth"]), "TXR_FULL": str(inst["full"])})
    cmd = ["timeout", str(timeout), "tlc", "-workers", str(workers), "-metadir", md, "-cleanup", "-noGenerateSpecTE",
           "-config", os.path.join(core.SPEC, "MCTxRing.cfg"), os.path.join(core.SPEC, "MCTxRing.tla")]
    t0 = time.time()
    with open(outp, "w") as f:
        p = subprocess.run(cmd, cwd=md, env=env, stdout=f, stderr=subprocess.STDOUT, timeout=timeout + 30)
    shutil.rmtree(md, ignore_errors=True)
    n = 0
    rest = []
    with open(outp) as f, open(casesp, "w") as o:
        for l in f:
            if l.startswith('<<"C", "'):
                o.write(l[8:-4].replace('\\"', '"') + "\n")
                n += 1
            elif not l.startswith(("Picked up", "Parsing", "Semantic", "Linting")):
                rest.append(l)
    os.remove(outp)
    out = "".join(rest)
    res = {"spec": "MCTxRing", "cfg": tag, "wall_s": round(time.time() - t0, 2), "rc": p.returncode, "never": []}
    m = re.search(r"(\d+) states generated, (\d+) distinct states found", out)
    if m:
        res["transitions"], res["states"] = int(m.group(1)), int(m.group(2))
    m = re.search(r"depth of the complete state graph search is (\d+)", out)
    if m:
        res["depth"] = int(m.group(1))
    if p.returncode == 124:
        res["timeout"] = True
    if not (p.returncode == 0 and "No error has been found" in out):
        raise core.ToolError(f"model MCTxRing/{tag} did not pass (exit {p.returncode}):\n{out[-4000:]}")
    if res.get("transitions") != n + 1:
        raise core.ToolError(f"MCTxRing/{tag} printed {n} cases but generated {res.get('transitions')} states")
    with open(os.path.join(rundir, tag + ".model.json"), "w") as f:
        json.dump(res, f)
    return res, casesp, n


def _script_of_case(inst, case):
    """A replayed case [history, call, answer] as a script for `unit_utx script`."""
    h, c = case[0], case[1]
    return {"kind": "txring", "cfg": [inst["init"], inst["max"]], "ops": list(h) + [c]}


def _compact(rec):
    op = rec["op"]
    if op == "write":
        return ["v"] + list(rec["bufs"]) if "bufs" in rec else ["w", rec["a"]]
    if op == "ack":
        return ["t", rec["a"]]
    if op == "read":
        return ["R", rec["a"], rec["b"]]
    for k, v in OPS.items():
        if v == op:
            return [k]
    return None


def _script_of_line(trace_path, line):
    """The calls of the run that contains the 1-based line, up to and including it (+ the run's number)."""
    cfg, ops, run = None, [], -1
    with open(trace_path) as f:
        for i, l in enumerate(f, 1):
            r = json.loads(l)
            if r["op"] == "new":
                cfg, ops, run = [r["a"], r["b"]], [], run + 1
            elif r["op"] != "panic":
                ops.append(_compact(r))
            if i >= line:
                break
    return run, {"kind": "txring", "cfg": cfg, "ops": ops}


def _judge_script(script, tag):
    """Run a script on the implementation (fresh objects) and let TxRingTrace judge the recording."""
    os.makedirs(os.path.join(SCR, "judge"), exist_ok=True)
    sp = os.path.join(SCR, "judge", tag + ".script.ndjson")
    tp = os.path.join(SCR, "judge", tag + ".trace.ndjson")
    with open(sp, "w") as f:
        f.write(json.dumps({"cfg": script["cfg"], "ops": script["ops"]}) + "\n")
    _bin(["script", sp, tp])
    return core.tlc_trace(tp, spec="TxRingTrace", tag="utx_" + tag, timeout=300), tp


def _first_per_run(v):
    """The violations of a verdict at the first offending line of every run (what follows the first broken rule
    of a run is judged against a specification state that no longer is the implementation's)."""
    out, first = [], {}
    runs = {}
    for x in sorted(v.get("viol", []), key=lambda x: (x["line"], x["rule"])):
        if x["line"] not in runs:
            runs[x["line"]] = _script_of_line(v["trace"], x["line"])
        run, script = runs[x["line"]]
        if first.setdefault(run, x["line"]) == x["line"]:
            out.append((x, script))
    return out


def _sample(inst, case, answer):
    c, a = json.loads(case), json.loads(answer)
    exp = dict(zip(ANSWER_FIELDS, c[2]))
    return {"transmit_buffer": {"initial": inst["init"], "maximum": inst["max"]},
            "history": c[0], "call": c[1], "expected": exp, "impl_equal": c[2] == a[2]}


# ------------------------------------------------------------------------------------------ the work
def _instances(tier):
    depth, full = (9, 7) if tier == "thorough" else (6, 99)
    out = []
    for init in (2, 3, 4):
        for k in (1, 2, 3, 4):
            out.append(dict(tag=f"i{init}m{init * k}", init=init, max=init * k, depth=depth, full=full))
    out.append(dict(tag="i4m2", init=4, max=2, depth=depth, full=full))     # the maximum below the initial size
    return out


def _empty():
    return {"models": [], "scripts": 0, "distinct": 0, "traces": 0, "trace_lines": 0, "cov": {}, "violations": [],
            "samples": [], "notes": {}}


def _compute_mc(tier, workers):
    """The bounded models and the replay of their cases (independent of the seed: nothing is drawn)."""
    thorough = tier == "thorough"
    rundir = os.path.join(SCR, "run", f"mc_{tier}")
    shutil.rmtree(rundir, ignore_errors=True)
    os.makedirs(rundir, exist_ok=True)
    out = _empty()
    insts = _instances(tier)
    t0 = time.time()
    par = max(2, min(len(insts), workers // 2))
    pool = ThreadPoolExecutor(max_workers=par)
    mc_futs = [pool.submit(_mc, inst, rundir, 2, 1500 if thorough else 200) for inst in insts]

    # ---- spec -> impl: replay with exact equality
    by_op, by_res = {k: 0 for k in OPS}, {k: 0 for k in RESULTS}
    replay = {"cases": 0, "differing": 0}
    judged = 0
    for inst, fut in zip(insts, mc_futs):
        res, casesp, n = fut.result()
        out["models"].append(res)
        ansp = os.path.join(rundir, inst["tag"] + ".answers.ndjson")
        _bin(["replay", str(inst["init"]), str(inst["max"]), casesp, ansp], timeout=1800)
        differing, ndiff = [], 0
        k = 0
        seen = set()
        picks = sorted({n // 3, n - 1})
        with open(casesp) as fc, open(ansp) as fa:
            for k, (c, a) in enumerate(zip(fc, fa), 1):
                if c != a:
                    ndiff += 1
                    # the first few, preferring short histories
                    if len(differing) < 3:
                        differing.append(c)
                seen.add(hash(c))
                if k - 1 in picks and inst["tag"] in ("i2m6", "i4m16"):
                    out["samples"].append(_sample(inst, c, a))
                # statistics for the vacuity guard: which calls / results the cases contain
                i2 = c.rindex('],["')          # start of the expected answer
                i1 = c.rindex('],["', 0, i2)   # start of the call
                by_op[c[i1 + 4]] += 1
                by_res[c[i2 + 4:c.index('"', i2 + 4)]] += 1
            if sum(1 for _ in fa) != 0 or k != n:
                raise core.ToolError(f"replay answered a different number of cases than the {n} of {inst['tag']}")
        replay["cases"] += n
        replay["differing"] += ndiff
        out["scripts"] += n
        out["distinct"] += len(seen)
        del seen
        if not os.environ.get("UTX_KEEP"):      # the case files are large; a violation keeps its own script
            os.remove(ansp)
            if not os.environ.get("UTX_MC_FROM"):
                os.remove(casesp)
        # cases whose answer differs: re-run in full, TxRingTrace names the broken clauses
        for c in differing:
            script = _script_of_case(inst, json.loads(c))
            v, tp = _judge_script(script, f"diff_{tier}_{judged}")
            judged += 1
            hits = _first_per_run(v)
            if hits:
                for x, _sc in hits:
                    out["violations"].append([x, script, tp])
            else:   # the answers differ although no clause fired on the full recording: still a disagreement
                out["violations"].append([{"line": len(script["ops"]) + 1, "rule": "TxRing.ObsAgrees",
                                           "ctx": "replay", "ep": ""}, script, tp])
    pool.shutdown()
    missing = [OPS[k] for k, c in by_op.items() if c == 0] + [k for k, c in by_res.items() if c == 0]
    if missing:
        raise core.ToolError(f"MCTxRing never produced: {missing}")
    log(f"[TXRING] {len(insts)} models ({sum(m.get('states', 0) for m in out['models'])} states) + replay: "
        f"{replay['cases']} cases, {replay['differing']} differ, {time.time()-t0:.1f}s")
    out["notes"] = {
        "replay": replay, "cases_by_call": {OPS[k]: c for k, c in by_op.items()}, "cases_by_result": by_res,
        "exhaustive": "every call sequence to depth " + ("9 (full alphabet to depth 7, reduced in steps 8-9)" if thorough else "6")
                      + " over: write(1 | 2 | 5), flush, shutdown, drop of the write half, acknowledgement of 1 | 2 | all "
                        "bytes (truncate_front + wake), grow (+ wake), mark_vsock_closed, registration of the connection "
                        "task's waker; transmit buffers (initial/maximum): "
                      + ", ".join(f"{i['init']}/{i['max']}" for i in insts)
                      + "; histories merged by VIEW (state incl. accepted / acknowledged counts and the ring's read "
                        "index modulo 2 x capacity, depth)"}
    return out


def _compute_rec(tier, seed):
    """impl -> spec: recorded scripted tours + seeded random runs, judged by TxRingTrace."""
    rundir = os.path.join(SCR, "run", f"rec_{tier}_{seed}")
    shutil.rmtree(rundir, ignore_errors=True)
    os.makedirs(rundir, exist_ok=True)
    out = _empty()
    nrec, per = (6, 60000) if tier == "thorough" else (2, 9000)

    def rec(i):
        tp = os.path.join(rundir, f"rec{i}.ndjson")
        _bin(["record", str(seed * 1000 + i), str(per), tp])
        return core.tlc_trace(tp, spec="TxRingTrace", tag=f"utx_rec_{tier}_{seed}_{i}", timeout=1500, xmx="4g")
    t0 = time.time()
    with ThreadPoolExecutor(max_workers=nrec) as pool:
        verdicts = list(pool.map(rec, range(nrec)))
    for v in verdicts:
        out["traces"] += v.get("runs", 0)
        out["trace_lines"] += v.get("lines", 0)
        out["scripts"] += v.get("runs", 0)
        out["distinct"] += v.get("runs", 0) - 4     # every random run has its own seed-derived profile; the 4 tours repeat
        for k, c in v.get("cov", {}).items():
            out["cov"][k] = out["cov"].get(k, 0) + c
        for x, script in _first_per_run(v):
            out["violations"].append([x, script, v["trace"]])
    out["distinct"] += 4
    with open(os.path.join(rundir, "rec0.ndjson")) as f:
        out["samples"].append({"recorded": [json.loads(next(f)) for _ in range(4)][1:]})
    if not os.environ.get("UTX_KEEP"):      # keep the recordings that hold a broken rule only
        for v in verdicts:
            if not v.get("viol"):
                os.remove(v["trace"])
    out["notes"] = {"recorded_runs": out["traces"], "recorded_lines": out["trace_lines"]}
    log(f"[TXRING] recorded: {out['traces']} runs, {out['trace_lines']} lines, {len(out['violations'])} broken, {time.time()-t0:.1f}s")
    return out


def _cache_key(*what):
    h = hashlib.sha256()
    for p in [BIN, __file__] + [os.path.join(core.SPEC, f) for f in SPECS]:
        with open(p, "rb") as f:
            h.update(hashlib.sha256(f.read()).digest())
    h.update("/".join(str(x) for x in what).encode())
    return h.hexdigest()[:24]


def _cached(name, key, compute):
    os.makedirs(os.path.join(SCR, "cache"), exist_ok=True)
    cp = os.path.join(SCR, "cache", f"{name}_{key}.json")
    if os.path.exists(cp) and not os.environ.get("UTX_NOCACHE"):
        try:
            out = json.load(open(cp))
            if all(os.path.exists(v[2]) for v in out["violations"]):
                out["notes"]["cached"] = True
                return out
        except (ValueError, KeyError):
            pass
    out = compute()
    with open(cp, "w") as f:
        json.dump(out, f)
    return out


def _outcome(tier, seed):
    """Both halves, each cached under (binary, specifications, this file, tier[, seed])."""
    _build()
    nrec = 6 if tier == "thorough" else 2
    with ThreadPoolExecutor(max_workers=2) as pool:
        fr = pool.submit(_cached, "rec", _cache_key("rec", tier, seed), lambda: _compute_rec(tier, seed))
        fm = pool.submit(_cached, "mc", _cache_key("mc", tier), lambda: _compute_mc(tier, max(4, core.NCPU - nrec)))
        mc, rec = fm.result(), fr.result()
    out = _empty()
    for h in (mc, rec):
        out["models"] += h["models"]
        for k in ("scripts", "distinct", "traces", "trace_lines"):
            out[k] += h[k]
        for k, c in h["cov"].items():
            out["cov"][k] = out["cov"].get(k, 0) + c
        out["violations"] += h["violations"]
    out["samples"] = mc["samples"][:2] + rec["samples"][:1]
    out["notes"] = dict(mc["notes"], **{k: v for k, v in rec["notes"].items() if k != "cached"})
    out["notes"]["cached"] = {"models_and_replay": bool(mc["notes"].get("cached")), "recorded": bool(rec["notes"].get("cached"))}
    return out


def part(r, tier, seed, prefixes):
    """Run the component check and ADD its evidence to the core.Result `r`; violations are added for the rules
    whose name starts with one of `prefixes` (e.g. ["C19.", "TxRing."])."""
    prefixes = tuple(prefixes)
    t0 = time.time()
    out = _outcome(tier, seed)
    for m in out["models"]:
        r.add_model(m)
    r.scripts += out["scripts"]
    base = 1 << 41     # measured number of distinct cases, as that many entries that collide with nothing else
    r.distinct.update(range(base, base + out["distinct"]))
    r.traces += out["traces"]
    r.trace_lines += out["trace_lines"]
    for k, c in out["cov"].items():
        r.cov[k] = r.cov.get(k, 0) + c
    seen = set()
    for x, script, tp in out["violations"]:
        if not x["rule"].startswith(prefixes):
            continue
        sig = core.signature(x)
        if sig in seen or len(seen) >= 6:
            continue
        seen.add(sig)
        r.violations.append((x, script, tp))
    if not r.samples:
        r.samples = out["samples"][:3]
    r.notes["txring"] = dict(out["notes"], wall_s=round(time.time() - t0, 1),
                             violations_all_rules=len(out["violations"]))
    if "unit/src/bin/unit_utx.rs" not in " ".join(r.trusted):
        r.trusted += ["unit/src/bin/unit_utx.rs (driver: polls the write half by hand, performs the connection task's "
                      "statements around truncate_front / grow -- take and wake writer_waker -- and its reads of "
                      "consumer.as_slices(), run-length compresses the ring's bytes, counts wake-ups)",
                      "the ringbuf crate's Observer / Consumer view of the ring (occupied_len, capacity, as_slices)"]
    return out


def run(tier, seed):
    r = core.Result(PID, tier, seed)
    r.trusted = ["TLC"]
    r.assumptions = [
        "the connection task acknowledges at most what the ring holds (its segment accounting is Segments.tla's) and at least one byte",
        "the connection task wakes writer_waker after truncate_front and after a successful grow (stream_dispatch.rs; "
        "performed by the driver in its place: the wake-up on acknowledgement itself is checked at system level)",
        "growth is attempted at any fill level (the connection task grows above 90 %)",
        "writes of at least one byte (poll_write with an empty buffer is outside the value sets)",
        "one writer task (&mut self): a later call of the writer supersedes what an earlier one waited for",
    ]
    part(r, tier, seed, ALL_PREFIXES)
    r.exhaustive = True
    rc = r.finish(
        rule_text="case = witnessing history of a reachable state of MCTxRing + one call, with the specification's answer "
                  "(replayed on fresh real objects, compared for equality); distinct = distinct (history, call) pairs "
                  "+ recorded runs (4 scripted tours + seeded random runs, each with its own buffer sizes, write sizes, "
                  "acknowledgement pattern, growth policy, ending)",
        required_cov=required(ALL_PREFIXES, r))
    return rc


def replay(path):
    """Re-run a recorded violation: the calls on the current implementation, judged by TxRingTrace."""
    d = json.load(open(path))
    _build()
    v, tp = _judge_script(d["script"], "replay")
    pid = d.get("property", PID)
    pref = ALL_PREFIXES if pid == PID else (pid + ".", "TxRing.")
    hits = [x for x in v["viol"] if x["rule"].startswith(tuple(pref))]
    for x in sorted(hits, key=lambda x: x["line"])[:10]:
        print("violation:", json.dumps(x), core.trace_line(tp, x["line"])[:300])
    print("trace:", tp)
    if hits:
        print(f"VIOLATION property={pid} replay={path}")
        return 1
    return 0


if __name__ == "__main__":
    import sys
    if len(sys.argv) >= 2 and sys.argv[1] == "replay":
        sys.exit(replay(sys.argv[2]))
    sys.exit(run(sys.argv[1] if len(sys.argv) > 1 else "quick", int(sys.argv[2]) if len(sys.argv) > 2 else 1))
