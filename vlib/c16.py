"""C16  "Retransmission-timeout estimator stays within bounds"  (src/rtte.rs, RttEstimator)

  1. TLC on MCRtte (spec/Rtte.tla, exact two-limb nanosecond arithmetic): every sample / timeout
     sequence to depth 5 (quick) / 7 (thorough) over the boundary set, from the fresh estimator and from
     three warmed-up ones; invariants RtoBounds, RtoFormula, Doubling (+ DoublingStep), SrttBetween.
  2. spec -> impl: every distinct state TLC reaches at the emission depth comes out as a CASE carrying the
     witnessing call sequence and the specification's (rto, srtt) after every call; unit_rtte replays the
     calls on the real RttEstimator and the answers must be equal to the nanosecond.  Cases that differ are
     turned into a trace and judged by RtteTrace, which names the broken clauses.
  3. impl -> spec: unit_rtte records long seeded random call sequences on the real RttEstimator; RtteTrace
     steps the specification alongside and evaluates C16.RtoBounds, C16.RtoFormula, C16.Doubling,
     C16.SrttBetween and C16.ExactAgreement on every line.
  Extra (never deciding): Apalache proves the bounds / srtt clauses as an inductive invariant on a
  single-integer-nanosecond version of the estimator for all integers.
"""
import json, os, re, shutil, time
from concurrent.futures import ThreadPoolExecutor
from . import core
from .core import log

PID = "C16"
SCRATCH = os.path.join(core.OUT, "c16")
# the driver crate; VERIF_UNIT_DIR points the check at a scratch copy (mutation testing only)
UNIT = os.environ.get("VERIF_UNIT_DIR") or os.path.join(core.ROOT, "unit")
BIN = os.path.join(UNIT, "target", "debug", "unit_rtte")

RULES = ["C16.RtoBounds", "C16.RtoFormula", "C16.Doubling", "C16.SrttBetween", "C16.ExactAgreement"]
# branches of the rules that a run must have exercised to count (vacuity guard)
MARKERS = ["C16.RtoBounds.initial", "C16.RtoFormula.plain", "C16.RtoFormula.granularity",
           "C16.RtoFormula.raised", "C16.RtoFormula.cut", "C16.Doubling.doubled", "C16.Doubling.capped",
           "C16.Doubling.initial", "C16.Doubling.returns", "C16.SrttBetween.strict"]

CASE_RE = re.compile(r'^"CASE (\[\[[-0-9,\[\]]*\]\])"$', re.M)


# ------------------------------------------------------------------------------------------ helpers
def _build():
    core.sh(["cargo", "build", "--offline", "--bin", "unit_rtte"], cwd=UNIT, timeout=1800)


def _replay_bin(cases_path, answers_path):
    p = core.sh([BIN, "replay", cases_path, answers_path], timeout=900, check=False)
    if p.returncode != 0:
        raise core.ToolError(f"unit_rtte replay failed ({p.returncode}):\n{p.stdout[-2000:]}")


def _record_bin(seed, n, path, length):
    p = core.sh([BIN, "record", str(seed), str(n), path, str(length)], timeout=900, check=False)
    if p.returncode != 0:
        raise core.ToolError(f"unit_rtte record failed ({p.returncode}):\n{p.stdout[-2000:]}")


def _tlc_model_nocov(env_extra, tag, timeout, workers, xmx="16g"):
    """core.tlc_model without `-coverage 1` (which costs a factor 2.5 on this model): used for the deep
    instance only; the same module is always run with coverage by the quick instance first."""
    md = os.path.join(core.OUT, "tlc", tag)
    shutil.rmtree(md, ignore_errors=True)
    os.makedirs(md, exist_ok=True)
    env = {"JAVA_TOOL_OPTIONS": f"-Xss512m -Xmx{xmx}"}
    env.update(env_extra)
    cmd = ["timeout", str(timeout), "tlc", "-workers", str(workers), "-metadir", md, "-cleanup",
           "-noGenerateSpecTE", "-config", os.path.join(core.SPEC, "MCRtte.cfg"), os.path.join(core.SPEC, "MCRtte.tla")]
    t0 = time.time()
    p = core.sh(cmd, cwd=md, env=env, check=False, timeout=timeout + 30)
    out = p.stdout
    shutil.rmtree(md, ignore_errors=True)
    res = {"spec": "MCRtte", "cfg": tag, "wall_s": time.time() - t0, "rc": p.returncode, "out": out, "never": []}
    m = re.search(r"(\d+) states generated, (\d+) distinct states found", out)
    if m:
        res["transitions"], res["states"] = int(m.group(1)), int(m.group(2))
    m = re.search(r"depth of the complete state graph search is (\d+)", out)
    if m:
        res["depth"] = int(m.group(1))
    if p.returncode == 124:
        res["timeout"] = True
    if not (p.returncode == 0 and "No error has been found" in out):
        tail = "\n".join(l for l in out.splitlines()
                         if not l.startswith(("Picked up", "TLC2", "Parsing", "Semantic", "Linting", '"CASE')))[-4000:]
        raise core.ToolError(f"model MCRtte/{tag} did not pass (exit {p.returncode}):\n{tail}")
    return res


def _cases_of(out):
    """The CASE lines of a TLC run: the warm-up cases (which store an estimator) first."""
    cs = CASE_RE.findall(out)
    if out.count('"CASE ') != len(cs):
        raise core.ToolError(f"garbled CASE lines in the TLC output ({out.count(chr(34) + 'CASE ')} vs {len(cs)})")
    return sorted(c for c in cs if c.startswith("[[0,")) + sorted(c for c in cs if not c.startswith("[[0,"))


def _trace_lines_of(entries):
    """Recorded-call lines (RtteTrace's format) for a list of answered entries [op, ams, ans, rto.., rtt..]."""
    names = {0: "reset", 1: "sample", 2: "timeout"}
    out = []
    for e in entries:
        if e[0] not in names:
            continue
        rtt = [0, 0] if e[5] < 0 else [e[5], e[6]]
        out.append({"op": names[e[0]], "a": [e[1], e[2]] if e[0] == 1 else [0, 0], "rto": [e[3], e[4]], "rtt": rtt})
    return out


def _calls_of(entries):
    """[[op, ms, ns], ...] for the sample / timeout entries."""
    return [[e[0], e[1], e[2]] for e in entries if e[0] in (1, 2)]


def _answer_for(calls, tag):
    """The implementation's answer (list of entries, or {"panic": step, ..}) to the calls from a fresh estimator."""
    os.makedirs(SCRATCH, exist_ok=True)
    cp = os.path.join(SCRATCH, f"{tag}.case.ndjson")
    ap = os.path.join(SCRATCH, f"{tag}.answer.ndjson")
    with open(cp, "w") as f:
        f.write(json.dumps([[0, 0, 0, 0, 0, 0, 0]] + [[c[0], c[1], c[2], 0, 0, 0, 0] for c in calls],
                           separators=(",", ":")) + "\n")
    _replay_bin(cp, ap)
    return json.loads(open(ap).readline())


def _judge_calls(calls, tag):
    """Run the calls on the implementation from a fresh estimator and let RtteTrace judge the answers.
    Returns (verdict, trace_path)."""
    tp = os.path.join(SCRATCH, f"{tag}.trace.ndjson")
    ans = _answer_for(calls, tag)
    lines = []
    if isinstance(ans, dict):   # panic in entry ans["panic"] (entry 0 is the fresh estimator)
        k = ans["panic"]
        pre = _answer_for(calls[:k - 1], tag) if k >= 1 else None
        lines = _trace_lines_of(pre) if isinstance(pre, list) else \
            [{"op": "reset", "a": [0, 0], "rto": [0, 0], "rtt": [0, 0]}]
        lines.append({"op": "panic", "a": [0, 0], "rto": [0, 0], "rtt": [0, 0], "msg": ans.get("msg", "")})
    else:
        lines = _trace_lines_of(ans)
    with open(tp, "w") as f:
        for l in lines:
            f.write(json.dumps(l, separators=(",", ":")) + "\n")
    v = core.tlc_trace(tp, spec="RtteTrace", tag=f"c16_{tag}", timeout=300)
    return v, tp


def _fmt(ms, ns):
    return f"{ms}.{ns:06d} ms"


def _sample_of(case, answer):
    h = json.loads(case)
    names = {0: "fresh", 1: "sample", 2: "timeout", 3: "from stored state", 4: "store state"}
    steps = []
    for e in h[-8:]:
        steps.append({"call": names[e[0]] + (f"({_fmt(e[1], e[2])})" if e[0] == 1 else f" #{e[1]}" if e[0] in (3, 4) else ""),
                      "spec_rto": _fmt(e[3], e[4]), "spec_srtt": "unspecified" if e[5] < 0 else _fmt(e[5], e[6])})
    return {"calls": len(h) - 1, "last_steps": steps, "impl_equal": case == answer}


def _seq_of_line(trace_path, line):
    """(0-based sequence index, calls of that sequence up to and including the 1-based line)."""
    idx, calls = -1, []
    with open(trace_path) as f:
        for i, l in enumerate(f, 1):
            r = json.loads(l)
            if r["op"] == "reset":
                idx += 1
                calls = []
            elif r["op"] == "sample":
                calls.append([1, r["a"][0], r["a"][1]])
            elif r["op"] == "timeout":
                calls.append([2, 0, 0])
            if i >= line:
                break
    return idx, calls


def _add_trace_violations(r, v, origin, limit=6):
    """One entry per (sequence, rule) at the first offending line of the sequence."""
    seen_seq = {}
    for x in sorted(v.get("viol", []), key=lambda x: x["line"]):
        if not x["rule"].startswith(PID + "."):
            continue
        si, calls = _seq_of_line(v["trace"], x["line"])
        first = seen_seq.setdefault(si, x["line"])
        if x["line"] != first or len(r.violations) >= limit:
            continue
        r.violations.append(({"line": x["line"], "rule": x["rule"], "ctx": x.get("ctx", ""), "ep": ""},
                             {"kind": "calls", "origin": origin, "calls": calls}, v["trace"]))


def _apalache():
    """Extra evidence only: RtoBounds / SrttBetween as an inductive invariant over unbounded integers."""
    d = os.path.join(SCRATCH, "apalache")
    shutil.rmtree(d, ignore_errors=True)
    os.makedirs(d, exist_ok=True)
    with open(os.path.join(d, "RtteInt.tla"), "w") as f:
        f.write(RTTE_INT)
    t0 = time.time()
    res = {}
    try:
        for name, args in (("base", ["--init=Init", "--inv=Inv", "--length=0"]),
                           ("step", ["--init=IndInit", "--inv=Inv", "--length=1"])):
            p = core.sh(["timeout", "120", "apalache-mc", "check", f"--out-dir={d}/out"] + args + ["RtteInt.tla"],
                        cwd=d, check=False, timeout=150)
            res[name] = "proved" if ("The outcome is: NoError" in p.stdout and p.returncode == 0) else \
                        "counterexample" if "The outcome is: Error" in p.stdout else f"not run (exit {p.returncode})"
    except Exception as e:  # never deciding
        res["error"] = str(e)[:200]
    res["wall_s"] = round(time.time() - t0, 1)
    res["what"] = ("Inv == 200 ms <= rto <= 60 s /\\ (after a sample: 0 <= lo <= srtt <= hi /\\ 0 <= rttvar <= hi); "
                   "Init => Inv and Inv /\\ Next => Inv' for every integer state and every sample r >= 0 "
                   "(single-integer nanoseconds, same update rules and roundings as Rtte.tla)")
    return res


# ------------------------------------------------------------------------------------------ the check
def run(tier, seed):
    r = core.Result(PID, tier, seed)
    r.trusted = ["TLC", "unit/src/bin/unit_rtte.rs (calls the estimator, converts Duration to two limbs)",
                 "verif_api re-export of rtte::RttEstimator under cfg librqbit_utp_verif"]
    thorough = tier == "thorough"
    os.makedirs(SCRATCH, exist_ok=True)
    _build()
    pool = ThreadPoolExecutor(max_workers=6)
    apa = pool.submit(_apalache)

    # ---- impl -> spec: recorded call sequences, validated by RtteTrace
    nfiles, nseq, length = (4, 60, 300) if thorough else (2, 10, 300)
    tdir = os.path.join(core.OUT, "traces", "C16")
    shutil.rmtree(tdir, ignore_errors=True)
    os.makedirs(tdir, exist_ok=True)

    def rec(i):
        tp = os.path.join(tdir, f"rec_{tier}_{seed}_{i}.ndjson")
        _record_bin(seed * 1000 + i, nseq, tp, length)
        return core.tlc_trace(tp, spec="RtteTrace", tag=f"c16_rec_{i}", timeout=600)
    rec_futs = [pool.submit(rec, i) for i in range(nfiles)]

    # the timeout before the first sample is a parameter of the model (the property leaves it open):
    # take it from the implementation, unless it is outside the bounds (then RtoBounds fires anyway)
    probe_c, probe_a = os.path.join(SCRATCH, "probe.case.ndjson"), os.path.join(SCRATCH, "probe.answer.ndjson")
    with open(probe_c, "w") as f:
        f.write("[[0,0,0,0,0,0,0]]\n")
    _replay_bin(probe_c, probe_a)
    pa = json.loads(open(probe_a).readline())
    init = (pa[0][3], pa[0][4]) if isinstance(pa, list) else (300, 0)

    verdicts = [f.result() for f in rec_futs]
    fresh_bad = False
    for v in verdicts:
        r.traces += v.get("runs", 0)
        r.trace_lines += v.get("lines", 0)
        r.scripts += v.get("runs", 0)
        for k, c in v.get("cov", {}).items():
            r.cov[k] = r.cov.get(k, 0) + c
        fresh_bad |= any(x["ctx"] == "fresh" for x in v.get("viol", []))
        _add_trace_violations(r, v, "recorded sequence")
    for i in range(r.traces):
        r.distinct.add(f"rec{seed}_{i}")
    log(f"[C16] recorded: {r.traces} sequences, {r.trace_lines} lines, violations so far {len(r.violations)}")

    # ---- the bounded model(s)
    env = {"RTTE_DEPTH": "5", "RTTE_WDEPTH": "3", "RTTE_FULL": "5", "RTTE_STRIDE": "1", "RTTE_OFFSET": "0"}
    if not fresh_bad:
        env.update({"RTTE_INIT_MS": str(init[0]), "RTTE_INIT_NS": str(init[1])})
    res = core.tlc_model("MCRtte", tag=f"mc_MCRtte_{tier}", timeout=300, env_extra=env)
    if res["never"]:
        raise core.ToolError(f"MCRtte: actions never taken: {res['never']}")
    r.add_model(res)
    cases = _cases_of(res["out"])
    res["out"] = ""
    depth = 5
    if thorough:
        stride = 97
        env7 = dict(env, RTTE_DEPTH="7", RTTE_WDEPTH="4", RTTE_FULL="0", RTTE_LEAFCUT="1", RTTE_STRIDE=str(stride),
                    RTTE_OFFSET=str(seed % stride))
        res7 = _tlc_model_nocov(env7, "mc_MCRtte_deep", timeout=1500, workers=core.NCPU)
        r.add_model(res7)
        have = set(cases)
        cases += [c for c in _cases_of(res7["out"]) if c not in have and not c.startswith("[[0,")]
        res7["out"] = ""
        depth = 7
        r.notes["deep_instance"] = ("depth 7 from the fresh estimator, 4 from the warmed-up ones, run without -coverage and "
                                    "with CONSTRAINT LeafCut: the states at the maximal depth are generated and checked "
                                    "(invariants, step property, case emission) but not fingerprinted, so `states` counts "
                                    "the interior states only and `transitions` counts every generated state; one leaf "
                                    f"state in {stride} (by a hash of the estimator state, offset seed mod {stride}) is "
                                    "emitted as a case")
    r.exhaustive = {"what": f"all sample/timeout sequences to depth {depth} over 12 boundary samples from the fresh "
                            f"estimator (13^{depth} = {13 ** depth} sequences), to depth {4 if thorough else 3} from 3 "
                            "warmed-up estimators; states merged by VIEW (estimator state, depth)",
                    "initial_rto_ms_ns": list(init)}

    # ---- spec -> impl: exact-equality replay
    cp = os.path.join(SCRATCH, f"cases_{tier}.ndjson")
    ap = os.path.join(SCRATCH, f"answers_{tier}.ndjson")
    with open(cp, "w") as f:
        f.write("\n".join(cases) + "\n")
    _replay_bin(cp, ap)
    answers = open(ap).read().split("\n")
    if answers and answers[-1] == "":
        answers.pop()
    if len(answers) != len(cases):
        raise core.ToolError(f"replay answered {len(answers)} of {len(cases)} cases")
    steps = 0
    differing = []
    warm = {}        # number -> (spec entries, impl entries) of the warm-up case that stores it
    for i, (c, a) in enumerate(zip(cases, answers)):
        steps += c.count("[1,") + c.count("[2,")
        if c.startswith("[[0,"):
            hc = json.loads(c)
            ha = json.loads(a)
            warm[hc[-1][1]] = (hc, ha)
        if c != a:
            differing.append(i)
        if "[1," in c:
            r.distinct.add(hash(c))
    r.scripts += len(cases)
    r.cov["C16.ExactAgreement"] = r.cov.get("C16.ExactAgreement", 0) + steps
    log(f"[C16] replayed {len(cases)} cases ({steps} calls): {len(differing)} differ")
    pick = [0, len(cases) // 2, len(cases) - 1] if cases else []
    r.samples = [_sample_of(cases[i], answers[i]) for i in pick]

    # cases whose answer differs: RtteTrace names the broken clauses
    for j, i in enumerate(differing[:3]):
        hc = json.loads(cases[i])
        calls = _calls_of(hc)
        if hc[0][0] == 3:   # starts from a stored estimator: prepend the calls of its warm-up
            calls = _calls_of(warm[hc[0][1]][0]) + calls
        v, tp = _judge_calls(calls, f"diff_{tier}_{seed}_{j}")
        before = len(r.violations)
        _add_trace_violations(r, v, "TLC case", limit=before + 3)
        if len(r.violations) == before:   # bytes differ but no clause fired: still a disagreement
            r.violations.append(({"line": 1, "rule": "C16.ExactAgreement", "ctx": "replay", "ep": ""},
                                 {"kind": "calls", "origin": "TLC case", "calls": calls}, tp))
    r.notes["replay"] = {"cases": len(cases), "calls_compared": steps, "cases_differing": len(differing)}
    r.notes["apalache_extra"] = apa.result()
    pool.shutdown()
    return r.finish(
        rule_text="cases: one per distinct estimator state reached by TLC at the emission depth (witnessing call "
                  "sequence + the specification's rto/srtt after every call), replayed with exact equality; "
                  "distinct non-trivial = distinct case containing at least one sample, plus each recorded "
                  "random sequence (5 generator regimes x seed)",
        required_cov=RULES + MARKERS)


def replay(path):
    """Re-run a recorded violation: the calls on the current implementation, judged by RtteTrace."""
    d = json.load(open(path))
    _build()
    calls = d["script"]["calls"]
    v, tp = _judge_calls(calls, "replay")
    hits = [x for x in v["viol"] if x["rule"].startswith(PID + ".")]
    for x in sorted(hits, key=lambda x: x["line"])[:10]:
        print("violation:", json.dumps(x), core.trace_line(tp, x["line"])[:300])
    print("trace:", tp)
    if hits:
        print(f"VIOLATION property={PID} replay={path}")
        return 1
    return 0


RTTE_INT = r'''------------------------------ MODULE RtteInt ------------------------------
(* C16 on single unbounded integers (nanoseconds): the bounds and the srtt clause as an inductive
   invariant, for ALL samples r >= 0 and all states satisfying it (reachable or not).  Same update
   rules and roundings as Rtte.tla; written by vlib/c16.py, checked with Apalache. *)
EXTENDS Integers

VARIABLES
    \* @type: Bool;
    sub,
    \* @type: Int;
    srtt,
    \* @type: Int;
    rttvar,
    \* @type: Int;
    rto,
    \* @type: Int;
    lo,
    \* @type: Int;
    hi

MinRto == 200000000
MaxRto == 60000000000
Gran   == 10000000

Max(a, b) == IF a >= b THEN a ELSE b
Min(a, b) == IF a <= b THEN a ELSE b
Abs(x)    == IF x >= 0 THEN x ELSE -x
Clamp(d)  == IF d < MinRto THEN MinRto ELSE IF d > MaxRto THEN MaxRto ELSE d
Calc(s, v) == Clamp(s + Max(4 * v, Gran))

Init ==
    /\ sub = FALSE /\ srtt = 0 /\ rttvar = 0 /\ lo = 0 /\ hi = 0
    /\ rto \in Int /\ rto >= MinRto /\ rto <= MaxRto

Sample(r) ==
    /\ sub' = TRUE
    /\ srtt' = IF sub THEN (7 * srtt + r) \div 8 ELSE r
    /\ rttvar' = IF sub THEN ((3 * rttvar) \div 4) + (Abs(srtt - r) \div 4) ELSE r \div 2
    /\ rto' = Calc(srtt', rttvar')
    /\ lo' = IF sub THEN Min(lo, r) ELSE r
    /\ hi' = IF sub THEN Max(hi, r) ELSE r

Timeout ==
    /\ rto' = Min(2 * rto, MaxRto)
    /\ UNCHANGED <<sub, srtt, rttvar, lo, hi>>

Next == (\E r \in Nat : Sample(r)) \/ Timeout

Inv ==
    /\ MinRto <= rto /\ rto <= MaxRto                              \* RtoBounds
    /\ (sub => (0 <= lo /\ lo <= srtt /\ srtt <= hi))              \* SrttBetween
    /\ (sub => (0 <= rttvar /\ rttvar <= hi))                      \* VarBounded

IndInit ==
    /\ sub \in BOOLEAN /\ srtt \in Int /\ rttvar \in Int /\ rto \in Int /\ lo \in Int /\ hi \in Int
    /\ Inv
=============================================================================
'''
