"""Orchestration core: build the harness, run TLC (models and trace validation), collect
verdicts, apply the known-findings file, write evidence and replay files.  Standard library only."""
import json, os, re, subprocess, sys, time, shutil, hashlib
from concurrent.futures import ThreadPoolExecutor

ROOT = os.path.dirname(os.path.dirname(os.path.abspath(__file__)))
SPEC = os.path.join(ROOT, "spec")
HARNESS = os.path.join(ROOT, "harness")
OUT = os.path.join(ROOT, "out")
EVID = os.path.join(ROOT, "evidence")
KNOWN = os.path.join(ROOT, "known-findings.txt")
UTPSIM = os.path.join(HARNESS, "target", "debug", "utpsim")
NCPU = os.cpu_count() or 4

class ToolError(Exception):
    pass

def log(*a):
    print(*a, file=sys.stderr, flush=True)

def sh(cmd, cwd=None, env=None, timeout=None, check=True):
    e = dict(os.environ)
    if env:
        e.update(env)
    p = subprocess.run(cmd, cwd=cwd, env=e, stdout=subprocess.PIPE, stderr=subprocess.STDOUT,
                       timeout=timeout, text=True)
    if check and p.returncode != 0:
        raise ToolError(f"command failed ({p.returncode}): {' '.join(cmd)}\n{p.stdout[-4000:]}")
    return p

# ------------------------------------------------------------------ harness
_built = False
def build_harness():
    """Rebuild the harness (and therefore the library with hooks on) from /repo's working tree."""
    global _built
    if _built:
        return
    env = {"CARGO_NET_OFFLINE": "true"}
    t0 = time.time()
    p = sh(["cargo", "build", "--offline", "--bins"], cwd=HARNESS, env=env, timeout=1800, check=False)
    if p.returncode != 0:
        raise ToolError("harness build failed:\n" + p.stdout[-6000:])
    log(f"[build] harness built in {time.time()-t0:.1f}s")
    _built = True

def run_scripts(scripts, out_path, binary=None, timeout=600):
    """Execute scripts with the harness; returns number of trace lines."""
    os.makedirs(os.path.dirname(out_path), exist_ok=True)
    sp = out_path + ".scripts.json"
    with open(sp, "w") as f:
        for s in scripts:
            f.write(json.dumps(s) + "\n")
    p = sh([binary or UTPSIM, "run", sp, out_path], timeout=timeout, check=False)
    if p.returncode != 0:
        raise ToolError(f"harness run failed ({p.returncode}):\n{p.stdout[-3000:]}")
    m = re.search(r"lines=(\d+)", p.stdout)
    return int(m.group(1)) if m else 0

# ------------------------------------------------------------------ TLC
TLC_ENV = {"JAVA_TOOL_OPTIONS": "-Xss1g -Dtlc2.tool.queue.IStateQueue=StateDeque"}

def _metadir(tag):
    d = os.path.join(OUT, "tlc", tag)
    shutil.rmtree(d, ignore_errors=True)
    os.makedirs(d, exist_ok=True)
    return d

def tlc_trace(trace_path, spec="UtpTrace", cfg=None, tag=None, timeout=900, xmx="3g"):
    """Validate one recorded trace against a trace specification; returns the verdict dict."""
    tag = tag or ("tr_" + hashlib.md5(trace_path.encode()).hexdigest()[:10])
    md = _metadir(tag)
    env = dict(TLC_ENV)
    env["TRACE"] = trace_path
    env["JAVA_TOOL_OPTIONS"] += f" -Xmx{xmx}"
    cmd = ["timeout", str(timeout), "tlc", "-workers", "1", "-metadir", md, "-cleanup", "-noGenerateSpecTE",
           "-config", os.path.join(SPEC, (cfg or spec) + ".cfg"), os.path.join(SPEC, spec + ".tla")]
    t0 = time.time()
    p = sh(cmd, cwd=md, env=env, check=False, timeout=timeout + 30)
    out = p.stdout
    shutil.rmtree(md, ignore_errors=True)
    m = re.search(r'<<"VERDICT", "(.*)">>', out)
    if not m or "TRACE NOT ACCEPTED" in out or p.returncode != 0:
        tail = "\n".join(l for l in out.splitlines() if not l.startswith(("Picked up", "TLC2", "Parsing", "Semantic", "Linting")))[-3000:]
        raise ToolError(f"trace validation failed for {trace_path} (exit {p.returncode}):\n{tail}")
    inner = json.loads('"' + m.group(1) + '"')
    v = json.loads(inner)
    v["wall_s"] = time.time() - t0
    v["trace"] = trace_path
    return v

def tlc_model(spec, cfg=None, tag=None, timeout=600, workers=None, extra=None, simulate=None, depth=None,
              xmx="8g", env_extra=None, allow_fail=False, coverage=False):
    """Run a bounded model; returns dict(states, distinct, depth, ok, out)."""
    tag = tag or ("mc_" + (cfg or spec))
    md = _metadir(tag)
    env = {"JAVA_TOOL_OPTIONS": f"-Xss512m -Xmx{xmx}"}
    if env_extra:
        env.update(env_extra)
    cmd = ["timeout", str(timeout), "tlc", "-workers", str(workers or min(NCPU, 12)), "-metadir", md, "-cleanup",
           "-noGenerateSpecTE"]
    if coverage:
        cmd += ["-coverage", "1"]
    if simulate:
        cmd += ["-simulate", f"num={simulate}"]
        if depth:
            cmd += ["-depth", str(depth)]
    cmd += ["-config", os.path.join(SPEC, (cfg or spec) + ".cfg"), os.path.join(SPEC, spec + ".tla")]
    if extra:
        cmd += extra
    t0 = time.time()
    p = sh(cmd, cwd=md, env=env, check=False, timeout=timeout + 30)
    out = p.stdout
    shutil.rmtree(md, ignore_errors=True)
    res = {"spec": spec, "cfg": cfg or spec, "wall_s": time.time() - t0, "rc": p.returncode, "out": out}
    m = re.search(r"(\d+) states generated, (\d+) distinct states found", out)
    if m:
        res["transitions"] = int(m.group(1))
        res["states"] = int(m.group(2))
    m = re.search(r"depth of the complete state graph search is (\d+)", out)
    if m:
        res["depth"] = int(m.group(1))
    res["ok"] = (p.returncode == 0 and "No error has been found" in out) or (simulate and p.returncode in (0,) )
    if p.returncode == 124:
        res["timeout"] = True
    # actions never taken (vacuity)
    res["never"] = re.findall(r"<(\w+) line \d+, col \d+ to line \d+, col \d+ of module \w+>: 0:0", out)
    if not res["ok"] and not allow_fail:
        tail = "\n".join(l for l in out.splitlines() if not l.startswith(("Picked up", "TLC2", "Parsing", "Semantic", "Linting")))[-4000:]
        raise ToolError(f"model {spec}/{cfg or spec} did not pass (exit {p.returncode}):\n{tail}")
    return res

# ------------------------------------------------------------------ traces in batches
def run_and_validate(name, scripts, shards=None, spec="UtpTrace", cfg=None, per_trace_timeout=900):
    """Run scripts sharded over several harness processes / TLC validators.
    Returns list of (verdict, scripts_of_that_shard)."""
    if not scripts:
        return []
    shards = max(1, min(shards or min(NCPU, 12), len(scripts)))
    groups = [scripts[i::shards] for i in range(shards)]
    d = os.path.join(OUT, "traces", name)
    shutil.rmtree(d, ignore_errors=True)
    os.makedirs(d, exist_ok=True)

    def one(i):
        tp = os.path.join(d, f"t{i}.ndjson")
        n = run_scripts(groups[i], tp)
        v = tlc_trace(tp, spec=spec, cfg=cfg, tag=f"{name}_{i}", timeout=per_trace_timeout)
        v["lines_run"] = n
        return v, groups[i]

    with ThreadPoolExecutor(max_workers=shards) as ex:
        return list(ex.map(one, range(shards)))

def run_of_line(trace_path, line):
    """Index (0-based) of the run that contains the given 1-based line, by counting reset lines."""
    idx = -1
    with open(trace_path) as f:
        for i, l in enumerate(f, 1):
            if l.startswith('{"cfg"') or '"ev":"reset"' in l[:400]:
                if '"ev":"reset"' in l:
                    idx += 1
            if i >= line:
                break
    return max(idx, 0)

def trace_line(trace_path, line):
    with open(trace_path) as f:
        for i, l in enumerate(f, 1):
            if i == line:
                return l.strip()
    return ""

# ------------------------------------------------------------------ known findings
def load_known():
    known, fixed = [], []
    if os.path.exists(KNOWN):
        for l in open(KNOWN):
            l = l.strip()
            if l.startswith("known:"):
                m = re.match(r"known:\s+property=(\S+)\s+sig=(\S+)\s+(.*)", l)
                if m:
                    known.append({"property": m.group(1), "sig": m.group(2), "text": m.group(3)})
            elif l.startswith("fixed:"):
                fixed.append(l)
    return known, fixed

def signature(v):
    """rule@context of a violation entry produced by the trace specification."""
    return f"{v['rule']}@{v.get('ctx', '')}"

# ------------------------------------------------------------------ evidence / verdict
class Result:
    def __init__(self, pid, tier, seed):
        self.pid, self.tier, self.seed = pid, tier, seed
        self.t0 = time.time()
        self.states = 0
        self.transitions = 0
        self.models = []
        self.traces = 0
        self.trace_lines = 0
        self.scripts = 0
        self.distinct = set()
        self.samples = []
        self.cov = {}
        self.violations = []      # (violation dict, script, trace_path)
        self.known_hits = []
        self.assumptions = []
        self.notes = {}
        self.exhaustive = None
        self.trusted = []

    def add_model(self, r):
        self.states += r.get("states", 0)
        self.transitions += r.get("transitions", 0)
        self.models.append({k: r.get(k) for k in ("spec", "cfg", "states", "transitions", "depth", "wall_s", "never", "timeout")})

    def add_validated(self, results, rules_prefix=None, distinct_key=None):
        """results: list of (verdict, scripts). Collect coverage and the violations of this property."""
        prefixes = rules_prefix if isinstance(rules_prefix, (list, tuple)) else [rules_prefix or (self.pid + ".")]
        for v, scripts in results:
            self.traces += v.get("runs", len(scripts))
            self.trace_lines += v.get("lines", 0)
            self.scripts += len(scripts)
            for s in scripts:
                key = distinct_key(s) if distinct_key else json.dumps(s, sort_keys=True)
                self.distinct.add(hashlib.md5(key.encode()).hexdigest())
            for k, c in v.get("cov", {}).items():
                self.cov[k] = self.cov.get(k, 0) + c
            seen_eps = set()
            known, _f = load_known()
            ksigs = {k["sig"] for k in known if k["property"] == self.pid}
            for x in sorted(v.get("viol", []), key=lambda x: (x["line"], x["rule"])):
                if not any(x["rule"].startswith(p) for p in prefixes):
                    continue
                ri = run_of_line(v["trace"], x["line"])
                # one verdict per connection: after the first broken rule that is not a listed finding, later broken
                # rules on the same connection are consequences (listed findings do not mask what follows them)
                epk = (ri, x.get("ep"))
                if epk in seen_eps:
                    continue
                if signature(x) not in ksigs:
                    seen_eps.add(epk)
                sc = scripts[ri] if ri < len(scripts) else None
                self.violations.append((x, sc, v["trace"]))

    def finish(self, level="model_checking", rule_text="", required_cov=(), extra_cov=None):
        known, _fixed = load_known()
        real = []
        for x, sc, tp in self.violations:
            sig = signature(x)
            hit = [k for k in known if k["property"] == self.pid and k["sig"] == sig]
            if hit:
                self.known_hits.append((hit[0], x))
            else:
                real.append((x, sc, tp))
        # vacuity: every required rule must have been exercised
        missing = [r for r in required_cov if self.cov.get(r, 0) == 0]
        os.makedirs(EVID, exist_ok=True)
        if not self.samples and self.scripts:
            pass
        cov = {}
        if self.states > 0 and self.transitions > 0:
            cov["states"] = self.states
            cov["transitions"] = self.transitions
        cov.update({
            "traces_validated_against_impl": self.traces,
            "samples": self.samples[:3] if self.samples else ["(none)"],
            "evaluations": self.scripts,
            "distinct_nontrivial": len(self.distinct),
            "rule": rule_text,
            "trace_lines": self.trace_lines,
            "models": self.models,
            "rule_coverage": {k: v for k, v in sorted(self.cov.items()) if k.startswith(self.pid + ".") or k in required_cov},
            "known_findings_seen": [f"{k['sig']}" for k, _ in self.known_hits],
            "trusted_base": self.trusted or ["TLC 1.8.0", "harness/src/stream.rs payload projection", "hooks under cfg librqbit_utp_verif"],
        })
        if self.exhaustive is not None:
            # the schema wants a boolean; anything else a check wrote is kept as an explanatory note
            if isinstance(self.exhaustive, bool):
                cov["exhaustive"] = self.exhaustive
            else:
                cov["exhaustive"] = False
                cov["exhaustive_note"] = self.exhaustive
        if extra_cov:
            cov.update(extra_cov)
        cov.update(self.notes)
        ev = {"property_id": self.pid, "tier": self.tier, "seed": self.seed, "level": level,
              "coverage": cov, "assumptions": self.assumptions, "wall_s": round(time.time() - self.t0, 2),
              "violations": len(real)}
        # evidence/<id>.json exists for the listed properties only; stand-alone component runs go to out/
        evdir = EVID if re.match(r"C\d\d$", self.pid) else os.path.join(OUT, "component_evidence")
        os.makedirs(evdir, exist_ok=True)
        with open(os.path.join(evdir, self.pid + ".json"), "w") as f:
            json.dump(ev, f, indent=1)
        seen = set()
        for k, x in self.known_hits:
            if k["sig"] in seen:
                continue
            seen.add(k["sig"])
            print(f"KNOWN-FINDING: property={self.pid} {k['sig']} {k['text']}")
        # a violation is reported even if it cut runs short and left other rules unexercised
        if missing and not real:
            log(f"[{self.pid}] vacuous: rules never exercised: {missing}")
            return 2
        if real:
            vd = os.path.join(OUT, "violations")
            os.makedirs(vd, exist_ok=True)
            for i, (x, sc, tp) in enumerate(real[:5]):
                path = os.path.join(vd, f"{self.pid}_{self.tier}_{self.seed}_{i}.json")
                with open(path, "w") as f:
                    json.dump({"property": self.pid, "violation": x, "signature": signature(x), "script": sc,
                               "trace": tp, "trace_line": trace_line(tp, x["line"])}, f, indent=1)
                print(f"VIOLATION property={self.pid} replay={path}")
                log(f"[{self.pid}] {signature(x)} line {x['line']} of {tp}: {trace_line(tp, x['line'])[:300]}")
            return 1
        return 0
