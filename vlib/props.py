"""Per-property checks.  Each check: (1) TLC on the bounded model(s) of the property, (2) scenario
families executed on the real library, (3) TLC trace validation of every recorded trace against
the contract, (4) verdict restricted to the rules that formalise that property."""
import json, os, sys, random, time
from . import core, scen
from .core import Result, log

# ------------------------------------------------------------------------------------------
FAMILIES = {}
def family(name):
    def deco(f):
        FAMILIES[name] = f
        return f
    return deco

@family("xfer")
def fam_xfer(seed, n):
    return [scen.bursty_transfer(seed, i) if i % 4 == 3 else scen.random_transfer(seed, i, fam="xfer", lossy=True) for i in range(n)]

@family("xfer_clean")
def fam_xfer_clean(seed, n):
    return [scen.random_transfer(seed, i, fam="xfer_clean", lossy=False) for i in range(n)]

@family("peer_send")
def fam_peer_send(seed, n):
    return [scen.peer_send(seed, i) for i in range(n)]

@family("peer_recv")
def fam_peer_recv(seed, n):
    return [scen.peer_recv(seed, i) for i in range(n)]

@family("close")
def fam_close(seed, n):
    return [scen.close_script(seed, i) for i in range(n)]

@family("many")
def fam_many(seed, n):
    return [scen.many_script(seed, i) for i in range(n)]

@family("backlog")
def fam_backlog(seed, n):
    return [scen.accept_abandon_script(seed, i) if i % 2 else scen.backlog_script(seed, i) for i in range(n)]

@family("hostile")
def fam_hostile(seed, n):
    return [scen.hostile_script(seed, i) for i in range(n)]

@family("mtu")
def fam_mtu(seed, n):
    return [scen.mtu_script(seed, i) for i in range(n)]

@family("probe_loss")
def fam_probe_loss(seed, n):
    return [scen.probe_loss(seed, i) for i in range(n)]

@family("evict")
def fam_evict(seed, n):
    return [scen.evict_script(seed, i) for i in range(n)]

@family("probe_delay")
def fam_probe_delay(seed, n):
    return [scen.probe_delay_script(seed, i) for i in range(n)]

@family("flood_close")
def fam_flood_close(seed, n):
    return [scen.flood_after_close_script(seed, i) for i in range(n)]

@family("sockpeer")
def fam_sockpeer(seed, n):
    return [scen.sockpeer_script(seed, i) for i in range(n)]

@family("zwin")
def fam_zwin(seed, n):
    return [scen.zwin_script(seed, i) for i in range(n)]

@family("walk")
def fam_walk(seed, n):
    from . import walk
    return walk.family(seed, n)

@family("kf")
def fam_kf(seed, n):
    return [scen.kf_d4(seed), scen.kf_d6(seed), scen.kf_d1b(seed), scen.kf_d14(seed), scen.kf_d6b(seed), scen.kf_d5(seed)]

# ------------------------------------------------------------------------------------------
def sample_of(script):
    c = script["cfg"]
    return {"name": c["name"], "seed": c["seed"], "info": c.get("info"), "net": c.get("net"),
            "steps": script["steps"][:12]}

def soak(fam, n, seed):
    core.build_harness()
    scripts = FAMILIES[fam](seed, n)
    res = core.run_and_validate("soak_" + fam, scripts)
    bad = 0
    cov = {}
    for v, sc in res:
        for k, c in v["cov"].items():
            cov[k] = cov.get(k, 0) + c
        for x in v["viol"]:
            ri = core.run_of_line(v["trace"], x["line"])
            bad += 1
            print("VIOL", x["rule"], x.get("ctx", "") or "-", "line", x["line"], v["trace"], "script", sc[ri]["cfg"]["name"] if ri < len(sc) else "?")
            print("     ", core.trace_line(v["trace"], x["line"])[:400])
    print(json.dumps(cov, indent=0))
    print("lines", sum(v["lines"] for v, _ in res), "wall", max(v["wall_s"] for v, _ in res))
    return 1 if bad else 0

# ------------------------------------------------------------------------------------------
CHECKS = {}
def check(pid):
    def deco(f):
        CHECKS[pid] = f
        return f
    return deco

def sizes(tier, quick, thorough):
    return thorough if tier == "thorough" else quick

NO_COVERAGE = {"MCClose", "MCSocket"}    # (multi-million-state instances: -coverage slows TLC 2-8x)
def model(r, spec, cfg_quick, cfg_thorough=None, timeout=600, workers=8):
    cfg = cfg_thorough if (r.tier == "thorough" and cfg_thorough) else cfg_quick
    thorough = r.tier == "thorough"
    res = core.tlc_model(spec, cfg, timeout=2400 if thorough else timeout, workers=12 if thorough else workers,
                         coverage=(thorough and spec not in NO_COVERAGE))
    r.add_model(res)
    return res

GENERAL_RULE = ("TLC: exhaustive bounded model(s) listed under 'models'; implementation: seeded scenario families "
                "executed on the real library under virtual time, every recorded trace validated by TLC against the "
                "contract (UtpTrace.tla); distinct = distinct script (configuration x schedule x fault seed)")

def xfer_scripts(tier, seed, quick_n, thorough_n):
    n = sizes(tier, quick_n, thorough_n)
    return fam_xfer(seed, n) + fam_xfer_clean(seed, max(8, n // 5))

def component(r, modname, tier, seed, prefixes=None):
    """Run a component-level check (its own TLA+ model of one data structure, TLC-generated cases replayed on the
    real object, recorded random runs validated by TLC) and add its evidence to `r`.  Returns the extra rule /
    marker names that must have been exercised."""
    import importlib
    m = importlib.import_module("vlib." + modname)
    n0 = len(r.violations)
    if prefixes is None:
        m.part(r, tier, seed)
    else:
        m.part(r, tier, seed, prefixes)
    for i in range(n0, len(r.violations)):
        x, sc, tp = r.violations[i]
        sc = dict(sc, component=modname) if isinstance(sc, dict) else {"component": modname, "script": sc}
        r.violations[i] = (x, sc, tp)
    if hasattr(m, "required"):
        return list(m.required(prefixes, r)) if prefixes is not None else list(m.required(r))
    req = list(getattr(m, "REQUIRED", []))
    return [] if len(r.violations) > n0 else req

def std_check(pid, families, required, model_spec=None, assumptions=None, extra_prefixes=None, parts=None):
    """Generic check: optional bounded model + scenario families + trace validation (+ component checks)."""
    def f(tier, seed):
        r = Result(pid, tier, seed)
        if model_spec:
            for (spec, cq, ct) in model_spec:
                model(r, spec, cq, ct)
        scripts = []
        for (fam, nq, nt) in families:
            scripts += FAMILIES[fam](seed, sizes(tier, nq, nt))
        r.samples = [sample_of(s) for s in scripts[:2]]
        r.add_validated(core.run_and_validate(pid, scripts), rules_prefix=[pid + "."] + list(extra_prefixes or []))
        r.assumptions = list(assumptions or []) + [
            "single-threaded deterministic runtime under tokio virtual time; the OS/UDP layer is replaced by the simulated Transport",
            "hook values (cfg librqbit_utp_verif) are read-only copies of the implementation's state"]
        req = list(required)
        for (modname, prefixes) in (parts or []):
            req += component(r, modname, tier, seed, prefixes)
        return r.finish(rule_text=GENERAL_RULE + ("; component checks: " + ", ".join(m for m, _ in parts) if parts else ""),
                        required_cov=req)
    CHECKS[pid] = f
    return f

DATA_MODEL = [("MCData", "MCData_quick", "MCData")]
SOCK_MODEL = [("MCSocket", "MCSocket_quick", "MCSocket")]
CLOSE_MODEL = [("MCClose", "MCClose_quick", "MCClose"), ("MCClose", "MCClose_live", "MCClose_live")]
KF = [("kf", 6, 6)]

@check("C01")
def c01(tier, seed):
    r = Result("C01", tier, seed)
    model(r, "MCData", "MCData_quick", "MCData")
    scripts = xfer_scripts(tier, seed, 50, 1000) + fam_mtu(seed, sizes(tier, 16, 300)) + fam_kf(seed, 6) + \
        fam_peer_send(seed, sizes(tier, 48, 600)) + fam_probe_delay(seed, sizes(tier, 24, 120))
    r.samples = [sample_of(s) for s in scripts[:2]]
    r.add_validated(core.run_and_validate("C01", scripts))
    req_parts = component(r, "ooq", tier, seed, ["C01."]) + component(r, "segs", tier, seed, ["C01.", "Segs."]) + \
        component(r, "utx", tier, seed, ["C01."])
    r.assumptions = ["payload identity rests on the projection function harness/src/stream.rs (unit-tested by corrupting bytes)",
                     "single-threaded deterministic runtime: real-thread races between application calls and the connection task are not explored"]
    return r.finish(rule_text=GENERAL_RULE + "; component checks: ooq (Reasm.tla), segs (Segments.tla), utx (TxRing.tla)",
                    required_cov=["C01.SegContiguous", "C01.ReadIsPrefix", "C01.SegStable", "C01.NoGarbage"] + req_parts)

std_check("C02", [("xfer_clean", 30, 400), ("xfer", 40, 800), ("peer_recv", 24, 300), ("zwin", 16, 200)] + KF,
          ["C02.IdleWrite", "C02.IdleShutdown", "C02.NoStall", "C02.Silence", "C02.CompletesOk", "C02.ReaderWoken"],
          assumptions=["liveness of the code is observed as completion without failure in virtual time over the explored schedules",
                       "application pauses and network delays stay below the configured inactivity timeout; the SYN itself is not dropped"])
std_check("C03", [("close", 120, 2000), ("xfer", 20, 300), ("peer_recv", 32, 500), ("peer_send", 60, 600)] + KF,
          ["C03.FlushHonest", "C03.EofOnlyAfterFin", "C03.SuccessMeansDelivered", "C03.AbortSurfaces", "C03.FinInSequence",
           "C03.EofAfterAllBytes"],
          parts=[("ooq", ["C03."]), ("utx", ["C03."])], model_spec=CLOSE_MODEL)
std_check("C04", [("peer_recv", 100, 1500), ("xfer", 30, 400)] + KF,
          ["C04.AckExact", "C04.AckMonotone", "C04.SackExact", "C04.WindowHonest", "C04.WithinBuffer", "C04.ConsumeExact",
           "C04.OutOfOrderIsAhead", "C04.DuplicateIsOld", "C04.AlreadyPresentIsHeld"], model_spec=DATA_MODEL,
          parts=[("ooq", ["C04.", "Reasm."])])
std_check("C05", [("peer_send", 100, 1500), ("xfer", 30, 400)] + KF,
          ["C05.WindowRespected", "C05.ZeroWindowSilence", "C05.SlowStartBound", "C05.OneSegmentAfterRto"], model_spec=DATA_MODEL)
std_check("C06", [("peer_send", 120, 2000), ("xfer", 30, 400)] + KF,
          ["C06.SegStable", "C06.NeverRetxAcked", "C06.Cap", "C06.RetxAllowed", "C06.RtoNotEarly", "C06.Backoff",
           "C06.RtoRange", "C06.RtoFires", "C06.TimerArmed", "C06.FastRetx"], model_spec=DATA_MODEL,
          parts=[("segs", ["C06.", "Segs."]), ("recov", ["C06.", "Recov."])])
std_check("C07", [("peer_recv", 120, 2000), ("xfer_clean", 20, 200)],
          ["C07.NoSpontaneousAck", "C07.DelayedAck", "C07.ImmediateAck"])
std_check("C08", [("close", 100, 1500), ("many", 40, 600), ("flood_close", 12, 100), ("sockpeer", 20, 200)],
          ["C08.SlotFreed", "C08.EndsInTime"], model_spec=CLOSE_MODEL + SOCK_MODEL)
std_check("C12", [("many", 80, 1200), ("backlog", 6, 60), ("evict", 16, 64), ("sockpeer", 24, 300)],
          ["C12.KeyUnique", "C12.LimitRespected", "C12.TableAgrees", "C12.RouteAgrees", "C12.DeliverToNamed", "C12.NoEviction",
           "C12.DeadCleanup"],
          extra_prefixes=["C01."], model_spec=SOCK_MODEL,
          assumptions=["per-connection integrity on simultaneous connections is judged by the C01 rules on every connection (distinct streams per connection)"])
std_check("C13", [("many", 80, 1200), ("backlog", 10, 100), ("sockpeer", 24, 300)],
          ["C13.AcceptFifo", "C13.BacklogBound", "C13.RefusedOnlyWhenFull", "C13.ExcessRefused", "C13.ResetMatches",
           "C13.AcceptReturnsMatched", "C13.AcceptCallOrder", "C13.PairOnce", "C13.NotStarved"], model_spec=SOCK_MODEL)
std_check("C14", [("mtu", 60, 1000), ("xfer", 20, 200), ("hostile", 20, 200), ("probe_loss", 40, 400), ("peer_send", 40, 400)],
          ["C14.NeverAboveLink", "C14.OrdinaryWithinProven", "C14.OneProbe", "C14.Converges", "C14.LogProbes"],
          parts=[("mtu", None), ("segs", ["C14."])])
std_check("C17", [("close", 100, 1500), ("peer_send", 40, 500), ("peer_recv", 40, 500), ("hostile", 20, 300),
                  ("walk", 100, 1392)],
          # (NothingAfterFin only becomes applicable when data is transmitted after the endpoint's own FIN, which this
          #  implementation never does on its own: decided by MCClose, judged on traces whenever it applies, not required)
          ["C17.FinSeq", "C17.FinAfterData", "C17.PeerFinInOrder", "C17.FinAnswered",
           "C17.ResetAborts", "C17.SynAckForm", "C17.SynAckRepeats", "C17.Transition", "C17.HandshakeGate", "C17.FinTimerArmed"],
          model_spec=CLOSE_MODEL)
std_check("C18", [("peer_send", 120, 2000), ("xfer", 30, 300), ("close", 48, 600)],
          ["C18.NagleHold", "C18.NoHoldWhenOff", "C18.NagleDrain"],
          # "... or sent when the pipe drains": a held tail may not be forgotten when the application closes
          extra_prefixes=["C17.FinAfterData"])
std_check("C19", [("peer_send", 100, 1500), ("xfer", 30, 300)],
          ["C19.TxBounded", "C19.WriteNotStuck"], model_spec=DATA_MODEL, parts=[("utx", ["C19.", "TxRing."])])

@check("C10")
def c10(tier, seed):
    r = Result("C10", tier, seed)
    # (+ the TLC-generated walks over the connection state machine: every packet class in every state)
    scripts = fam_hostile(seed, sizes(tier, 100, 1500)) + fam_walk(seed, sizes(tier, 100, 1392))
    r.samples = [sample_of(s) for s in scripts[:2]]
    res = core.run_and_validate("C10", scripts)
    # Isolation: any broken rule on the innocent connection (the one with socket B) while A is under attack
    for v, sc in res:
        for x in v.get("viol", []):
            if not x["rule"].startswith("C10.") and "127.0.0.1:2" in x.get("ep", ""):
                x["ctx"] = x["rule"] + ("/" + x["ctx"] if x.get("ctx") else "")
                x["rule"] = "C10.Isolation"
    r.add_validated(res)
    req_parts = [x for x in component(r, "ooq", tier, seed, ["C10."]) if x.startswith("C10.")]
    r.assumptions = ["'all byte strings' is covered structurally (grammar shapes x boundary values) plus random fill, not exhaustively",
                     "memory safety is not addressed (the crate has no unsafe)"]
    return r.finish(rule_text=GENERAL_RULE + "; hostile intents from a seeded vocabulary against a socket carrying a second, legitimate connection",
                    required_cov=["C10.NoBugError", "C10.BoundedBuffers"])

def external(pid, modname):
    def f(tier, seed):
        import importlib
        m = importlib.import_module("vlib." + modname)
        return m.run(tier, seed)
    CHECKS[pid] = f

for _pid, _mod in (("C09", "c09"), ("C11", "c11"), ("C15", "c15"), ("C16", "c16")):
    if os.path.exists(os.path.join(os.path.dirname(__file__), _mod + ".py")):
        external(_pid, _mod)

def run(pid, tier, seed):
    if pid not in CHECKS:
        print(f"unknown property {pid}", file=sys.stderr)
        return 2
    core.build_harness()
    return CHECKS[pid](tier, seed)

def replay(path):
    d = json.load(open(path))
    pid = d["property"]
    mod = {"C09": "c09", "C11": "c11", "C15": "c15", "C16": "c16"}.get(pid)
    sc = d.get("script")
    if isinstance(sc, dict) and sc.get("component"):
        import importlib
        return importlib.import_module("vlib." + sc["component"]).replay(path)
    if mod and not (isinstance(sc, dict) and "steps" in sc):
        import importlib
        return importlib.import_module("vlib." + mod).replay(path)
    core.build_harness()
    res = core.run_and_validate("replay", [sc], shards=1)
    v, _ = res[0]
    hits = [x for x in v["viol"] if x["rule"].startswith(pid + ".")]
    for x in hits:
        print("violation:", json.dumps(x), core.trace_line(v["trace"], x["line"])[:300])
    print("trace:", v["trace"])
    known, _ = core.load_known()
    real = [x for x in hits if not any(k["property"] == pid and k["sig"] == core.signature(x) for k in known)]
    if real:
        print(f"VIOLATION property={pid} replay={path}")
        return 1
    return 0

def setup():
    core.build_harness()
    core.sh(["cargo", "build", "--offline", "--bins"], cwd=os.path.join(core.ROOT, "unit"), timeout=1800)
    return 0
