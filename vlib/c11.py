"""C11 Wire format: total parser, lossless round-trip, well-formed output (component level).

  1. MCWire (TLC) enumerates the structural space of datagrams (first byte = type x version, extension
     chains of 0-3 extensions over ids {1, 2, 3, 255} x lengths {0, 1, 4, 8, 9, 36}, declared lengths that
     overrun the datagram by one / by many or eat into the payload, dangling chains, payloads of 0/1/7
     bytes, every prefix of a few base datagrams, boundary field values) and of header values the public
     API can build; it checks the grammar's own theorems on each and emits every one as a CASE line with
     the answer Wire.tla demands.
  2. spec -> impl: unit_wire replays the cases on UtpHeader::{deserialize, serialize} and
     UtpMessage::deserialize; this module compares the implementation's answers with the CASE lines.
  3. impl -> spec: unit_wire records seeded random serialise / parse calls of the real code; WireTrace.tla
     (TLC) judges every line against Wire.tla.
  4. emitted_datagram_part(): hook for the "every datagram the library emits" clause, which is judged on
     the network-level traces by UtpTrace.tla (rule C11.EmitWellFormed / C11.EmitConnId).

Rules (ctx): C11.NoPanic, C11.ParseAgrees, C11.MessageAgrees, C11.UnknownSkipped, C11.SerializeAgrees
("" | "both-ext"), C11.RoundTrip ("" | "both-ext" | "sack-len")."""
import json, os, re, hashlib, shutil
from concurrent.futures import ThreadPoolExecutor
from . import core

PID = "C11"
UNIT = os.path.join(core.ROOT, "unit")
BIN = os.path.join(UNIT, "target", "debug", "unit_wire")
SCRATCH = os.path.join(core.OUT, "c11")
MAX_PER_SIG = 3          # violations kept per (rule, ctx) and direction
FIELDS = ("ty", "cid", "ts", "td", "wnd", "seq", "ack")

REQUIRED = ["C11.EmitWellFormed", "C11.EmitConnId", "C11.NoPanic", "C11.ParseAgrees", "C11.MessageAgrees", "C11.UnknownSkipped",
            "C11.SerializeAgrees", "C11.RoundTrip", "C11.RoundTrip.sack-len", "C11.RoundTrip.both-ext",
            "C11.SerializeAgrees.both-ext",
            "C11.n.accepted", "C11.n.rejected", "C11.n.message-accepted", "C11.n.serialised"]


# ------------------------------------------------------------------ hook (filled in by the integrator)
def emitted_datagram_part(r, tier, seed):
    """"Every datagram the library emits is accepted by an independent BEP-29 parser and carries protocol
    version 1 and the connection id owed to that direction."  Judged on network-level traces: every `tx` line
    carries the raw header bytes, UtpTrace.tla parses them with Wire.tla (the parser of record, not the library's
    codec) and evaluates C11.EmitWellFormed / C11.EmitConnId."""
    from . import props
    core.build_harness()
    n = 1 if tier == "quick" else 8
    scripts = (props.fam_xfer(seed, 10 * n) + props.fam_many(seed, 10 * n) + props.fam_hostile(seed, 8 * n)
               + props.fam_close(seed, 10 * n) + props.fam_backlog(seed, 8 * n) + props.fam_sockpeer(seed, 4 * n))
    r.add_validated(core.run_and_validate("C11emit", scripts), rules_prefix=["C11."])

# ------------------------------------------------------------------ plumbing
def build():
    p = core.sh(["cargo", "build", "--offline", "--bin", "unit_wire"], cwd=UNIT,
                env={"CARGO_NET_OFFLINE": "true"}, timeout=1800, check=False)
    if p.returncode != 0:
        raise core.ToolError("unit_wire build failed:\n" + p.stdout[-6000:])


def extract_cases(out, path):
    """CASE lines of the TLC output -> ND-JSON file (sorted); returns the list of cases."""
    pre, post = '<<"CASE", "', '">>'
    lines = [json.loads('"' + l[len(pre):-len(post)] + '"') for l in out.splitlines()
             if l.startswith(pre) and l.endswith(post)]
    lines.sort()     # TLC's workers print in a nondeterministic order; the case numbering must not depend on it
    with open(path, "w") as f:
        for s in lines:
            f.write(s + "\n")
    return [json.loads(s) for s in lines]


class Hang(Exception):
    """A call into the parser / serialiser did not return (the driver's watchdog names the call)."""
    def __init__(self, at):
        super().__init__(f"call {at} did not return")
        self.at = at


def _hang_of(p):
    m = re.search(r"HANG at=(\d+)", p.stdout or "")
    return int(m.group(1)) if (p.returncode == 3 and m) else None


def run_replay(cases_path, answers_path):
    p = core.sh([BIN, "replay", cases_path, answers_path], timeout=600, check=False)
    if _hang_of(p) is not None:
        raise Hang(_hang_of(p))
    if p.returncode != 0:
        raise core.ToolError(f"unit_wire replay failed ({p.returncode}):\n{p.stdout[-3000:]}")
    with open(answers_path) as f:
        return [json.loads(l) for l in f]


def run_record(seed, n, path):
    p = core.sh([BIN, "record", str(seed), str(n), path], timeout=600, check=False)
    if _hang_of(p) is not None:
        raise Hang(_hang_of(p))
    if p.returncode != 0:
        raise core.ToolError(f"unit_wire record failed ({p.returncode}):\n{p.stdout[-3000:]}")


# ------------------------------------------------------------------ judging one replayed case
def _hdr_agrees(x, e):
    """x: header answered by the implementation; e: the expectation of the CASE line (from Wire.tla)."""
    if any(x[k] != e["f"][k] for k in FIELDS):
        return False
    if not e["sacks"]:
        if x["hs"]:
            return False
    elif not (x["hs"] and x["sack"] in e["sacks"]):
        return False
    if e["cr3"] == 0:
        if x["hc"]:
            return False
    elif e["crs"] and not (x["hc"] and x["cr"] in e["crv"]):
        return False
    return True


def _same_header(x, y):
    return all(x[k] == y[k] for k in FIELDS + ("hs", "sack", "hc", "cr"))


def _ext_ctx(h):
    return "both-ext" if h["hs"] and h["hc"] else ""


def judge(case, ans):
    """-> list of (rule, ctx, applicable, holds) for one case and the implementation's answer."""
    out = []
    if case["k"] == "P":
        b, e = case["b"], case["e"]
        both = ans["hok"] and e["hok"]
        rs = ans.get("rs")
        out.append(("C11.NoPanic", "", True, not ans["hp"] and not ans["mp"] and not (rs and rs["p"])))
        out.append(("C11.ParseAgrees", "", True,
                    ans["hok"] == e["hok"] and (not both or (_hdr_agrees(ans["h"], e) and ans["h"]["hlen"] == e["hlen"]))))
        mboth = ans["mok"] and e["mok"]
        out.append(("C11.MessageAgrees", "", True,
                    ans["mok"] == e["mok"] and (not mboth or (_hdr_agrees(ans["m"], e) and ans["m"]["pl"] == b[e["hlen"]:]))))
        if e["hok"] and e["unk"] > 0:
            ok = ans["hok"] and ans["h"]["hlen"] == e["hlen"] and _hdr_agrees(ans["h"], e)
            if e["mok"]:
                ok = ok and ans["mok"] and ans["m"]["pl"] == b[e["hlen"]:]
            out.append(("C11.UnknownSkipped", "", True, bool(ok)))
        if ans["hok"]:
            # the parsed header, serialised by the real code and parsed again
            h = ans["h"]
            ok = rs["sok"] and rs["ok2"] and rs["h2"]["hlen"] == len(rs["b"]) and _same_header(rs["h2"], h) \
                and (rs["eq"] or h["sl"] != rs["h2"]["sl"])
            out.append(("C11.RoundTrip", _ext_ctx(h), True, bool(ok)))
            if rs["sok"] and rs["ok2"] and h["hs"] and rs["h2"]["hs"]:
                out.append(("C11.RoundTrip", "sack-len", True, h["sl"] == rs["h2"]["sl"]))
        out.append(("C11.n.accepted", "", e["hok"], True))
        out.append(("C11.n.rejected", "", not e["hok"], True))
        out.append(("C11.n.message-accepted", "", e["mok"], True))
    else:
        a = case["a"]
        ctx = _ext_ctx(a)
        out.append(("C11.NoPanic", "", True, not ans["p"]))
        out.append(("C11.SerializeAgrees", ctx, True, bool(ans["sok"] and ans["b"] in case["bs"])))
        ok = ans["sok"] and ans["ok2"] and ans["h2"]["hlen"] == len(ans["b"]) and _same_header(ans["h2"], a) \
            and (ans["eq"] or a["sl"] != ans["h2"]["sl"])
        out.append(("C11.RoundTrip", ctx, True, bool(ok)))
        if ans["sok"] and ans["ok2"] and a["hs"] and ans["h2"]["hs"]:
            out.append(("C11.RoundTrip", "sack-len", True, a["sl"] == ans["h2"]["sl"]))
        out.append(("C11.n.serialised", "", True, True))
    return out


def cov_key(rule, ctx):
    return rule if not ctx else rule + "." + ctx


def nontrivial(case):
    """A case is trivial when it is rejected for being shorter than a header."""
    return case["k"] == "S" or case["e"]["hok"] or case["e"].get("why") != "short"


def case_key(case):
    return json.dumps(case["b"] if case["k"] == "P" else case["a"], sort_keys=True)


# ------------------------------------------------------------------ the check
def run(tier, seed):
    r = core.Result(PID, tier, seed)
    r.trusted = ["TLC 1.8.0 (MCWire, WireTrace)", "spec/Wire.tla as the BEP-29 grammar of record",
                 "unit/src/bin/unit_wire.rs (driver: JSON projection of UtpHeader)", "vlib/c11.py judge()"]
    d = os.path.join(SCRATCH, f"{tier}_{seed}")
    shutil.rmtree(d, ignore_errors=True)
    os.makedirs(d, exist_ok=True)
    build()

    # 1. the bounded model: theorems of the grammar + case generation
    res = core.tlc_model("MCWire", tag=f"c11_mc_{tier}_{seed}", timeout=120 if tier == "quick" else 600,
                         env_extra={"C11_TIER": tier, "C11_SEED": str(seed)})
    r.add_model(res)
    if res.get("never"):
        raise core.ToolError(f"MCWire: actions never taken: {res['never']}")
    cases_path = os.path.join(d, "cases.ndjson")
    cases = extract_cases(res["out"], cases_path)
    res["out"] = ""
    if len(cases) < 1000:
        raise core.ToolError(f"MCWire emitted only {len(cases)} cases")

    # 2. spec -> impl
    try:
        answers = run_replay(cases_path, os.path.join(d, "answers.ndjson"))
    except Hang as h:
        # C11 "accepts exactly the byte strings that are well-formed": the parser must give an answer at all
        c = cases[h.at - 1]
        r.cov["C11.Terminates"] = h.at
        r.violations.append(({"line": h.at, "rule": "C11.Terminates", "ctx": "replay", "ep": ""},
                             {"kind": "case", "case": c, "answer": {"hang": True}}, cases_path))
        r.scripts += h.at
        return r.finish(rule_text="the call did not return", required_cov=[])
    if len(answers) != len(cases):
        raise core.ToolError(f"replay answered {len(answers)} of {len(cases)} cases")
    kept, totals = {}, {}
    for i, (c, a) in enumerate(zip(cases, answers), 1):
        if a["i"] != i or a["k"] != c["k"]:
            raise core.ToolError(f"replay answer {i} does not match its case")
        for rule, ctx, applicable, holds in judge(c, a):
            if not applicable:
                continue
            k = cov_key(rule, ctx)
            r.cov[k] = r.cov.get(k, 0) + 1
            if not holds:
                totals[(rule, ctx)] = totals.get((rule, ctx), 0) + 1
                if kept.setdefault((rule, ctx), 0) < MAX_PER_SIG:
                    kept[(rule, ctx)] += 1
                    r.violations.append(({"line": i, "rule": rule, "ctx": ctx, "ep": ""},
                                         {"kind": "case", "case": c, "answer": a}, cases_path))
        if nontrivial(c):
            r.distinct.add(hashlib.md5(case_key(c).encode()).hexdigest())
    r.scripts += len(cases)
    for want in (lambda c: c["k"] == "P" and c["e"]["hok"] and c["e"]["unk"] > 0 and c["e"]["mok"],
                 lambda c: c["k"] == "P" and not c["e"]["hok"] and c["e"]["why"] == "ext",
                 lambda c: c["k"] == "S" and c["a"]["hs"] and not c["a"]["hc"]):
        s = next((c for c in cases if want(c)), None)
        if s:
            r.samples.append(s)
    r.notes["replay_cases"] = {"total": len(cases), "parse": sum(1 for c in cases if c["k"] == "P"),
                               "serialise": sum(1 for c in cases if c["k"] == "S"),
                               "broken": {cov_key(*k): v for k, v in sorted(totals.items())}}

    # 3. impl -> spec
    shards = [(seed * 1000 + 1, 8000)] if tier == "quick" else [(seed * 1000 + k, 25000) for k in range(1, 5)]

    def one(sh):
        s, n = sh
        tp = os.path.join(d, f"rec_{s}.ndjson")
        try:
            run_record(s, n, tp)
        except Hang as h:
            return {"hang": h.at, "trace": tp}, sh
        v = core.tlc_trace(tp, spec="WireTrace", tag=f"c11_tr_{tier}_{s}", timeout=600)
        return v, sh

    with ThreadPoolExecutor(max_workers=len(shards)) as ex:
        verdicts = list(ex.map(one, shards))
    tkept = {}
    for v, (s, n) in verdicts:
        if "hang" in v:
            r.violations.append(({"line": v["hang"], "rule": "C11.Terminates", "ctx": "record", "ep": ""},
                                 {"kind": "record", "seed": s, "n": n, "line": v["hang"]}, v["trace"]))
            continue
        if v["lines"] != n:
            raise core.ToolError(f"trace {v['trace']}: {v['lines']} lines validated, {n} recorded")
        r.traces += 1
        r.trace_lines += v["lines"]
        r.scripts += v["lines"]
        for k, cnt in v.get("cov", {}).items():
            r.cov[k] = r.cov.get(k, 0) + cnt
        for x in sorted(v.get("viol", []), key=lambda x: x["line"]):
            sig = (x["rule"], x["ctx"])
            if tkept.setdefault(sig, 0) < MAX_PER_SIG:
                tkept[sig] += 1
                r.violations.append((x, {"kind": "record", "seed": s, "n": n, "line": x["line"]}, v["trace"]))
        with open(v["trace"]) as f:
            for l in f:
                r.distinct.add(hashlib.md5(l.encode()).hexdigest())
    r.notes["record_traces"] = [{"seed": s, "lines": n, "wall_s": round(v["wall_s"], 1)} for v, (s, n) in verdicts]

    # 4. the clause about emitted datagrams (network level)
    emitted_datagram_part(r, tier, seed)

    r.exhaustive = ("the enumerated structural space (see rule) is covered exhaustively by TLC; "
                    "byte strings outside it are sampled (seeded) in record mode")
    return r.finish(
        rule_text=("cases = states of MCWire (one per distinct byte string / header value: 256 first bytes x 5 shapes; "
                   "chains of 0-3 extensions over ids {1,2,3,255} x lengths {0,1,4,8,9,36} x payload {0,1,7} x {DATA, STATE}, "
                   "with the last declared length overrunning by 1 / by many / eating 1 / all of the payload, dangling chains, "
                   "every prefix of 8 base datagrams, boundary field values; header values = 5 types x boundary fields x "
                   "{none, SACK patterns, close reasons, both}) + recorded random calls; a case is distinct by its bytes / "
                   "header value / recorded line and non-trivial unless it is rejected for being shorter than 20 bytes"),
        required_cov=REQUIRED)


# ------------------------------------------------------------------ replay of a recorded violation
def replay(path):
    with open(path) as f:
        v = json.load(f)
    sc, want = v["script"], v["violation"]
    build()
    d = os.path.join(SCRATCH, "replay")
    shutil.rmtree(d, ignore_errors=True)
    os.makedirs(d, exist_ok=True)
    if sc["kind"] == "case":
        cp = os.path.join(d, "case.ndjson")
        with open(cp, "w") as f:
            f.write(json.dumps(sc["case"]) + "\n")
        try:
            a = run_replay(cp, os.path.join(d, "answer.ndjson"))[0]
            broken = [(rule, ctx) for rule, ctx, app, holds in judge(sc["case"], a) if app and not holds]
        except Hang:
            a, broken = {"hang": True}, [("C11.Terminates", "replay")]
        print("case:", json.dumps(sc["case"])[:2000])
        print("answer:", json.dumps(a)[:2000])
    else:
        tp = os.path.join(d, "rec.ndjson")
        try:
            run_record(sc["seed"], sc["n"], tp)
            vd = core.tlc_trace(tp, spec="WireTrace", tag="c11_replay", timeout=600)
            broken = [(x["rule"], x["ctx"]) for x in vd["viol"] if x["line"] == sc["line"]]
            print("line:", core.trace_line(tp, sc["line"])[:2000])
        except Hang as h:
            broken = [("C11.Terminates", "record")] if h.at == sc["line"] else []
    print("broken rules:", broken)
    if (want["rule"], want.get("ctx", "")) in broken:
        print(f"VIOLATION property={PID} replay={path}")
        return 1
    return 0
