"""Pretty-print a window of a trace: python3 -m vlib.show <trace> <line> [before] [after]"""
import json, sys
def show(r):
    e=r['ev']
    if e=='tx':
        h=r['hdr']
        if len(h)<20: return f"tx   {r['from'][-1]}>{r['to'][-1]} short {h}"
        sack = h[22:] if h[1]==1 and len(h)>22 else ''
        return f"tx   {r['from'][-1]}>{r['to'][-1]} t{h[0]>>4} seq {h[16]*256+h[17]} ack {h[18]*256+h[19]} wnd {(h[12]<<24)+(h[13]<<16)+(h[14]<<8)+h[15]} plen {r['plen']} runs {r['runs']} {r['fate']} id {r.get('id')} {('sack '+str(sack)) if sack else ''}"
    if e=='xmit': return f"xmit {r['sock'][-1]} {r['tag']} seq {r['seq']} len {r['len']} cnt {r['count']} probe {r['probe']} pwnd {r['pwnd']} cwnd {r['cwnd']} rto {r['rto']} rec {r['recovering']} rtoretx {r['rto_retx']}"
    if e=='recv': return f"recv {r['sock'][-1]} t{r['t']} seq {r['seq']} ack {r['ack']} wnd {r['wnd']} sack {r['sack'] if r['has_sack'] else '-'} plen {r['plen']} state {r['state']}"
    if e=='disp': return f"disp {r['sock'][-1]} {r['what']} seq {r['seq']} n {r['n']} bytes {r['bytes']}"
    if e=='tick': return f"--- {r['now']}"
    if e in('ret','call','pend','done'): return f"{e}  {r['ep']} {r['op']} {r.get('res','')} n={r.get('n','')} pos={r.get('pos','')} {r.get('err','')}"
    if e in('dying','end'): return f"{e} {r['sock'][-1]} {r['result']}"
    if e=='poll': return f"poll {r['sock'][-1]} {r['state']} ring {r['ring_len']}/{r['ring_cap']} segd {r['segmented']} flight {r['flight']} rxu {r['rx_user']} rxp {r['rx_parked']} t_rtx {r['t_rtx']} t_ack {r['t_ack']} t_inact {r['t_inact']} pwnd {r['pwnd']} lastwnd {r['last_wnd']} mss {r['mss']} rto {r['rto']}"
    if e=='deliver': return f"dlvr id {r['id']}"
    if e=='route': return None
    if e=='seg': return f"seg  {r['sock'][-1]} len {r['len']} probe {r['probe']} pwnd {r['pwnd']} segd {r['segmented']} unseg {r['unsegmented']} ss {r['ss']} mss {r['mss']}"
    if e=='probe_pop': return f"POP  {r['sock'][-1]} {r['why']} seq {r['seq']} len {r['len']}"
    if e=='tab': return f"tab  {r['local'][-1]} {r['what']} cid {r['cid']} streams {r['streams']} connecting {r['connecting']} syns {r['syns']}"
    return e+' '+json.dumps(r)[:200]
def main():
    tp=sys.argv[1]; ln=int(sys.argv[2]); b=int(sys.argv[3]) if len(sys.argv)>3 else 40; a=int(sys.argv[4]) if len(sys.argv)>4 else 3
    with open(tp) as f:
        for i,l in enumerate(f,1):
            if i<ln-b: continue
            if i>ln+a: break
            s=show(json.loads(l))
            if s: print(('>>' if i==ln else '  ')+str(i), s)
if __name__=='__main__': main()
