"""Component-level model-based check of the sender's segment queue `Segments` (src/stream_tx_segments.rs).
It serves three properties; the rule names carry the property they serve:
  C01 "nothing is lost, duplicated, reordered or altered"        C01.SegTiling  C01.PopRestores
  C06 "A segment the peer has acknowledged ... is never retransmitted, and every transmission of a sequence
       number carries the same bytes"                             C06.NoDeliveredYielded  C06.SeqIsQueuePosition
       C06.SegStableInQueue  C06.DeliveredProbeNeverPopped  C06.UnsentProbeNotExpired  C06.AckRemovesExactly
       C06.SackBitMapping
  C14 "at most one oversized probe is outstanding and it is the newest segment"      C14.ProbeIsNewest
  plus Segs.ObsAgrees (every observable / return value equals the specification's) and Segs.NoPanic.

  1. TLC on MCSegments (spec/Segments.tla): every call sequence to 6 (quick) / 8 (thorough) effective calls
     over small value sets under the dispatcher's discipline, from snd_una = 3 and 65534; invariants Tiling,
     FrontUndelivered, ProbeIsNewest, IterSound; every clause asserted on the specification's own answer to
     every call (Consistent).  TLC prints the transition graph and Obs of every state.
  2. spec -> impl: every transition becomes the case  canonical-history(from) ++ <<op>>  with the expected
     return value and Obs(to); unit_segs replays each on a fresh real `Segments`; the answers must be EQUAL.
     Cases that differ are re-run as scripts and judged by SegmentsTrace, which names the broken clauses.
  3. impl -> spec: unit_segs records long seeded random call sequences on the real `Segments` (3 in 4 keep the
     dispatcher's discipline); SegmentsTrace steps Segments.tla alongside and evaluates every rule on the
     recorded values.

`part(r, tier, seed, prefixes)` runs all of this and ADDS to an existing core.Result (models, cases, traces,
coverage, and the violations of the rules whose name starts with one of `prefixes`); `run` is the standalone
check (property id SEGS, all rules)."""
import hashlib, io, json, os, shutil, time
from concurrent.futures import ThreadPoolExecutor
from . import core
from .core import log

PID = "SEGS"
SCRATCH = os.path.join(core.OUT, "segs")
# the driver crate; VERIF_UNIT_DIR points the check at a scratch copy (mutation testing only)
UNIT = os.environ.get("VERIF_UNIT_DIR") or os.path.join(core.ROOT, "unit")
BIN = os.path.join(UNIT, "target", "debug", "unit_segs")

RULES = ["C01.SegTiling", "C01.PopRestores",
         "C06.NoDeliveredYielded", "C06.SeqIsQueuePosition", "C06.SegStableInQueue", "C06.DeliveredProbeNeverPopped",
         "C06.UnsentProbeNotExpired", "C06.AckRemovesExactly", "C06.SackBitMapping",
         "C14.ProbeIsNewest", "Segs.ObsAgrees", "Segs.NoPanic"]
# branches of the rules that a run must have exercised to count (vacuity guard)
MARKERS = ["C01.PopRestores.popped", "C01.PopRestores.requeued", "C06.NoDeliveredYielded.some",
           "C06.SeqIsQueuePosition.gap", "C06.AckRemovesExactly.cleanup", "C06.SackBitMapping.marked",
           "C06.SackBitMapping.old", "C06.SackBitMapping.far", "C06.DeliveredProbeNeverPopped.expired",
           "C06.UnsentProbeNotExpired.due", "C14.ProbeIsNewest.probe"]
ALL_PREFIXES = ["C01.", "C06.", "C14.", "Segs."]
OPNAME = {"n": "new", "e": "enqueue", "s": "send", "a": "ack", "p": "pop_mtu_probe", "x": "pop_expired_mtu_probe",
          "c": "calc_pipe"}


def required(prefixes, r=None):
    """The rules / markers a caller that asked for `prefixes` should require to have been exercised (pass them to
    Result.finish as required_cov).  With `r`: nothing once r holds violations - a build that panics in the first
    calls exercises little, and that must come out as a violation, not as a vacuous run."""
    if r is not None and r.violations:
        return []
    return [x for x in RULES + MARKERS if any(x.startswith(p) for p in prefixes)]


def _dumps(v):
    return json.dumps(v, separators=(",", ":"))


def build():
    p = core.sh(["cargo", "build", "--offline", "--bin", "unit_segs"], cwd=UNIT, timeout=1800, check=False)
    if p.returncode != 0:
        raise core.ToolError("unit_segs build failed:\n" + p.stdout[-4000:])


def _bin(args, timeout=900):
    p = core.sh([BIN] + [str(a) for a in args], timeout=timeout, check=False)
    if p.returncode != 0:
        raise core.ToolError(f"unit_segs {args[0]} failed ({p.returncode}):\n{p.stdout[-2000:]}")
    return p.stdout


# ------------------------------------------------------------------------------------------ model -> cases
def graph_of(out):
    """(keys, obs, edges) from the TLC output.  keys: the state keys (tuples, depth first) in sorted order - the
    index in it is the state's number; obs[n] = compact JSON of "Obs(state n),NextEnq(state n)"; edges = sorted
    [(from, op json, ret json, to)] by state number: sorted order is breadth first and does not depend on the
    number of TLC workers."""
    obs_of, raw = {}, []
    for line in io.StringIO(out):
        if line.startswith('"T '):
            frm, op, ret, to = json.loads(line[3:line.rindex('"')].replace('\\"', '"'))
            raw.append((tuple(frm), _dumps(op), _dumps(ret), tuple(to)))
        elif line.startswith('"S '):
            key, o, nxt = json.loads(line[3:line.rindex('"')].replace('\\"', '"'))
            obs_of[tuple(key)] = _dumps(o) + "," + _dumps(nxt)
    keys = sorted(obs_of)
    num = {k: n for n, k in enumerate(keys)}
    obs = [obs_of[k] for k in keys]
    del obs_of
    try:
        edges = [(num[f], op, ret, num[t]) for f, op, ret, t in raw]
    except KeyError as e:
        raise core.ToolError(f"transition from / into a state TLC did not print: {e}")
    del raw
    edges.sort()
    return keys, obs, edges


def cases_of(keys, edges):
    """One case per transition: the canonical history of the source state (its first incoming transition in sorted
    breadth-first order) followed by the call.  cases[i] = (parent case index or -1, op json); answer[i] =
    (ret json, state number) the specification expects after it."""
    cases, answer, canon = [], [], {}
    for n, k in enumerate(keys):
        if k[0] != 0:
            break
        canon[n] = len(cases)
        cases.append((-1, _dumps(["n", k[1]])))
        answer.append(("[]", n))
    for frm, op, ret, to in edges:
        p = canon.get(frm)
        if p is None:
            raise core.ToolError(f"transition from a state TLC never reached: {keys[frm]}")
        if to != frm:
            canon.setdefault(to, len(cases))
        cases.append((p, op))
        answer.append((ret, to))
    return cases, answer


def chain_of(cases, i):
    ops = []
    while i >= 0:
        p, op = cases[i]
        ops.append(json.loads(op))
        i = p
    ops.reverse()
    return ops


def script_of_chain(ops, disc=1):
    assert ops[0][0] == "n"
    return {"kind": "segs", "una": ops[0][1], "disc": disc, "ops": ops[1:]}


def pretty(script):
    """Readable call sequence (for the evidence / the report)."""
    out = [f"Segments::new({script['una']})"]
    for op in script["ops"]:
        k = op[0]
        if k == "e":
            out.append(f"enqueue({op[1]}, probe={bool(op[2])})")
        elif k == "s":
            pos = [i for i in range(31) if op[2] >> i & 1]
            out.append(f"iter_mut_for_sending({'None' if op[1] < 0 else op[1]}): on_sent on yielded #{pos}")
        elif k == "a":
            bits = [8 * j + i for j, b in enumerate(op[3]) for i in range(8) if b >> i & 1]
            out.append(f"remove_up_to_ack(ack_nr={op[1]}, sack={'None' if not op[2] else f'{len(op[3])} bytes, bits {bits}'})")
        elif k == "p":
            out.append(f"pop_mtu_probe({op[1]})")
        elif k == "x":
            out.append(f"pop_expired_mtu_probe(timed_out={bool(op[1])}, max_retx={op[2]})")
        elif k == "c":
            out.append(f"calc_pipe(high_rxt={op[1]}, high_data={op[2]}, rtt={op[3]}ms)")
    return out


# ------------------------------------------------------------------------------------------ traces
def run_scripts(scripts, tag):
    """Execute scripts (script mode) and let SegmentsTrace judge them.  Returns (verdict, first line of every script)."""
    os.makedirs(SCRATCH, exist_ok=True)
    sp = os.path.join(SCRATCH, f"{tag}.scripts.ndjson")
    tp = os.path.join(SCRATCH, f"{tag}.trace.ndjson")
    with open(sp, "w") as f:
        for s in scripts:
            f.write(_dumps({"una": s["una"], "disc": s.get("disc", 1), "ops": s["ops"]}) + "\n")
    _bin(["script", sp, tp])
    starts = []
    with open(tp) as f:
        for i, l in enumerate(f, 1):
            if '"op":["n",' in l:
                starts.append(i)
    v = core.tlc_trace(tp, spec="SegmentsTrace", tag=f"segs_{tag}", timeout=600)
    return v, starts


def script_of_line(trace_path, line):
    """The run (as a script) that contains the 1-based line of a recorded trace, cut after that line."""
    una, disc, ops = 0, 1, []
    with open(trace_path) as f:
        for i, l in enumerate(f, 1):
            d = json.loads(l)
            if d["op"][0] == "n":
                una, disc, ops = d["op"][1], d.get("disc", 1), []
            else:
                ops.append(d["op"])
            if i >= line:
                break
    return {"kind": "segs", "una": una, "disc": disc, "ops": ops}


def _viols(v, script_for, out, seen, limit=40):
    """The violations of verdict v, one per rule@context: [violation, script, trace path]."""
    for x in sorted(v.get("viol", []), key=lambda x: (x["line"], x["rule"])):
        sig = core.signature(x)
        if sig in seen or len(seen) >= limit:
            continue
        seen.add(sig)
        out.append([{"line": x["line"], "rule": x["rule"], "ctx": x.get("ctx", ""), "ep": ""}, script_for(x["line"]), v["trace"]])


def _merge_cov(cov, v):
    for k, c in v.get("cov", {}).items():
        cov[k] = cov.get(k, 0) + c


# ------------------------------------------------------------------------------------------ the check
def _compute(tier, seed):
    """The whole component check.  Returns a JSON-serialisable summary (models, numbers, coverage, ALL violations
    with their scripts and traces) that `part` adds to a core.Result."""
    thorough = tier == "thorough"
    t_start = time.time()
    run_dir = os.path.join(SCRATCH, f"run_{tier}_{seed}")
    shutil.rmtree(run_dir, ignore_errors=True)
    os.makedirs(run_dir, exist_ok=True)
    seen, viols, cov = set(), [], {}
    traces = trace_lines = 0

    # ---- impl -> spec (in the background): recorded call sequences judged by SegmentsTrace
    nrec, per = (8, 30000) if thorough else (3, 5000)

    def rec(i):
        tp = os.path.join(run_dir, f"rec{i}.ndjson")
        _bin(["record", seed * 1000 + i, per, tp])
        return core.tlc_trace(tp, spec="SegmentsTrace", tag=f"segs_rec_{tier}_{seed}_{i}", timeout=1500, xmx="4g")
    pool = ThreadPoolExecutor(max_workers=4)
    rec_futs = [pool.submit(rec, i) for i in range(nrec)]

    # ---- 1. the bounded model
    workers = min(core.NCPU, 12) if thorough else max(2, min(core.NCPU, 12) - 2)
    res = core.tlc_model("MCSegments", tag=f"mc_MCSegments_{tier}_{seed}", timeout=2400 if thorough else 300,
                         workers=workers, env_extra={"SEGS_TIER": tier}, xmx="24g" if thorough else "8g")
    t0 = time.time()
    keys, obs, edges = graph_of(res["out"])
    res["out"] = ""
    nroots = sum(1 for k in keys if k[0] == 0)
    if res.get("transitions") is not None and len(edges) + nroots != res["transitions"]:
        raise core.ToolError(f"MCSegments printed {len(edges)} transitions but generated {res['transitions']}")
    if res.get("states") is not None and len(obs) != res["states"]:
        raise core.ToolError(f"MCSegments printed {len(obs)} states but found {res['states']}")
    by_op = {}
    for _f, op, _r, _t in edges:
        by_op[op[2]] = by_op.get(op[2], 0) + 1
    by_op = {OPNAME[k]: c for k, c in sorted(by_op.items())}
    never = [o for o in ("enqueue", "send", "ack", "pop_mtu_probe", "pop_expired_mtu_probe") if not by_op.get(o)]
    if never:
        raise core.ToolError(f"MCSegments never took: {never}")
    cases, answer = cases_of(keys, edges)
    log(f"[SEGS] MCSegments: {res.get('states')} states, {len(edges)} transitions in {res['wall_s']:.1f}s; "
        f"{len(cases)} cases built in {time.time()-t0:.1f}s")

    # ---- 2. spec -> impl: exact-equality replay (every case from scratch on a fresh object; the shards share the
    # case file and answer the cases k, k + n, k + 2n, ...)
    cp = os.path.join(run_dir, "cases.ndjson")
    with open(cp, "w") as f:
        for p, op in cases:
            f.write(f"[{p},{op}]\n")
    t0 = time.time()
    nsh = 8 if thorough else 4
    with ThreadPoolExecutor(max_workers=nsh) as ex:
        list(ex.map(lambda k: _bin(["replay", cp, os.path.join(run_dir, f"answers{k}.ndjson"), k, nsh], timeout=3000), range(nsh)))
    differing = []
    n_ans = 0
    for k in range(nsh):
        with open(os.path.join(run_dir, f"answers{k}.ndjson")) as f:
            for j, a in enumerate(f):
                i = k + j * nsh
                n_ans += 1
                ret, to = answer[i]
                if a.rstrip("\n") != "[" + ret + "," + obs[to] + "]":
                    differing.append(i)
    differing.sort()
    if n_ans != len(cases):
        raise core.ToolError(f"replay answered {n_ans} of {len(cases)} cases")
    log(f"[SEGS] replayed {len(cases)} cases in {time.time()-t0:.1f}s: {len(differing)} differ")
    # every case is a distinct (history, call); non-trivial: the queue is not empty before or after the call
    nontrivial = sum(1 for (p, op), (frm, _o, _r, _t) in zip(cases[nroots:], edges)
                     if len(keys[frm]) > 3 or op.startswith('["e"'))
    cov["Segs.ObsAgrees"] = len(cases)

    # cases whose answer differs: SegmentsTrace names the broken clauses (the shortest ones of every kind of call;
    # one more enqueue is appended, as the replay does, so that a wrong hidden offset shows - unless that would
    # break the dispatcher's discipline)
    judged = 0
    if differing:
        by_kind = {}
        for i in differing:
            by_kind.setdefault(cases[i][1][2], []).append(i)
        picked = []
        for k in sorted(by_kind):
            picked += sorted(by_kind[k], key=lambda i: (len(chain_of(cases, i)), i))[:6]
        def may_enqueue(i):      # the expected state after case i has no outstanding probe at its end (Key codes)
            k = keys[answer[i][1]]
            return len(k) == 3 or not (k[-1] >> 2 & 1 and not k[-1] >> 3 & 1)
        scripts = [script_of_chain(chain_of(cases, i) + ([["e", 1, 0]] if may_enqueue(i) else [])) for i in picked]
        v, starts = run_scripts(scripts, f"diff_{tier}_{seed}")
        judged = len(scripts)
        traces += len(scripts)
        trace_lines += v.get("lines", 0)
        _merge_cov(cov, v)

        def script_for(line, starts=starts, scripts=scripts):
            j = max(k for k, s in enumerate(starts) if s <= line)
            s = dict(scripts[j])
            s["ops"] = s["ops"][:line - starts[j]]
            return s
        before = len(viols)
        _viols(v, script_for, viols, seen)
        if not v.get("viol"):    # answers differ but no clause fired: still a disagreement
            viols.append([{"line": starts[0] + len(scripts[0]["ops"]), "rule": "Segs.ObsAgrees", "ctx": "replay", "ep": ""},
                          scripts[0], v["trace"]])
        log(f"[SEGS] {len(differing)} cases differ; {judged} judged, {len(viols) - before} broken rule@context")

    # ---- 3. impl -> spec verdicts
    rec_lines = rec_runs = 0
    for v in [f.result() for f in rec_futs]:
        traces += v.get("runs", 0)
        trace_lines += v.get("lines", 0)
        rec_lines += v.get("lines", 0)
        rec_runs += v.get("runs", 0)
        _merge_cov(cov, v)
        _viols(v, lambda line, tp=v["trace"]: script_of_line(tp, line), viols, seen)
    pool.shutdown()

    # samples: two cases and the head of a recorded run
    samples = []
    dset = set(differing[:100000])
    for i in [j for j in (len(cases) // 2, len(cases) - 1) if 0 <= j < len(cases)][:2]:
        sc = script_of_chain(chain_of(cases, i))
        samples.append({"case": pretty(sc), "expected_ret_obs_nextenq": json.loads("[" + answer[i][0] + "," + obs[answer[i][1]] + "]"),
                        "impl_equal": i not in dset})
    try:
        with open(os.path.join(run_dir, "rec0.ndjson")) as f:
            samples.append({"recorded": [json.loads(next(f)) for _ in range(4)]})
    except (OSError, StopIteration):
        pass
    info = {"states": res.get("states"), "transitions": len(edges), "cases": len(cases), "cases_nontrivial": nontrivial,
            "cases_differing": len(differing), "differing_judged": judged, "mc_calls_by_op": by_op,
            "recorded_lines": rec_lines, "recorded_runs": rec_runs, "wall_s": round(time.time() - t_start, 1),
            "exhaustive": f"all call sequences to {8 if thorough else 6} effective calls over the value sets of "
                          "MCSegments.tla (folded by abstract state and depth), snd_una in {3, 65534}"}
    return {"model": {k: res.get(k) for k in ("spec", "cfg", "states", "transitions", "depth", "wall_s", "never", "timeout")},
            "cases": len(cases), "nontrivial": nontrivial, "rec_runs": rec_runs, "traces": traces,
            "trace_lines": trace_lines, "cov": cov, "violations": viols, "samples": samples, "info": info}


def _cache_key(tier, seed):
    """Everything the result depends on: the driver binary as built from the current tree (it contains the code
    under test), the specifications, this module, tier and seed."""
    h = hashlib.sha256()
    files = [BIN, os.path.abspath(__file__)] + [os.path.join(core.SPEC, f) for f in (
        "Segments.tla", "MCSegments.tla", "MCSegments.cfg", "SegmentsTrace.tla", "SegmentsTrace.cfg", "SeqArith.tla")]
    for p in files:
        with open(p, "rb") as f:
            h.update(hashlib.sha256(f.read()).digest())
    h.update(f"{tier}/{seed}".encode())
    return h.hexdigest()


def part(r, tier, seed, prefixes, cache=True):
    """Run the whole component check and ADD its results to the core.Result `r`: the model, the cases (r.scripts /
    r.distinct), traces, rule coverage, and the violations of the rules whose name starts with one of `prefixes`
    (e.g. ["C06."]; "Segs." = agreement with the specification / panics).  Returns a dict of numbers (also put
    into r.notes["segments_queue"]).
    The component check does not depend on the property that asks for it, so its summary is kept in
    out/segs/cache_<tier>_<seed>.json and re-used as long as the freshly built driver binary (hence the code under
    test), the specifications and this module are bit-identical (cache=False or SEGS_CACHE=0: always recompute)."""
    build()
    os.makedirs(SCRATCH, exist_ok=True)
    cpath = os.path.join(SCRATCH, f"cache_{tier}_{seed}.json")
    key = _cache_key(tier, seed)
    d = None
    if cache and os.environ.get("SEGS_CACHE", "1") != "0" and os.path.exists(cpath):
        try:
            c = json.load(open(cpath))
            if c.get("key") == key and all(os.path.exists(t) for _x, _s, t in c["summary"]["violations"]):
                d = c["summary"]
                log(f"[SEGS] same driver binary, specifications and seed as the run of {c.get('when')}: summary re-used")
        except (OSError, ValueError, KeyError):
            d = None
    if d is None:
        d = _compute(tier, seed)
        tmp = cpath + f".{os.getpid()}.tmp"
        with open(tmp, "w") as f:
            json.dump({"key": key, "when": time.strftime("%Y-%m-%d %H:%M:%S"), "summary": d}, f)
        os.replace(tmp, cpath)
    r.add_model(d["model"])
    r.scripts += d["cases"] + d["rec_runs"]
    r.distinct.update(("segs-case", j) for j in range(d["nontrivial"]))      # measured: every case is distinct
    r.distinct.update(("segs-rec", seed, j) for j in range(d["rec_runs"]))
    r.traces += d["traces"]
    r.trace_lines += d["trace_lines"]
    for k, c in d["cov"].items():
        r.cov[k] = r.cov.get(k, 0) + c
    n = 0
    for x, sc, tp in d["violations"]:
        if any(x["rule"].startswith(p) for p in prefixes) and n < 12:
            r.violations.append((x, sc, tp))
            n += 1
    r.samples.extend(d["samples"])
    r.notes["segments_queue"] = d["info"]
    return d["info"]


RULE_TEXT = ("case = canonical call history (breadth-first, sorted) of a reachable state of MCSegments + one call "
             "(enqueue len 1..3 / probe, send from 4 starts x each yielded item or all, ack_nr una-4..una+n+1 x no SACK / "
             "1-byte SACK patterns / 8-byte SACK with bit 63, pop_mtu_probe last-1..last+1, pop_expired 2 x 3), answer "
             "compared for equality with the specification's return value, Obs and NextEnq; distinct = distinct "
             "(history, call) with a non-empty queue before or after the call + seeded random recorded runs (20..300 "
             "calls each)")


def run(tier, seed):
    r = core.Result(PID, tier, seed)
    r.trusted = ["TLC", "unit/src/bin/unit_segs.rs (calls the queue, prints what its public API shows)",
                 "guarded re-exports librqbit_utp::verif_api"]
    r.assumptions = [
        "the environment of C14.ProbeIsNewest is the dispatcher's discipline: nothing is enqueued behind a probe that "
        "is still outstanding (split_tx_queue_into_segments returns on PopExpiredProbe::NotExpired)",
        "calc_pipe is called with high_data <= snd_una + packets only (the dispatcher passes last_sent_seq_nr); it has no "
        "abstract effect (marks only) and its result is not judged here",
        "sequence numbers compare by modular distance (C09 binds the implementation's arithmetic to it); the antipode "
        "(distance 32768) is not exercised",
    ]
    part(r, tier, seed, ALL_PREFIXES, cache=False)
    r.exhaustive = True
    # a rule that was never exercised makes a HELD verdict vacuous; a run that dies early (panic in the first calls)
    # exercises little and is a violation, not a vacuous pass
    return r.finish(rule_text=RULE_TEXT, required_cov=required(ALL_PREFIXES, r))


def replay(path):
    """Re-run a recorded violation: the calls on the current implementation, judged by SegmentsTrace."""
    d = json.load(open(path))
    build()
    sc = d["script"]
    v, _starts = run_scripts([sc], "replay")
    pid = d.get("property", PID)
    want = d.get("violation", {}).get("rule")
    hits = [x for x in v["viol"] if pid == PID or x["rule"].startswith(pid + ".") or x["rule"] == want]
    for x in sorted(hits, key=lambda x: x["line"])[:10]:
        print("violation:", json.dumps(x), core.trace_line(v["trace"], x["line"])[:400])
    print("calls:", "; ".join(pretty(sc)))
    print("trace:", v["trace"])
    if hits:
        print(f"VIOLATION property={pid} replay={path}")
        return 1
    return 0
