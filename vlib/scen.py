"""Scenario (script) builders for the drivers.  A script is a JSON object {cfg, steps} executed by
harness/src/driver.rs.  Generators are deterministic functions of their seed."""
import random

A_ADDR = "127.0.0.1:1"
B_ADDR = "127.0.0.1:2"
A6_ADDR = "[::1]:1"
B6_ADDR = "[::1]:2"
SEC = 1_000_000

def sock(name, addr, rand=None, raw=False, **opts):
    d = {"name": name, "addr": addr, "rand": rand or [], "opts": {k: v for k, v in opts.items() if v is not None}}
    if raw:
        d["raw"] = True
    return d

def script(name, seed, socks, steps, net=None, info=None, mute=None):
    return {"cfg": {"name": name, "seed": seed, "net": net or {"latency_us": 10000}, "socks": socks,
                    "info": info or {"family": name.split("/")[0]}, "mute": mute or []},
            "steps": steps}

def connect_steps(a="A", b="B", ea="a", eb="b", timeout=2 * SEC):
    return [{"op": "accept", "sock": b, "ep": eb},
            {"op": "connect", "sock": a, "to": b, "ep": ea},
            {"op": "wait", "what": "connect", "timeout_us": timeout},
            {"op": "wait", "what": "accept", "timeout_us": timeout}]

def rule(**kw):
    d = {"op": "rule"}
    d.update(kw)
    return d

def isn_pair(rng, near_wrap=None):
    """(conn id seed, isn) values for random_u16: [next_connection_id at socket creation, ISN...]."""
    if near_wrap is None:
        near_wrap = rng.random() < 0.4
    def one():
        if near_wrap:
            return rng.choice([65535, 65534, 65530, 65500, 65000, 64600, 0, 1])
        return rng.randrange(0, 65536)
    return one

# ---------------------------------------------------------------------------------------------
def transfer(name, seed, *, n_ab=20000, n_ba=0, chunk_w=None, chunk_r=None, opts_a=None, opts_b=None,
             net=None, rules=None, v6=False, rand_a=None, rand_b=None, close="shutdown", reader_pause_us=0,
             settle_us=15 * SEC, wait_us=120 * SEC, info=None, pre_steps=None, extra_steps=None, mute=None):
    """Two real endpoints; A connects to B, A writes n_ab, B writes n_ba, both read to the end, then close."""
    aa, ba = (A6_ADDR, B6_ADDR) if v6 else (A_ADDR, B_ADDR)
    socks = [sock("A", aa, rand=rand_a, **(opts_a or {})), sock("B", ba, rand=rand_b, **(opts_b or {}))]
    st = list(pre_steps or [])
    st += connect_steps()
    for r in (rules or []):
        st.append(r)
    if reader_pause_us == 0:
        st.append({"op": "read", "ep": "b", "chunk": chunk_r or 65536})
        st.append({"op": "read", "ep": "a", "chunk": chunk_r or 65536})
    if n_ab:
        st.append({"op": "write", "ep": "a", "n": n_ab, "chunk": chunk_w or 65536})
    if n_ba:
        st.append({"op": "write", "ep": "b", "n": n_ba, "chunk": chunk_w or 65536})
    if reader_pause_us:
        st.append({"op": "sleep", "us": reader_pause_us})
        st.append({"op": "read", "ep": "b", "chunk": chunk_r or 65536})
        st.append({"op": "read", "ep": "a", "chunk": chunk_r or 65536})
    st += list(extra_steps or [])
    # In this implementation a FIN closes both directions (a received FIN fails the local writer),
    # so both sides finish and flush their data before anyone closes.
    st.append({"op": "flush", "ep": "a"})
    st.append({"op": "flush", "ep": "b"})
    st.append({"op": "wait", "what": "write", "timeout_us": wait_us})
    st.append({"op": "wait", "what": "flush", "timeout_us": wait_us})
    if close == "shutdown":
        st.append({"op": "shutdown", "ep": "a"})
        st.append({"op": "wait", "what": "shutdown", "timeout_us": wait_us})
        st.append({"op": "wait", "what": "read", "timeout_us": wait_us})
    st.append({"op": "drop", "ep": "a"})
    st.append({"op": "drop", "ep": "b"})
    st.append({"op": "sleep", "us": settle_us})
    inf = {"family": name.split("/")[0]}
    inf.update(info or {})
    return script(name, seed, socks, st, net=net, info=inf, mute=mute)

def random_transfer(seed, idx, fam="xfer", lossy=True, sizes=(1, 200000), allow_probe_blackhole=False):
    """A randomly configured transfer under a fair-lossy network."""
    rng = random.Random(seed * 1000003 + idx)
    link = rng.choice([148, 300, 576, 1000, 1280, 1500, 1500, 1500])
    v6 = rng.random() < 0.15 and link >= 1280
    rx = rng.choice([2048, 4096, 16384, 65536, 1 << 20])
    tx_init = rng.choice([1024, 4096, 32768, 1 << 20, 3000, 24576])
    tx_max = rng.choice([tx_init, 4 * tx_init, 1 << 20, 3 * tx_init, tx_init * 5 // 3, 40960])
    nagle = rng.random() < 0.7
    mtu_min = 68 if not v6 else 88
    if link < 100:
        link = 148
    n_ab = rng.randrange(sizes[0], sizes[1])
    n_ba = rng.choice([0, 0, rng.randrange(sizes[0], sizes[1])])
    lat = rng.choice([1000, 10000, 50000])
    net = {"latency_us": lat, "spacing_us": rng.choice([0, 0, 20, 200])}
    if lossy:
        net.update({"loss_pm": rng.choice([0, 10, 30, 100]), "dup_pm": rng.choice([0, 0, 20]),
                    "reorder_pm": rng.choice([0, 0, 50]), "reorder_delay_us": rng.choice([500, 5000, 30000]),
                    "loss_budget": 2})
    gen = isn_pair(rng)
    opts = dict(link_mtu=link, rx_buf=rx, tx_init=tx_init, tx_max=tx_max, nagle=nagle)
    optsb = dict(link_mtu=link, rx_buf=rng.choice([rx, 4096, 65536]), tx_init=tx_init, tx_max=tx_max, nagle=nagle)
    chunk_w = rng.choice([1, 7, 100, 1000, 4096, 65536]) if n_ab < 30000 else rng.choice([1000, 4096, 65536])
    chunk_r = rng.choice([1, 10, 333, 65536, 65536]) if n_ab < 20000 else rng.choice([2000, 65536])
    return transfer(f"{fam}/{idx}", seed * 7919 + idx, n_ab=n_ab, n_ba=n_ba, chunk_w=chunk_w, chunk_r=chunk_r,
                    opts_a=opts, opts_b=optsb, net=net, v6=v6,
                    rand_a=[gen(), gen()], rand_b=[gen(), gen()],
                    info={"lossy": lossy, "link": link, "rx": rx, "tx": [tx_init, tx_max], "nagle": nagle,
                          "class": "fair-lossy" if lossy else "loss-free"})

def bursty_transfer(seed, idx, fam="xfer"):
    """A conversation of small writes separated by pauses; after each burst the network loses the tail of the
    exchange a bounded number of times: the last ACK(s), or the last data packet(s).  Fair-lossy (each identity is
    dropped at most twice)."""
    rng = random.Random(seed * 1000003 + idx * 31 + 9)
    link = rng.choice([576, 1500, 300])
    lat = rng.choice([1000, 10000, 50000])
    nagle = rng.random() < 0.7
    gen = isn_pair(rng)
    opts = dict(link_mtu=link, nagle=nagle)
    ex = []
    for b in range(rng.choice([2, 3, 5])):
        w, r = ("a", "B") if rng.random() < 0.7 else ("b", "A")
        n = rng.choice([1, 5, 100, LINKS[link], LINKS[link] + 1, 3 * LINKS[link], 5000])
        ex.append({"op": "write", "ep": w, "n": n, "chunk": rng.choice([n, 5, 65536])})
        k = rng.random()
        if k < 0.45:     # the acknowledgement(s) of the tail are lost
            ex.append(rule(**{"from": r, "type": "state", "act": "drop", "times": rng.choice([1, 1, 2])}))
        elif k < 0.7:    # the next data packet (a retransmission or the rest of the burst) is lost
            ex.append(rule(**{"from": w.upper(), "type": "data", "act": "drop", "times": rng.choice([1, 2])}))
        if rng.random() < 0.5:   # a second small write right behind (held by Nagle / congestion state)
            ex.append({"op": "write", "ep": w, "n": rng.choice([1, 5, 200]), "chunk": 65536})
        ex.append(sleep(rng.choice([lat // 2, 3 * lat, 400000, 2 * SEC])))
    # the initiator speaks first (an accepted connection is only established by the initiator's first packet, C17)
    ex = [sleep(3 * lat)] + ex
    return transfer(f"{fam}/{idx}", seed * 7919 + idx, n_ab=rng.choice([1, 100]), n_ba=0, chunk_r=rng.choice([1, 65536]),
                    opts_a=opts, opts_b=opts, net={"latency_us": lat}, rand_a=[gen(), gen()], rand_b=[gen(), gen()],
                    extra_steps=ex,
                    info={"lossy": True, "link": link, "nagle": nagle, "class": "fair-lossy", "variant": "bursty"})

# ---------------------------------------------------------------------------------------------
# D-peer: one real endpoint (socket A) against the scripted raw peer P
P_ADDR = "127.0.0.1:9"
P6_ADDR = "[::1]:9"

def peer(intent, **kw):
    d = {"op": "peer", "name": "P", "intent": intent}
    d.update(kw)
    return d

def sleep(us):
    return {"op": "sleep", "us": int(us)}

def peer_script(name, seed, steps, *, opts=None, lat=1000, v6=False, rand=None, info=None, net=None, mute=None):
    aa, pa = (A6_ADDR, P6_ADDR) if v6 else (A_ADDR, P_ADDR)
    socks = [sock("A", aa, rand=rand, **(opts or {})), sock("P", pa, raw=True)]
    n = {"latency_us": lat}
    n.update(net or {})
    inf = {"family": name.split("/")[0], "driver": "peer"}
    inf.update(info or {})
    return script(name, seed, socks, steps, net=n, info=inf, mute=mute)

def peer_open_active(lat=1000, peer_isn=1000, wnd=1 << 20):
    """The library connects to the peer."""
    return [{"op": "connect", "sock": "A", "to": "P", "ep": "a"},
            sleep(lat + 10),
            peer("synack", seq=peer_isn, wnd=wnd),
            {"op": "wait", "what": "connect", "timeout_us": 1 * SEC}]

def peer_open_passive(lat=1000, cid=300, peer_isn=2000, wnd=1 << 20, establish=True):
    """The peer connects to the library (SYN), the library accepts; optionally the peer's first ACK."""
    st = [{"op": "accept", "sock": "A", "ep": "a"},
          peer("syn", cid=cid, seq=peer_isn, to="A"),
          {"op": "wait", "what": "accept", "timeout_us": 1 * SEC},
          sleep(lat + 10)]
    if establish:
        st += [peer("ack", wnd=wnd), sleep(lat + 10)]
    return st

# ------------------------------------------------------------------ D-peer families
LINKS = {148: 100, 300: 252, 576: 528, 1500: 528, 9000: 528}   # link MTU -> initial MSS (IPv4)

def rounds_acks(rng, n_rounds, lat, mss, allow_silence=True, allow_zero=True, duplex=False):
    """A random ACK/window history for a sending endpoint.  duplex: the peer also sends data of its own, and some
    acknowledgements travel on its data packets - new ones and repeats of packets already taken in."""
    st = []
    wnds = [1 << 20, 1 << 20, 5 * mss, 2 * mss, mss, mss - 1, 1]
    if allow_zero:
        wnds += [0, 0]
    for _ in range(n_rounds):
        dt = rng.choice([lat + 10, lat + 10, 3000, 20000, 60000] + ([250000, 450000, 1000000] if allow_silence else []))
        if dt >= 250000 and rng.random() < 0.35:
            # the local transport is busy (send returns Pending) for most of this silence - the moment a retransmission
            # timer is likely to fire - and writable again afterwards
            st += [{"op": "net_set", "from": "A", "to": "P", "pending": True}, sleep(dt - 20000),
                   {"op": "net_set", "from": "A", "to": "P", "pending": False}, sleep(20000)]
        else:
            st.append(sleep(dt))
        k = rng.random()
        w = rng.choice(wnds)
        if duplex and rng.random() < 0.4:
            # duplex = [number of data packets the peer has sent so far]: a repeat names one of them
            # (the peer's data packets carry its current window like any other packet - a repeat may be the first
            #  packet to announce a smaller one)
            if rng.random() < 0.5:
                st.append(peer("data", len=rng.choice([1, 50, mss]), wnd=w))
                duplex[0] += 1
            else:
                st.append(peer("data", len=50, again=rng.randrange(0, duplex[0]), wnd=w))
        elif k < 0.45:
            st.append(peer("ack", wnd=w))
        elif k < 0.55:
            st.append(peer("ack", wnd=w, n=rng.choice([2, 3, 4]), nosack=True))
        elif k < 0.70:
            # the peer reports (selectively) exactly what it holds; holes come from the network rules
            st.append(peer("ack", wnd=max(w, mss), n=rng.choice([1, 1, 3])))
        elif k < 0.78:
            st.append(peer("ack", wnd=w, rel=rng.choice([-1, -2, -5])))
        elif k < 0.86:
            st.append(peer("ack", wnd=w, type=0 if rng.random() < 0.0 else 2))
        else:
            pass  # silence this round
    return st

def peer_send(seed, idx, fam="peer_send"):
    """The library sends; the scripted peer produces an ACK/window history."""
    rng = random.Random(seed * 1000003 + idx * 7 + 11)
    link = rng.choice(list(LINKS))
    mss = LINKS[link]
    lat = rng.choice([500, 1000, 5000])
    nagle = rng.random() < 0.6
    tx_init = rng.choice([64, 1024, 4096, 32768, 3000, 24576])
    # (the buffer grows by doubling: maxima that are not the initial size times a power of two included)
    tx_max = rng.choice([tx_init, tx_init * 4, 1 << 20, tx_init * 3, tx_init * 5 // 3, tx_init + 1, 40960])
    opts = dict(link_mtu=link, nagle=nagle, tx_init=tx_init, tx_max=tx_max, max_retx=rng.choice([2, 3, 5]))
    active = rng.random() < 0.5
    pw = rng.choice([1 << 20, 10 * mss, 2 * mss])
    st = peer_open_active(lat, peer_isn=rng.choice([1000, 65530]), wnd=pw) if active else \
        peer_open_passive(lat, cid=rng.choice([300, 65535]), peer_isn=rng.choice([2000, 65534]), wnd=pw)
    st.append({"op": "read", "ep": "a"})
    duplex = [2] if rng.random() < 0.3 else None
    if duplex:
        st += [peer("data", len=50), peer("data", len=50), sleep(lat + 10)]
    # holes: the network loses some first (and a few second) transmissions of data segments
    for j in sorted(rng.sample(range(0, 40), rng.choice([0, 1, 3, 6]))):
        st.append(rule(**{"from": "A", "type": "data", "seq_idx": j, "nth": 1, "act": "drop"}))
        if rng.random() < 0.3:
            st.append(rule(**{"from": "A", "type": "data", "seq_idx": j, "nth": 2, "act": "drop"}))
    for _ in range(rng.choice([1, 2, 4])):
        n = rng.choice([1, 10, mss - 1, mss, mss + 1, 3 * mss, 10 * mss, 40 * mss])
        st.append({"op": "write", "ep": "a", "n": n, "chunk": rng.choice([1, 50, mss, 65536]) if n <= 3 * mss else 65536})
        st += rounds_acks(rng, rng.choice([2, 5, 10]), lat, mss, duplex=duplex)
    # drain: let everything be acknowledged if possible
    for _ in range(12):
        st += [sleep(lat + 10), peer("ack", wnd=1 << 20)]
    end = rng.choice(["shutdown", "drop", "peerfin", "silent", "reset", "peerfin_early", "peerfin_reset"])
    if end == "peerfin_reset":
        # the peer closes first; our last segment is lost (twice); the peer - which never got it - answers our FIN with a
        # RESET that names the FIN's number (seen in the wild): nothing was delivered, flush must not report success
        st = st[:-24]
        for nth in (1, 2, 3):
            st.append(rule(**{"from": "A", "type": "data", "min_len": 21, "nth": nth, "act": "drop", "times": 0}))
        st += [{"op": "write", "ep": "a", "n": 1}, sleep(lat + 10), peer("fin"), sleep(lat + 10),
               peer("reset", rel=2), sleep(lat + 10), {"op": "flush", "ep": "a"}, sleep(500000)]
    if end == "peerfin_early":
        # the peer closes first while our last data is still unacknowledged; our answering FIN is lost once; the peer
        # then acknowledges the data (not the FIN it never saw): the FIN has to be repeated
        st = st[:-24]      # (without the drain)
        st += [{"op": "write", "ep": "a", "n": rng.choice([1, mss, 3 * mss])},
               rule(**{"from": "A", "type": "fin", "nth": 1, "act": "drop"}),
               peer("fin"), sleep(lat + 10), peer("ack"), sleep(rng.choice([lat + 10, 100000])), peer("ack")]
        for _ in range(6):
            st += [sleep(rng.choice([250000, 450000])), peer("ack")]
    elif end == "shutdown":
        st += [{"op": "shutdown", "ep": "a"}, sleep(lat + 10), peer("ack"), peer("fin"), sleep(lat + 10), peer("ack")]
    elif end == "drop":
        st += [{"op": "drop", "ep": "a"}, sleep(lat + 10), peer("ack"), peer("fin"), sleep(lat + 10), peer("ack")]
    elif end == "peerfin":
        st += [peer("fin"), sleep(lat + 10), peer("ack"), sleep(lat + 10), peer("ack")]
    elif end == "reset":
        st += [peer("reset")]
    st += [sleep(4 * SEC), {"op": "drop", "ep": "a"}, sleep(14 * SEC)]
    return peer_script(f"{fam}/{idx}", seed * 31 + idx, st, opts=opts, lat=lat,
                       rand=[rng.randrange(65536), rng.choice([1, 65534, rng.randrange(65536)]), rng.randrange(65536)],
                       info={"mss": mss, "nagle": nagle, "end": end, "tx": [tx_init, tx_max], "duplex": bool(duplex)})

def peer_recv(seed, idx, fam="peer_recv"):
    """The library receives; the scripted peer sends data in every order and timing."""
    rng = random.Random(seed * 1000003 + idx * 13 + 5)
    link = rng.choice([576, 1500, 148])
    mss = LINKS[link]
    lat = rng.choice([0, 500, 1000])
    rx = rng.choice([2 * mss, 3 * mss, 8 * mss, 64 * mss, 1 << 20])
    opts = dict(link_mtu=link, rx_buf=rx)
    st = peer_open_passive(lat, cid=rng.choice([300, 65535, 0]), peer_isn=rng.choice([2000, 65533, 65535]), establish=False) \
        if rng.random() < 0.6 else peer_open_active(lat, peer_isn=rng.choice([1000, 65532]))
    reader = rng.choice(["greedy", "greedy", "slow", "stopped", "dropped"])
    if rng.random() < 0.15:
        # the peer's FIN overtakes its very first data (while an accepted connection still waits for the first packet)
        st += [peer("fin", ahead=rng.choice([1, 1, 2])), sleep(rng.choice([lat + 10, 50000]))]
    if reader == "greedy":
        st.append({"op": "read", "ep": "a"})
    elif reader == "dropped":
        st.append({"op": "drop_r", "ep": "a"})
    plen = rng.choice([1, 10, mss // 2, mss, mss, mss])
    half_closed = rng.random() < 0.2
    if half_closed:
        # "send the request, shut down the writing side, read the reply": the local FIN goes out (and is acknowledged by
        # the peer's next packets) while the peer keeps sending and the reader may be slower than the peer
        st += [{"op": "shutdown", "ep": "a"}, sleep(lat + 10)]
    for _ in range(rng.choice([5, 10, 25])):
        k = rng.random()
        if k < 0.55:
            st.append(peer("data", len=plen))
        elif k < 0.70:
            # (the last values: the far end of the reassembly window, one slot per largest payload)
            slots = max(1, rx // max(1, LINKS[link]))
            st.append(peer("data", len=plen, ahead=rng.choice([1, 2, 3, 10, max(1, slots - 1), max(1, slots - 2), slots])))
        elif k < 0.80:
            st.append(peer("fill", len=plen, count=rng.choice([1, 2, 3])))
        elif k < 0.90:
            st.append(peer("data", len=plen, again=rng.randrange(0, 6)))
        else:
            st.append(peer("data", len=plen, ahead=rng.choice([70, 200, 5000])))
        st.append(sleep(rng.choice([0, 0, 100, 1000, 20000, 39000, 41000, 100000]) + (lat + 1 if rng.random() < 0.5 else 0)))
        if reader == "slow" and rng.random() < 0.4:
            st.append({"op": "read", "ep": "a", "n": rng.choice([1, plen, 3 * plen]), "chunk": rng.choice([1, plen, 65536])})
    st += [peer("fill", len=plen, count=4), sleep(100000)]
    if reader in ("slow", "stopped"):
        st.append({"op": "read", "ep": "a"})
    # the end: the peer's FIN in order, or overtaking its last data (which then arrives late), each
    # with the local side still open or already half-closed (FIN sent, waiting for the peer's)
    end = rng.choice(["fin", "fin", "ooo_fin", "shut_fin", "shut_ooo_fin", "shut_ooo_fin"])
    st.append(sleep(100000))
    if end.startswith("shut"):
        st += [{"op": "shutdown", "ep": "a"}, sleep(lat + 10)]
        if rng.random() < 0.6:
            st += [peer("ack"), sleep(lat + 10)]
    if end.endswith("ooo_fin"):
        k = rng.choice([1, 1, 2])
        st += [peer("fin", ahead=k), sleep(rng.choice([lat + 10, 50000, 700000]))]
        if rng.random() < 0.8:
            st += [peer("data", len=plen) for _ in range(k)] + [sleep(lat + 10)]
    st += [peer("fin"), sleep(300000), peer("ack"), sleep(2 * SEC), {"op": "drop", "ep": "a"}, sleep(14 * SEC)]
    return peer_script(f"{fam}/{idx}", seed * 37 + idx, st, opts=opts, lat=lat,
                       rand=[rng.randrange(65536), rng.choice([1, 65534, rng.randrange(65536)]), rng.randrange(65536)],
                       info={"mss": mss, "rx": rx, "reader": reader, "plen": plen, "end": end, "half_closed": half_closed})

# ------------------------------------------------------------------ dedicated known-finding scenarios
def kf_d4(seed=1):
    """D4: the single ACK that re-opens a zero window is lost while nothing is outstanding."""
    st = connect_steps()
    st += [rule(**{"from": "B", "type": "state", "wnd_reopen": True, "act": "drop", "times": 1}),
           {"op": "write", "ep": "a", "n": 2112, "chunk": 2112},   # fills B's receive buffer exactly
           sleep(300000),                                          # ... acknowledged with a zero window
           {"op": "write", "ep": "a", "n": 1000, "chunk": 1000},   # nothing can be segmented: no timer runs
           sleep(100000),
           {"op": "read", "ep": "b"},                              # the window re-opens, that ACK is lost
           {"op": "flush", "ep": "a"},
           {"op": "wait", "what": "flush", "timeout_us": 30 * SEC},
           {"op": "drop", "ep": "a"}, {"op": "drop", "ep": "b"}, sleep(15 * SEC)]
    socks = [sock("A", A_ADDR, rand=[10, 100], link_mtu=576), sock("B", B_ADDR, rand=[20, 200], link_mtu=576, rx_buf=2112)]
    return script("kf_d4/0", seed, socks, st, net={"latency_us": 10000}, info={"family": "kf", "class": "fair-lossy", "kf": "D4"})

def kf_d6(seed=1):
    """D6: segmented-but-unsent data, peer closes the window: the RTO path transmits into the zero window."""
    st = peer_open_active(1000, peer_isn=1000, wnd=1 << 20)
    st += [{"op": "write", "ep": "a", "n": 528 * 8},
           sleep(1100), peer("ack", wnd=0), sleep(1100), peer("ack", wnd=0),
           sleep(1 * SEC), peer("ack", wnd=0), sleep(2 * SEC), peer("ack", wnd=1 << 20), sleep(200000), peer("ack"),
           {"op": "drop", "ep": "a"}, sleep(15 * SEC)]
    return peer_script("kf_d6/0", seed, st, opts=dict(link_mtu=576), lat=1000, rand=[10, 100], info={"family": "kf", "kf": "D6"})

def kf_d1b(seed=1):
    """D1b: an MTU probe is delivered, its ACKs are lost until the sender gives the probe up and re-segments it."""
    st = connect_steps()
    st += [{"op": "read", "ep": "b"},
           {"op": "write", "ep": "a", "n": 6000},
           sleep(65000),                      # first segment acked (delayed ACK), the probe is on its way
           {"op": "net_set", "from": "B", "to": "A", "cut": True},
           sleep(900000),                     # the probe and its retransmission time out
           {"op": "net_set", "from": "B", "to": "A", "cut": False},
           {"op": "flush", "ep": "a"},
           {"op": "wait", "what": "flush", "timeout_us": 30 * SEC},
           {"op": "drop", "ep": "a"}, {"op": "drop", "ep": "b"}, sleep(15 * SEC)]
    socks = [sock("A", A_ADDR, rand=[10, 100]), sock("B", B_ADDR, rand=[20, 200])]
    return script("kf_d1b/0", seed, socks, st, net={"latency_us": 10000}, info={"family": "kf", "kf": "D1b"})

def kf_d14(seed=1):
    """D14: one segment's transmissions are lost four times (below the retransmission limit of 5) with a
    3 s inactivity timeout: the RTO back-off outlasts the inactivity timeout."""
    st = connect_steps()
    for n in range(1, 5):
        st.append(rule(**{"from": "A", "type": "data", "seq_idx": 2, "nth": n, "act": "drop"}))
    st += [{"op": "read", "ep": "b"},
           {"op": "write", "ep": "a", "n": 3000},
           {"op": "flush", "ep": "a"},
           {"op": "wait", "what": "flush", "timeout_us": 40 * SEC},
           {"op": "drop", "ep": "a"}, {"op": "drop", "ep": "b"}, sleep(15 * SEC)]
    socks = [sock("A", A_ADDR, rand=[10, 100], link_mtu=576, inactivity_ms=3000), sock("B", B_ADDR, rand=[20, 200], link_mtu=576)]
    return script("kf_d14/0", seed, socks, st, net={"latency_us": 10000}, info={"family": "kf", "class": "fair-lossy", "kf": "D14"})

def kf_d6b(seed=1):
    """D6b: the retransmission timer runs while only never-sent segments are queued; a segment sent
    just before its deadline is retransmitted early."""
    st = peer_open_active(1000, peer_isn=1000, wnd=1 << 20)
    st += [{"op": "write", "ep": "a", "n": 528 * 8},
           sleep(1100), peer("ack", wnd=0), sleep(1100), peer("ack", wnd=0),
           sleep(150000), peer("ack", wnd=1 << 20),
           sleep(1 * SEC), peer("ack"), sleep(300000), peer("ack"), sleep(300000), peer("ack"),
           {"op": "drop", "ep": "a"}, sleep(15 * SEC)]
    return peer_script("kf_d6b/0", seed, st, opts=dict(link_mtu=576), lat=1000, rand=[10, 100], info={"family": "kf", "kf": "D6b"})

# ------------------------------------------------------------------ closing / abort families (C03, C08, C17)
def rto_close_script(seed, idx, fam="close"):
    """Everything the application wrote is in flight and lost together; the retransmission timer fires (the sender's
    "last sent" number is rewound to the first outstanding segment); while it stays rewound the application lets the
    stream go without flushing; then the network heals.  The FIN still follows the last data segment and the peer's
    reader gets every byte before end-of-stream."""
    rng = random.Random(seed * 1000003 + idx * 83 + 59)
    link = rng.choice([576, 1500])
    mss = LINKS[link]
    lat = rng.choice([1000, 10000])
    k = rng.choice([2, 2, 3])
    n = k * mss - rng.choice([0, 0, 7, mss // 2])
    gen = isn_pair(rng)
    st = connect_steps() + [{"op": "read", "ep": "b"}, {"op": "read", "ep": "a"}]
    if rng.random() < 0.5:          # a first exchange, so that the retransmission timeout is a measured one
        st += [{"op": "write", "ep": "a", "n": 100}, sleep(4 * lat + 50000)]
    st += [{"op": "net_set", "from": "A", "to": "B", "cut": True},
           {"op": "write", "ep": "a", "n": n},
           sleep(rng.choice([700000, 1300000, 1800000, 2600000]))]
    closer = rng.choice(["drop_a", "drop_a", "drop_w_then_r", "shutdown_a"])
    if closer == "drop_a":
        st.append({"op": "drop", "ep": "a"})
    elif closer == "drop_w_then_r":
        st += [{"op": "drop_w", "ep": "a"}, {"op": "drop_r", "ep": "a"}]
    else:
        st.append({"op": "shutdown", "ep": "a"})
    st += [sleep(rng.choice([0, 1000, 100000])), {"op": "net_set", "from": "A", "to": "B", "cut": False},
           {"op": "wait", "timeout_us": 45 * SEC},
           {"op": "drop", "ep": "a"}, {"op": "drop", "ep": "b"}, sleep(25 * SEC)]
    socks = [sock("A", A_ADDR, rand=[gen(), gen()], link_mtu=link, max_retx=5, inactivity_ms=10000),
             sock("B", B_ADDR, rand=[gen(), gen()], link_mtu=link, inactivity_ms=10000)]
    return script(f"{fam}/{idx}", seed * 41 + idx, socks, st, net={"latency_us": lat},
                  info={"family": fam, "fault": "rto_then_close", "closer": closer, "reader": "greedy", "n": n})

def probe_close_script(seed, idx, fam="close"):
    """The application closes right after writing, the last segment in flight is an MTU probe, and the path is narrower
    than the link, so the probe is lost and its bytes are cut again into more segments: the FIN still follows the last
    data segment, nothing is transmitted after it, and the peer's reader gets every byte and then end-of-stream."""
    rng = random.Random(seed * 1000003 + idx * 89 + 67)
    lat = rng.choice([1000, 10000])
    mss = LINKS[1500]
    n = rng.choice([991, mss + 991, mss + 991, 2 * mss + 991, 3 * mss + 991, 4 * mss + 991, 2000, 2047, rng.randrange(900, 4000)])
    closer = rng.choice(["drop", "drop", "shutdown", "drop_w_then_r"])
    st = connect_steps()
    st += [{"op": "net_set", "from": "A", "to": "B", "blackhole_above": rng.choice([548, 548, 700])},
           {"op": "read", "ep": "b"}, {"op": "read", "ep": "a"}, {"op": "write", "ep": "a", "n": n}]
    if closer == "drop":
        st.append({"op": "drop", "ep": "a"})
    elif closer == "shutdown":
        st.append({"op": "shutdown", "ep": "a"})
    else:
        st += [{"op": "drop_w", "ep": "a"}, {"op": "drop_r", "ep": "a"}]
    st += [{"op": "wait", "timeout_us": 45 * SEC}, {"op": "drop", "ep": "a"}, {"op": "drop", "ep": "b"}, sleep(25 * SEC)]
    gen = isn_pair(rng)
    socks = [sock("A", A_ADDR, rand=[gen(), gen()], link_mtu=1500, probe_retx=rng.choice([0, 0, 1]), nagle=rng.random() < 0.5),
             sock("B", B_ADDR, rand=[gen(), gen()], link_mtu=1500)]
    return script(f"{fam}/{idx}", seed * 41 + idx, socks, st, net={"latency_us": lat},
                  info={"family": fam, "class": "fair-lossy", "fault": "probe_lost_at_close", "closer": closer, "reader": "greedy", "n": n})

def close_script(seed, idx, fam="close"):
    if idx % 10 == 7:
        return rto_close_script(seed, idx, fam)
    if idx % 10 == 3:
        return probe_close_script(seed, idx, fam)
    rng = random.Random(seed * 1000003 + idx * 17 + 3)
    link = rng.choice([576, 1500, 148])
    rx = rng.choice([2048, 4096, 65536, 1 << 20])
    wla = rng.random() < 0.7
    opts_a = dict(link_mtu=link, wait_last_ack=wla, max_retx=rng.choice([2, 5]), inactivity_ms=rng.choice([3000, 10000]))
    opts_b = dict(link_mtu=link, rx_buf=rx, wait_last_ack=rng.random() < 0.7, inactivity_ms=rng.choice([3000, 10000]))
    lat = rng.choice([1000, 10000, 50000])
    n = rng.choice([0, 1, 500, 5000, 40000])
    st = connect_steps()
    gen = isn_pair(rng)
    # faults around the closing packets
    fault = rng.choice(["none", "none", "drop_fin1", "drop_fin2", "drop_finack", "drop_all_fins", "cut_mid", "cut_after_flush",
                        "peer_vanishes", "dup_fin", "reorder_fin", "cancel_a", "cancel_b", "reply_tail_lost", "reply_tail_lost"])
    reply = 0
    if fault == "reply_tail_lost":
        # "write the request, shut down, read the reply to end-of-stream" with the reply's tail lost once:
        # B's FIN (the answer to A's) overtakes B's last data
        reply = rng.choice([1, 400, 3000, 3000, 9000])
        for j in rng.sample(range(0, 1 + reply // LINKS[link] + 1), rng.choice([1, 1, 2])):
            st.append(rule(**{"from": "B", "type": "data", "seq_idx": j, "nth": 1, "act": "drop"}))
    if fault == "drop_fin1":
        st.append(rule(**{"type": "fin", "nth": 1, "act": "drop", "times": 1}))
    elif fault == "drop_fin2":
        st.append(rule(**{"type": "fin", "nth": 1, "act": "drop", "times": 2}))
    elif fault == "drop_all_fins":
        st.append(rule(**{"type": "fin", "act": "drop", "times": 0}))
    elif fault == "dup_fin":
        st.append(rule(**{"type": "fin", "act": "dup", "times": 2}))
    elif fault == "reorder_fin":
        st.append(rule(**{"type": "fin", "act": "delay", "delay_us": 3 * lat, "times": 1}))
    reader = rng.choice(["greedy", "greedy", "late", "never", "drop_r"])
    if reader == "greedy":
        st.append({"op": "read", "ep": "b"})
    elif reader == "drop_r":
        st.append({"op": "drop_r", "ep": "b"})
    st.append({"op": "read", "ep": "a"})
    if n:
        st.append({"op": "write", "ep": "a", "n": n})
    if reply:
        st.append({"op": "write", "ep": "b", "n": reply})
    elif rng.random() < 0.3:
        st.append({"op": "write", "ep": "b", "n": rng.choice([1, 3000])})
    closer = rng.choice(["shutdown_a", "shutdown_a", "flush_then_shutdown", "drop_a", "drop_w_a", "drop_b", "both_drop", "shutdown_both"])
    when = rng.choice([0, 0, lat, 5 * lat, 500000])
    if reply:
        closer, when = rng.choice(["shutdown_a", "shutdown_a", "drop_w_a"]), rng.choice([0, 0, lat // 2])
    if when:
        st.append(sleep(when))
    if fault == "cut_mid":
        st += [{"op": "net_set", "from": "A", "to": "B", "cut": True}, {"op": "net_set", "from": "B", "to": "A", "cut": True}]
    if fault == "peer_vanishes":
        st += [{"op": "net_set", "from": "B", "to": "A", "cut": True}]
    if fault == "drop_finack":
        st.append(rule(**{"from": "B", "type": "state", "act": "drop", "times": 3}))
    if closer == "shutdown_a":
        st.append({"op": "shutdown", "ep": "a"})
    elif closer == "flush_then_shutdown":
        st += [{"op": "flush", "ep": "a"}, {"op": "wait", "ep": "a", "what": "flush", "timeout_us": 40 * SEC}]
        if fault == "cut_after_flush":
            st += [{"op": "net_set", "from": "A", "to": "B", "cut": True}, {"op": "net_set", "from": "B", "to": "A", "cut": True}]
        st.append({"op": "shutdown", "ep": "a"})
    elif closer == "drop_a":
        st.append({"op": "drop", "ep": "a"})
    elif closer == "drop_w_a":
        st.append({"op": "drop_w", "ep": "a"})
    elif closer == "drop_b":
        st.append({"op": "drop", "ep": "b"})
    elif closer == "both_drop":
        st += [{"op": "drop", "ep": "a"}, {"op": "drop", "ep": "b"}]
    elif closer == "shutdown_both":
        st += [{"op": "shutdown", "ep": "a"}, {"op": "shutdown", "ep": "b"}]
    if fault == "cancel_a":
        st += [sleep(rng.choice([0, lat, 300000])), {"op": "cancel", "sock": "A"}]
    if fault == "cancel_b":
        st += [sleep(rng.choice([0, lat, 300000])), {"op": "cancel", "sock": "B"}]
    if reader == "late":
        st += [sleep(rng.choice([100000, 2 * SEC, 6 * SEC])), {"op": "read", "ep": "b"}]
    st += [{"op": "wait", "timeout_us": 45 * SEC},
           {"op": "write", "ep": "a", "n": 10},      # later calls must fail cleanly, not hang
           {"op": "flush", "ep": "a"},
           {"op": "flush", "ep": "b"},
           {"op": "read", "ep": "b", "n": 1},
           {"op": "wait", "timeout_us": 15 * SEC},
           {"op": "drop", "ep": "a"}, {"op": "drop", "ep": "b"}, sleep(25 * SEC)]
    socks = [sock("A", A_ADDR, rand=[gen(), gen()], **opts_a), sock("B", B_ADDR, rand=[gen(), gen()], **opts_b)]
    return script(f"{fam}/{idx}", seed * 41 + idx, socks, st, net={"latency_us": lat},
                  info={"family": fam, "fault": fault, "closer": closer, "reader": reader, "n": n})

def kf_d5(seed=1):
    """D5: the close handshake completes while acknowledged in-order data is still parked behind a full
    user queue; the reader loses it although the writer's shutdown succeeded."""
    st = connect_steps()
    st += [{"op": "write", "ep": "a", "n": 4200},
           {"op": "shutdown", "ep": "a"},
           {"op": "wait", "ep": "a", "what": "shutdown", "timeout_us": 20 * SEC},
           sleep(5 * SEC),
           {"op": "read", "ep": "b"},
           {"op": "wait", "ep": "b", "what": "read", "timeout_us": 20 * SEC},
           {"op": "drop", "ep": "a"}, {"op": "drop", "ep": "b"}, sleep(15 * SEC)]
    socks = [sock("A", A_ADDR, rand=[10, 100], link_mtu=148), sock("B", B_ADDR, rand=[20, 200], link_mtu=148, rx_buf=4096)]
    return script("kf_d5/0", seed, socks, st, net={"latency_us": 10000}, info={"family": "kf", "kf": "D5"})

# ------------------------------------------------------------------ D-many: socket level (C08, C12, C13)
def backlog_from_source():
    import re
    try:
        src = open("/repo/src/socket.rs").read()
        m = re.search(r"const ACCEPT_QUEUE_MAX_SYNS: usize = (\d+);", src)
        return int(m.group(1)) if m else 32
    except OSError:
        return 32

def many_script(seed, idx, fam="many"):
    rng = random.Random(seed * 1000003 + idx * 19 + 7)
    limit = rng.choice([1, 2, 8, 128])
    lat = rng.choice([1000, 10000])
    # connection-id allocators: far apart, or (10%) adjacent so that ids of the two directions clash
    clash = rng.random() < 0.1
    ida = rng.choice([500, 65530, 2 * rng.randrange(100, 30000)])
    idb = (ida - 1) % 65536 if clash else (ida + 20001) % 65536
    socks = [sock("A", A_ADDR, rand=[ida] + [(1000 * (2 * i + 1)) % 65536 for i in range(40)], limit=limit, link_mtu=576),
             sock("B", B_ADDR, rand=[idb] + [(1000 * (2 * i + 2)) % 65536 for i in range(40)], limit=limit, link_mtu=576)]
    st = []
    n = rng.choice([1, 2, 3, 6, 12])
    order = rng.choice(["accept_first", "connect_first", "interleaved"])
    both_dirs = rng.random() < 0.4
    conns = []   # (connector sock, acceptor sock, connector ep, acceptor ep)
    for i in range(n):
        if both_dirs and i % 2 == 1:
            conns.append(("B", "A", f"c{i}", f"s{i}"))
        else:
            conns.append(("A", "B", f"c{i}", f"s{i}"))
    if rng.random() < 0.2:
        st.append(rule(**{"type": "syn", "act": "dup", "times": rng.choice([1, 3])}))
    usable = conns[:limit] if limit < n else conns
    # at most 4 connects to one address may be pending at once (the implementation's slot limit): batches of 4
    for g in range(0, len(conns), 4):
        grp = conns[g:g + 4]
        if order == "accept_first":
            for (cs, ss, c, s) in grp:
                st.append({"op": "accept", "sock": ss, "ep": s})
            for (cs, ss, c, s) in grp:
                st.append({"op": "connect", "sock": cs, "to": ss, "ep": c})
        elif order == "connect_first":
            for (cs, ss, c, s) in grp:
                st.append({"op": "connect", "sock": cs, "to": ss, "ep": c})
            st.append(sleep(rng.choice([0, 3 * lat])))
            for (cs, ss, c, s) in grp:
                st.append({"op": "accept", "sock": ss, "ep": s})
        else:
            for (cs, ss, c, s) in grp:
                if rng.random() < 0.5:
                    st += [{"op": "accept", "sock": ss, "ep": s}, {"op": "connect", "sock": cs, "to": ss, "ep": c}]
                else:
                    st += [{"op": "connect", "sock": cs, "to": ss, "ep": c}, {"op": "accept", "sock": ss, "ep": s}]
        st.append({"op": "wait", "what": "connect", "timeout_us": 500000})
        # the initiator speaks first (the accepting side gives up after its SYN-ACK repeats otherwise)
        for j, (cs, ss, c, s) in enumerate(grp):
            if (cs, ss, c, s) in usable:
                st += [{"op": "read", "ep": s}, {"op": "read", "ep": c}, {"op": "write", "ep": c, "n": 100 + 37 * (g + j)}]
        st.append({"op": "wait", "what": "accept", "timeout_us": 500000})
    for j, (cs, ss, c, s) in enumerate(usable):
        st.append({"op": "write", "ep": s, "n": 50 + 11 * j})
    for (cs, ss, c, s) in usable:
        st += [{"op": "flush", "ep": c}, {"op": "flush", "ep": s}]
    st.append({"op": "wait", "what": "flush", "timeout_us": 20 * SEC})
    closing = rng.choice(["shutdown", "drop", "mixed"])
    for j, (cs, ss, c, s) in enumerate(usable):
        if closing == "shutdown" or (closing == "mixed" and j % 2 == 0):
            st.append({"op": "shutdown", "ep": c})
        else:
            st.append({"op": "drop", "ep": c})
    st.append({"op": "wait", "what": "read", "timeout_us": 20 * SEC})
    for (cs, ss, c, s) in conns:
        st += [{"op": "abandon", "ep": c}, {"op": "abandon", "ep": s}]
    for (cs, ss, c, s) in usable:
        st += [{"op": "drop", "ep": c}, {"op": "drop", "ep": s}]
    st.append(sleep(13 * SEC))
    # second round: the slots must be reusable
    k = min(limit, 4)
    for i in range(k):
        st += [{"op": "accept", "sock": "B", "ep": f"t{i}"}, {"op": "connect", "sock": "A", "to": "B", "ep": f"d{i}"}]
    st += [{"op": "wait", "what": "connect", "timeout_us": 500000}]
    for i in range(k):
        st += [{"op": "read", "ep": f"t{i}"}, {"op": "write", "ep": f"d{i}", "n": 10 + i}, {"op": "shutdown", "ep": f"d{i}"}]
    st += [{"op": "wait", "what": "accept", "timeout_us": 500000}, {"op": "wait", "what": "read", "timeout_us": 20 * SEC}]
    for i in range(k):
        st += [{"op": "drop", "ep": f"t{i}"}, {"op": "drop", "ep": f"d{i}"}]
    st.append(sleep(13 * SEC))
    cls = "loss-free" if (limit >= n and not clash) else ""
    return script(f"{fam}/{idx}", seed * 43 + idx, socks, st, net={"latency_us": lat},
                  info={"family": fam, "class": cls, "limit": limit, "n": n, "order": order, "clash": clash,
                        "backlog": backlog_from_source()},
                  mute=["poll"])

def backlog_script(seed, idx, fam="backlog"):
    """More SYNs than the backlog holds, then accepts: FIFO order, bound, RESET for the excess."""
    rng = random.Random(seed * 1000003 + idx * 23 + 1)
    backlog = backlog_from_source()
    nsyn = backlog + rng.choice([0, 1, 5])
    socks = [sock("A", A_ADDR, rand=[500], link_mtu=576), sock("P", P_ADDR, raw=True)]
    st = []
    if rng.random() < 0.3:
        # whatever the socket sends back to this peer is refused by the transport (unroutable source, EPERM, ...):
        # the socket must carry on
        st.append({"op": "net_set", "from": "A", "to": "P", "emsgsize_above": 10})
    for i in range(nsyn):
        st.append(peer("syn", cid=1000 + 2 * i, seq=100 + i, to="A"))
        if rng.random() < 0.1:
            st.append(peer("syn", cid=1000 + 2 * i, seq=100 + i, to="A"))   # duplicate SYN
    st.append(sleep(5000))
    na = rng.choice([1, 5, backlog])
    for i in range(na):
        st.append({"op": "accept", "sock": "A", "ep": f"s{i}"})
    st += [{"op": "wait", "what": "accept", "timeout_us": 2 * SEC}, sleep(3 * SEC)]
    for i in range(na):
        st.append({"op": "drop", "ep": f"s{i}"})
    st.append(sleep(14 * SEC))
    return script(f"{fam}/{idx}", seed * 47 + idx, socks, st, net={"latency_us": 1000},
                  info={"family": fam, "backlog": backlog, "nsyn": nsyn}, mute=["poll"])

def accept_abandon_script(seed, idx, fam="backlog"):
    """Retained SYNs wait because the connection limit is reached; some of the waiting accept calls are given up;
    when room appears the oldest retained SYN must go to the oldest accept call that is still wanted."""
    rng = random.Random(seed * 1000003 + idx * 29 + 5)
    limit = rng.choice([1, 1, 2])
    socks = [sock("A", A_ADDR, rand=[500], link_mtu=576, limit=limit, max_retx=2, inactivity_ms=3000), sock("P", P_ADDR, raw=True)]
    st = []
    for i in range(limit):
        st += [{"op": "accept", "sock": "A", "ep": f"x{i}"}, peer("syn", cid=900 + 2 * i, seq=50 + i, to="A"),
               {"op": "wait", "what": "accept", "timeout_us": 1 * SEC}]
    nsyn = rng.choice([2, 3, 5])
    for i in range(nsyn):
        st.append(peer("syn", cid=1000 + 2 * i, seq=100 + i, to="A"))
    st.append(sleep(5000))
    na = rng.choice([3, 4, 6])
    dead = set(rng.sample(range(na), rng.choice([1, 1, 2])))
    if rng.random() < 0.7:
        dead.add(0)
    for i in range(na):
        st.append({"op": "accept", "sock": "A", "ep": f"s{i}"})
    for i in sorted(dead):
        st.append({"op": "abandon", "ep": f"s{i}"})
    # room appears: the first connections end (the peer is silent: FIN retransmissions run out)
    for i in range(limit):
        st += [{"op": "drop", "ep": f"x{i}"}, sleep(rng.choice([0, 4 * SEC]))]
    st += [sleep(8 * SEC)]
    for rnd in range(3):
        for i in range(na):
            if i not in dead:
                st.append({"op": "drop", "ep": f"s{i}"})
        st.append(sleep(8 * SEC))
    for i in range(na):
        st.append({"op": "abandon", "ep": f"s{i}"})
    st.append(sleep(14 * SEC))
    return script(f"{fam}/{idx}", seed * 53 + idx, socks, st, net={"latency_us": 1000},
                  info={"family": fam, "variant": "abandon", "backlog": backlog_from_source(), "limit": limit, "nsyn": nsyn,
                        "dead": sorted(dead)}, mute=["poll"])

# ------------------------------------------------------------------ hostile family (C10)
def hostile_script(seed, idx, fam="hostile"):
    """A legitimate conversation A<->B while the raw peer P throws hostile datagrams at A: malformed, truncated,
    absurd fields, acknowledging data never sent, selective ACKs of any length, types illegal in the current
    state, unknown connection ids."""
    rng = random.Random(seed * 1000003 + idx * 29 + 13)
    link = rng.choice([576, 1500])
    socks = [sock("A", A_ADDR, rand=[500, 1000, 3000], link_mtu=link, rx_buf=rng.choice([4096, 65536]), tx_max=rng.choice([4096, 65536])),
             sock("B", B_ADDR, rand=[20000, 2000, 4000], link_mtu=link),
             sock("P", P_ADDR, raw=True)]
    st = connect_steps(ea="x", eb="y")
    st += [{"op": "read", "ep": "x"}, {"op": "read", "ep": "y"}, {"op": "write", "ep": "x", "n": 3000}]
    # the hostile peer's own connection with A (so that its packets reach a live connection)
    mode = rng.choice(["passive", "active", "none"])
    if mode == "passive":
        st += [{"op": "accept", "sock": "A", "ep": "h"}, peer("syn", cid=rng.choice([300, 65535]), seq=rng.choice([7000, 65534]), to="A"),
               sleep(1100), peer("ack"), sleep(1100)]
    elif mode == "active":
        st += [{"op": "connect", "sock": "A", "to": "P", "ep": "h"}, sleep(1100), peer("synack", seq=rng.choice([9000, 65535])), sleep(1100)]
    if mode != "none":
        st += [{"op": "read", "ep": "h"}, {"op": "write", "ep": "h", "n": rng.choice([0, 1, 2000])}, sleep(1100)]
    def hostile_one():
        k = rng.random()
        if k < 0.12:
            n = rng.choice([0, 1, 5, 19, 20, 21, 40, 100])
            return peer("raw", bytes=[rng.randrange(256) for _ in range(n)], to="A")
        if k < 0.20:   # valid-looking header, broken version / type / extension chain
            b = [rng.choice([0x01, 0x21, 0x11, 0x31, 0x41, 0x51, 0xF1, 0x20, 0x22, 0x2F]), rng.choice([0, 1, 2, 3, 255])] + [rng.randrange(256) for _ in range(18)]
            b += [rng.choice([0, 1, 3, 255]), rng.choice([0, 1, 4, 8, 36, 255])] + [rng.randrange(256) for _ in range(rng.choice([0, 1, 4, 8, 36]))]
            return peer("raw", bytes=b, patch_cid=rng.random() < 0.7, patch_seq=rng.random() < 0.5, to="A")
        if k < 0.32:   # acknowledging data never sent / stale
            return peer("hdr", type=2, ack_rel=rng.choice([1, 2, 5, 1000, 30000, 40000, -1, -1000, -40000]), to="A")
        if k < 0.44:   # selective ACK of any length / any bits
            n = rng.choice([0, 1, 3, 4, 8, 9, 36, 40])
            bits = rng.choice([[255] * n, [0] * n, [rng.randrange(256) for _ in range(n)]])
            return peer("hdr", type=rng.choice([2, 2, 0, 1]), sack_bytes=bits, ack_rel=rng.choice([0, 0, -1, 3]),
                        plen=0, to="A")
        if k < 0.54:   # sequence numbers anywhere
            return peer("hdr", type=0, seq_rel=rng.choice([0, 1, 2, 63, 64, 65, 1000, 2000, 30000, -1, -5, -30000]),
                        plen=rng.choice([1, 100, 1400, 9000]), to="A")
        if k < 0.62:   # types illegal in the state
            return peer("hdr", type=rng.choice([4, 4, 3, 1]), seq_rel=rng.choice([0, 1, 5, -1]), ack_rel=rng.choice([0, 1, -1]), to="A")
        if k < 0.70:   # unknown connection ids
            return peer("hdr", type=rng.choice([0, 1, 2, 3]), cid_rel=rng.choice([1, -1, 2, 1000]), plen=0, to="A")
        if k < 0.76:
            return peer("fin", ahead=rng.choice([0, 1, 5, -1]), to="A")
        if k < 0.82:
            return peer("state_as_fin", to="A")
        if k < 0.90:   # payload on a non-data type / zero-length data
            return peer("hdr", type=rng.choice([2, 1, 3, 4]), plen=rng.choice([1, 100]), to="A")
        if k < 0.95:
            return peer("hdr", type=0, plen=0, to="A")
        return peer("reset", rel=rng.choice([0, 1, -1]), to="A")
    # (only when the hostile peer has no connection of its own with A: an established connection whose every datagram
    #  the local transport refuses is outside the properties' environment)
    flood_at = rng.choice([-1, -1, 3, 8]) if mode == "none" else -1
    for r in range(rng.choice([10, 30, 60])):
        if r == flood_at:
            # a SYN flood from a source the socket cannot answer (its transport refuses every datagram to it): the
            # backlog fills, the excess cannot even be refused - the socket and its other connections must carry on
            st.append({"op": "net_set", "from": "A", "to": "P", "emsgsize_above": 10})
            st += [peer("syn", cid=(40000 + 2 * i) % 65536, seq=(9000 + i) % 65536, to="A") for i in range(backlog_from_source() + 8)]
            st.append(sleep(1100))
        st.append(hostile_one())
        if rng.random() < 0.3:
            st.append(sleep(rng.choice([0, 500, 1100, 50000])))
        if r % 10 == 5:
            st += [{"op": "write", "ep": "x", "n": 2000}, {"op": "write", "ep": "y", "n": 500}]
        if mode != "none" and rng.random() < 0.1:
            st.append({"op": "write", "ep": "h", "n": rng.choice([1, 600])})
    # the socket must still serve connect / accept
    st += [{"op": "accept", "sock": "A", "ep": "z2"}, {"op": "connect", "sock": "B", "to": "A", "ep": "z1"},
           {"op": "wait", "ep": "z1", "what": "connect", "timeout_us": 2 * SEC},
           {"op": "write", "ep": "z1", "n": 10}, {"op": "read", "ep": "z2", "n": 10},
           {"op": "wait", "ep": "z2", "timeout_us": 5 * SEC},
           {"op": "flush", "ep": "x"}, {"op": "flush", "ep": "y"},
           {"op": "wait", "ep": "x", "what": "flush", "timeout_us": 30 * SEC},
           {"op": "wait", "ep": "y", "what": "flush", "timeout_us": 30 * SEC},
           {"op": "shutdown", "ep": "x"},
           {"op": "wait", "ep": "y", "what": "read", "timeout_us": 30 * SEC},
           {"op": "wait", "ep": "x", "what": "read", "timeout_us": 30 * SEC}]
    for e in ["x", "y", "z1", "z2"] + (["h"] if mode != "none" else []):
        st.append({"op": "drop", "ep": e})
    st.append(sleep(25 * SEC))
    return script(f"{fam}/{idx}", seed * 53 + idx, socks, st, net={"latency_us": 1000},
                  info={"family": fam, "mode": mode, "innocent": B_ADDR, "backlog": backlog_from_source()})

# ------------------------------------------------------------------ path-MTU family (C14)
def mtu_script(seed, idx, fam="mtu"):
    rng = random.Random(seed * 1000003 + idx * 31 + 17)
    v6 = rng.random() < 0.25
    link_a = rng.choice([1500, 1500, 1280 if v6 else 1000, 9000, 1492])
    link_b = rng.choice([link_a, link_a, 1500, 600 if not v6 else 1300])
    iphdr = 48 if v6 else 28
    floor = (1280 if v6 else 576) - iphdr           # datagram (UDP payload) size of the protocol minimum
    ceil_a = link_a - iphdr
    kind = rng.choice(["blackhole", "blackhole", "emsgsize", "none"])
    # true path limit for datagrams, between the protocol minimum and the link MTU
    path = rng.choice([floor, floor + 1, floor + 57, (floor + ceil_a) // 2, ceil_a - 1, ceil_a, rng.randrange(floor, max(floor + 1, ceil_a + 1))])
    path = max(floor, min(path, ceil_a))
    net = {"latency_us": rng.choice([1000, 10000])}
    st = connect_steps()
    if kind == "blackhole":
        st += [{"op": "net_set", "from": "A", "to": "B", "blackhole_above": path},
               {"op": "net_set", "from": "B", "to": "A", "blackhole_above": path}]
    elif kind == "emsgsize":
        st += [{"op": "net_set", "from": "A", "to": "B", "emsgsize_above": path},
               {"op": "net_set", "from": "B", "to": "A", "emsgsize_above": path}]
    # loss of non-probe packets: first transmissions of a few ordinary-size data segments
    for j in sorted(rng.sample(range(3, 120), rng.choice([0, 2, 6]))):
        st.append(rule(**{"from": "A", "type": "data", "seq_idx": j, "nth": 1, "max_len": floor, "act": "drop"}))
    n = rng.choice([3000, 60000, 400000])
    st += [{"op": "read", "ep": "b"}, {"op": "read", "ep": "a"},
           {"op": "write", "ep": "a", "n": n}, {"op": "write", "ep": "b", "n": rng.choice([0, 2000, 50000])},
           {"op": "flush", "ep": "a"}, {"op": "flush", "ep": "b"},
           {"op": "wait", "what": "write", "timeout_us": 300 * SEC}, {"op": "wait", "what": "flush", "timeout_us": 300 * SEC},
           {"op": "shutdown", "ep": "a"}, {"op": "wait", "what": "read", "timeout_us": 60 * SEC},
           {"op": "drop", "ep": "a"}, {"op": "drop", "ep": "b"}, sleep(15 * SEC)]
    aa, ba = (A6_ADDR, B6_ADDR) if v6 else (A_ADDR, B_ADDR)
    socks = [sock("A", aa, rand=[10, 100], link_mtu=link_a, probe_retx=rng.choice([0, 1, 1])),
             sock("B", ba, rand=[20, 200], link_mtu=link_b)]
    return script(f"{fam}/{idx}", seed * 59 + idx, socks, st, net=net,
                  info={"family": fam, "class": "fair-lossy", "kind": kind, "path_payload": (path - 20) if kind != "none" else 0,
                        "links": [link_a, link_b], "n": n, "v6": v6})

# ------------------------------------------------------------------ probe x loss x SACK x timeout interactions
def probe_loss(seed, idx, fam="probe_loss"):
    """The library sends data including MTU probes; the network loses chosen segments around the probe, the
    scripted peer reports exactly what it holds (cumulative + selective ACKs), stays silent across timeouts, and
    finally acknowledges everything."""
    rng = random.Random(seed * 1000003 + idx * 37 + 23)
    link = rng.choice([1500, 1500, 1000, 9000])
    lat = rng.choice([500, 1000])
    retx = rng.choice([0, 0, 1, 1, 2])
    opts = dict(link_mtu=link, probe_retx=retx, nagle=rng.random() < 0.5, max_retx=rng.choice([3, 5]))
    st = peer_open_active(lat, peer_isn=rng.choice([1000, 65530]), wnd=rng.choice([1 << 20, 1 << 20, 4000]))
    st.append({"op": "read", "ep": "a"})
    # the first probe is the second segment (528, then 528 + (ceiling-528)/2 + 1)
    ceiling = link - 48
    probe = 528 + (ceiling - 528) // 2 + 1
    total = rng.choice([528 + probe, 528 + probe, 528 + probe + 1, 528 + probe + 700, 3 * 528 + probe, 10000])
    lose = rng.choice([[0], [0], [1], [0, 1], [2], [0, 2], []])
    for j in lose:
        for n in range(1, rng.choice([2, 2, 3])):
            st.append(rule(**{"from": "A", "type": "data", "seq_idx": j, "nth": n, "act": "drop"}))
    paced = rng.random() < 0.5
    if paced:
        # short paced writes: the queue often ends with a probe while earlier segments are unacknowledged
        for j in sorted(rng.sample(range(0, 24), rng.choice([2, 4, 6]))):
            st.append(rule(**{"from": "A", "type": "data", "seq_idx": j, "nth": 1, "act": "drop"}))
        for _ in range(rng.choice([6, 12, 20])):
            st.append({"op": "write", "ep": "a", "n": rng.choice([300, 528, 600, 972, 1000, 1500, 2000])})
            st.append(sleep(rng.choice([lat + 10, 5000, 30000, 120000, 250000])))
            if rng.random() < 0.7:
                st.append(peer("ack", n=1))
    else:
        st.append({"op": "write", "ep": "a", "n": total, "chunk": rng.choice([total, 528, 100])})
    # few reports (no fast retransmit: the timeout has to repair the loss) or many
    for _ in range(rng.choice([1, 1, 1, 2, 4, 8])):
        st += [sleep(rng.choice([lat + 10, lat + 10, 5000, 50000])), peer("ack", n=rng.choice([1, 1, 1, 3]))]
    st += [sleep(rng.choice([250000, 450000, 900000, 2 * SEC]))]
    for _ in range(rng.choice([1, 3])):
        st += [peer("ack"), sleep(rng.choice([lat + 10, 300000, 700000]))]
    if rng.random() < 0.5:
        st.append({"op": "write", "ep": "a", "n": rng.choice([1, 600, 4000])})
    for _ in range(14):
        st += [sleep(rng.choice([lat + 10, 250000])), peer("ack", wnd=1 << 20)]
    st += [{"op": "flush", "ep": "a"}, {"op": "wait", "ep": "a", "what": "flush", "timeout_us": 20 * SEC},
           {"op": "drop", "ep": "a"}, sleep(lat + 10), peer("ack"), peer("fin"), sleep(lat + 10), peer("ack"), sleep(15 * SEC)]
    return peer_script(f"{fam}/{idx}", seed * 61 + idx, st, opts=opts, lat=lat,
                       rand=[rng.randrange(65536), rng.choice([1, 65534, rng.randrange(65536)])],
                       info={"link": link, "probe_retx": retx, "lose": lose, "total": total})

# ------------------------------------------------------------------ stale "stream ended" notification (C12, from MCSocket.tla)
def evict_script(seed, idx, fam="evict"):
    """The counterexample TLC found in MCSocket.tla (variant "stale_shutdown"), timed for the real dispatcher:
    connection X dies of remote inactivity at T; at the same instant a datagram for X's key and a new SYN re-using
    X's connection id arrive.  The dispatcher cleans X's entry up on delivery (dead receiver), accepts the new SYN
    under the same key, and then processes X's queued "ended" notification."""
    # (the runtime's timers have 1 ms granularity with an arbitrary phase: sweep the offset)
    offs = list(range(2_995_000, 2_999_000, 250))
    D = offs[idx % len(offs)]
    st = [{"op": "accept", "sock": "A", "ep": "x"},
          peer("syn", cid=300, seq=2000, to="A"),
          {"op": "wait", "what": "accept", "timeout_us": 1 * SEC},
          sleep(1010), peer("ack"), sleep(1010),
          {"op": "accept", "sock": "A", "ep": "y"},
          sleep(D),
          peer("ack"), peer("syn", cid=300, seq=5000, to="A"),
          sleep(1010), peer("ack"), sleep(500000),
          {"op": "read", "ep": "y"}, peer("data", len=100), sleep(100000), peer("ack"),
          sleep(1 * SEC), {"op": "drop", "ep": "x"}, {"op": "abandon", "ep": "y"}, {"op": "drop", "ep": "y"}, sleep(15 * SEC)]
    return peer_script(f"{fam}/{idx}", seed * 47 + idx, st, opts=dict(inactivity_ms=3000), lat=1000, rand=[10, 100, 200, 300],
                       info={"D": D})

# ------------------------------------------------------------------ zero window, lost re-opening ACK (C02)
def zwin_script(seed, idx, fam="zwin"):
    """The receiver's buffer fills (reader stopped), the sender still has data - cut into segments or not -, the
    reader resumes and the ACK that re-opens the window is lost a bounded number of times."""
    rng = random.Random(seed * 1000003 + idx * 37 + 13)
    link = rng.choice([576, 576, 1500, 300])
    mss = LINKS[link]
    rx = rng.choice([4 * mss, 4 * mss, 8 * mss, 2112])
    n = rx + rng.choice([1, mss, 3 * mss, 10 * mss, rx])
    lat = rng.choice([1000, 10000])
    gen = isn_pair(rng)
    st = connect_steps()
    st += [rule(**{"from": "B", "type": "state", "wnd_reopen": True, "act": "drop", "times": rng.choice([1, 1, 2])}),
           {"op": "read", "ep": "a"},
           {"op": "write", "ep": "a", "n": n, "chunk": rng.choice([65536, mss, 100])},
           sleep(rng.choice([300000, 1 * SEC, 3 * SEC])),
           {"op": "read", "ep": "b", "chunk": rng.choice([65536, 1000])},
           {"op": "flush", "ep": "a"},
           {"op": "wait", "what": "flush", "timeout_us": 60 * SEC},
           {"op": "shutdown", "ep": "a"},
           {"op": "wait", "what": "read", "timeout_us": 30 * SEC},
           {"op": "drop", "ep": "a"}, {"op": "drop", "ep": "b"}, sleep(15 * SEC)]
    socks = [sock("A", A_ADDR, rand=[gen(), gen()], link_mtu=link, nagle=rng.random() < 0.7),
             sock("B", B_ADDR, rand=[gen(), gen()], link_mtu=link, rx_buf=rx)]
    return script(f"{fam}/{idx}", seed * 61 + idx, socks, st, net={"latency_us": lat},
                  info={"family": fam, "class": "fair-lossy", "rx": rx, "n": n, "mss": mss})

# ------------------------------------------------------------------ socket-level corner cases with a scripted peer (C12, C13)
def _hdr_bytes(ty, cid, seq, ack, wnd=1 << 20):
    return [(ty << 4) | 1, 0, cid >> 8 & 255, cid & 255, 0, 0, 0, 0, 0, 0, 0, 0,
            wnd >> 24 & 255, wnd >> 16 & 255, wnd >> 8 & 255, wnd & 255, seq >> 8 & 255, seq & 255, ack >> 8 & 255, ack & 255]

def clash_pending_script(seed, idx, fam="sockpeer"):
    """Several connects to one peer are pending; they complete (or are given up) out of slot order; then the peer's
    own SYN arrives with the connection id a still-pending connect has reserved.  It must not be accepted under
    that id; the pending connect must still complete on its own SYN-ACK."""
    rng = random.Random(seed * 1000003 + idx * 41 + 17)
    cid0 = rng.choice([10, 65530, 2 * rng.randrange(50, 30000)])
    n = rng.choice([2, 2, 3, 4])
    isns = [1000 * (i + 1) for i in range(n)]
    cids = [(cid0 + 2 * i) % 65536 for i in range(n)]
    st = [{"op": "accept", "sock": "A", "ep": "s"}]
    for i in range(n):
        st.append({"op": "connect", "sock": "A", "to": "P", "ep": f"c{i}"})
    st.append(sleep(1010))
    order = list(range(n))
    rng.shuffle(order)
    victim = order[-1]                    # stays pending until the end
    for i in order[:-1]:
        if rng.random() < 0.7:
            st.append(peer("raw", bytes=_hdr_bytes(2, cids[i], 7000 + i, isns[i]), to="A"))      # its SYN-ACK
        else:
            st.append({"op": "abandon", "ep": f"c{i}"})
        st.append(sleep(1010))
    # the peer's own SYN: the library would receive on syn id + 1 = the victim's reserved id
    st += [peer("syn", cid=(cids[victim] - 1) % 65536, seq=5000, to="A"), sleep(1010),
           peer("raw", bytes=_hdr_bytes(2, cids[victim], 7000 + victim, isns[victim]), to="A"), sleep(1010),
           {"op": "wait", "what": "connect", "timeout_us": 2 * SEC}]
    for i in range(n):
        st += [{"op": "abandon", "ep": f"c{i}"}, {"op": "drop", "ep": f"c{i}"}]
    st += [{"op": "abandon", "ep": "s"}, {"op": "drop", "ep": "s"}, sleep(20 * SEC)]
    socks = [sock("A", A_ADDR, rand=[cid0] + isns + [9000, 9001], link_mtu=576, max_retx=2, inactivity_ms=3000),
             sock("P", P_ADDR, raw=True)]
    return script(f"{fam}/{idx}", seed * 67 + idx, socks, st, net={"latency_us": 1000},
                  info={"family": fam, "variant": "clash_pending", "n": n, "victim": victim, "backlog": backlog_from_source()},
                  mute=["poll"])

def dup_syn_live_script(seed, idx, fam="sockpeer"):
    """A SYN is seen again (network duplicate / retransmission) after its connection was accepted, while no accept
    call is waiting; the connection then ends; the next accept call must keep waiting (nobody else connected)."""
    rng = random.Random(seed * 1000003 + idx * 43 + 19)
    cid = rng.choice([300, 65535, 2 * rng.randrange(50, 30000)])
    st = [{"op": "accept", "sock": "A", "ep": "x"},
          peer("syn", cid=cid, seq=2000, to="A"),
          {"op": "wait", "what": "accept", "timeout_us": 1 * SEC},
          sleep(1010), peer("ack"), sleep(1010),
          {"op": "read", "ep": "x"}]
    for _ in range(rng.choice([1, 1, 3])):
        st += [peer("raw", bytes=_hdr_bytes(4, cid, 2000, 0, wnd=0), to="A"), sleep(rng.choice([1010, 50000]))]
    end = rng.choice(["reset", "reset", "drop"])
    if end == "reset":
        st += [peer("reset"), sleep(1010)]
    st += [{"op": "drop", "ep": "x"}, sleep(rng.choice([1010, 8 * SEC])),
           {"op": "accept", "sock": "A", "ep": "y"}, sleep(3 * SEC),
           {"op": "abandon", "ep": "y"}, {"op": "drop", "ep": "y"}, sleep(20 * SEC)]
    socks = [sock("A", A_ADDR, rand=[500, 100, 200, 300], link_mtu=576, max_retx=2, inactivity_ms=3000),
             sock("P", P_ADDR, raw=True)]
    return script(f"{fam}/{idx}", seed * 71 + idx, socks, st, net={"latency_us": 1000},
                  info={"family": fam, "variant": "dup_syn_live", "end": end, "backlog": backlog_from_source()}, mute=["poll"])

def backlog_clash_script(seed, idx, fam="sockpeer"):
    """A SYN waits in the backlog (nobody accepts); its connection id is the one the socket's next outgoing connect to
    the same peer takes; that connect completes; only then an accept call arrives.  The waiting SYN clashes with the
    live connection and must be dropped without touching it."""
    rng = random.Random(seed * 1000003 + idx * 53 + 31)
    cid0 = rng.choice([10, 65534, 2 * rng.randrange(50, 30000)])
    isn0 = 1000
    st = [peer("syn", cid=(cid0 - 1) % 65536, seq=5000, to="A"), sleep(1010)]
    if rng.random() < 0.5:      # other SYNs in front of / behind it
        st += [peer("syn", cid=20000, seq=5001, to="A"), sleep(1010)]
    st += [{"op": "connect", "sock": "A", "to": "P", "ep": "c0"}, sleep(1010),
           peer("raw", bytes=_hdr_bytes(2, cid0, 7000, isn0), to="A"), sleep(1010),
           {"op": "wait", "what": "connect", "timeout_us": 1 * SEC},
           {"op": "read", "ep": "c0"}, sleep(rng.choice([1010, 200000])),
           {"op": "accept", "sock": "A", "ep": "s"}, sleep(rng.choice([1010, 1 * SEC])),
           {"op": "accept", "sock": "A", "ep": "s2"}, sleep(2 * SEC),
           {"op": "drop", "ep": "c0"}, {"op": "abandon", "ep": "s"}, {"op": "drop", "ep": "s"},
           {"op": "abandon", "ep": "s2"}, {"op": "drop", "ep": "s2"}, sleep(20 * SEC)]
    socks = [sock("A", A_ADDR, rand=[cid0, isn0, 9000, 9001, 9002], link_mtu=576, max_retx=2, inactivity_ms=rng.choice([5000, 10000])),
             sock("P", P_ADDR, raw=True)]
    return script(f"{fam}/{idx}", seed * 79 + idx, socks, st, net={"latency_us": 1000},
                  info={"family": fam, "variant": "backlog_clash", "backlog": backlog_from_source()}, mute=["poll"])

def abandon_hole_script(seed, idx, fam="sockpeer"):
    """Three or four connects to one peer are pending; an older one completes (its slot becomes a hole below the
    others); the application gives up one of the newer ones; the remaining ones must still complete."""
    rng = random.Random(seed * 1000003 + idx * 59 + 37)
    cid0 = rng.choice([10, 65530, 2 * rng.randrange(50, 30000)])
    n = rng.choice([3, 3, 4])
    isns = [1000 * (i + 1) for i in range(n)]
    cids = [(cid0 + 2 * i) % 65536 for i in range(n)]
    st = [{"op": "connect", "sock": "A", "to": "P", "ep": f"c{i}"} for i in range(n)] + [sleep(1010)]
    first = rng.choice([0, 0, 1])
    st += [peer("raw", bytes=_hdr_bytes(2, cids[first], 7000 + first, isns[first]), to="A"), sleep(1010)]
    rest = [i for i in range(n) if i != first]
    gone = rng.choice([i for i in rest if i > first] or rest)
    st += [{"op": "abandon", "ep": f"c{gone}"}, sleep(1010)]
    for i in rest:
        if i != gone:
            st += [peer("raw", bytes=_hdr_bytes(2, cids[i], 7000 + i, isns[i]), to="A"), sleep(1010)]
    st += [{"op": "wait", "what": "connect", "timeout_us": 2 * SEC}]
    for i in range(n):
        st += [{"op": "abandon", "ep": f"c{i}"}, {"op": "drop", "ep": f"c{i}"}]
    st.append(sleep(20 * SEC))
    socks = [sock("A", A_ADDR, rand=[cid0] + isns + [9000, 9001], link_mtu=576, max_retx=2, inactivity_ms=3000),
             sock("P", P_ADDR, raw=True)]
    return script(f"{fam}/{idx}", seed * 83 + idx, socks, st, net={"latency_us": 1000},
                  info={"family": fam, "variant": "abandon_hole", "n": n, "first": first, "gone": gone,
                        "backlog": backlog_from_source()}, mute=["poll"])

def accept_race_script(seed, idx, fam="sockpeer"):
    """An accept call is registered with the dispatcher, a SYN is matched with it, and the application lets the call
    go before it runs again (the losing branch of a select!, a timeout): the connection that was created for it never
    runs; its table entry and its share of the limit must come back."""
    rng = random.Random(seed * 1000003 + idx * 67 + 43)
    limit = rng.choice([1, 1, 2])
    cid = rng.choice([300, 65535, 2 * rng.randrange(50, 30000)])
    st = [{"op": "accept_held", "sock": "A", "ep": "h"}, sleep(1010),
          peer("syn", cid=cid, seq=2000, to="A"), sleep(rng.choice([1010, 5000])),
          {"op": "accept_held_drop", "ep": "h"}, sleep(rng.choice([1010, 2 * SEC]))]
    # the slot must be usable again
    for j in range(limit):
        st += [{"op": "accept", "sock": "A", "ep": f"s{j}"},
               peer("syn", cid=(cid + 100 + 2 * j) % 65536, seq=4000 + j, to="A"), sleep(1010)]
    st += [{"op": "wait", "what": "accept", "timeout_us": 2 * SEC}]
    for j in range(limit):
        st += [{"op": "abandon", "ep": f"s{j}"}, {"op": "drop", "ep": f"s{j}"}]
    st.append(sleep(20 * SEC))
    socks = [sock("A", A_ADDR, rand=[500, 100, 200, 300], link_mtu=576, limit=limit, max_retx=2, inactivity_ms=3000),
             sock("P", P_ADDR, raw=True)]
    return script(f"{fam}/{idx}", seed * 97 + idx, socks, st, net={"latency_us": 1000},
                  info={"family": fam, "variant": "accept_race", "limit": limit, "backlog": backlog_from_source()}, mute=["poll"])

def accept_vs_syn_script(seed, idx, fam="sockpeer"):
    """Connection requests wait in the backlog (no accept call); then an accept call is registered and a NEW request
    arrives before the dispatcher task runs again (`together`: both are ready in one poll of its select!, which serves
    either first).  The waiting requests go first: the accept call gets the oldest one."""
    rng = random.Random(seed * 1000003 + idx * 71 + 47)
    nold = rng.choice([1, 1, 2, 3])
    cid = rng.choice([300, 65531, 2 * rng.randrange(50, 30000)])
    st = []
    for j in range(nold):
        st += [peer("syn", cid=(cid + 2 * j) % 65536, seq=2000 + j, to="A"), sleep(rng.choice([1010, 3000]))]
    st += [{"op": "net_set", "from": "P", "to": "A", "latency_us": 0}]
    order = rng.random() < 0.5
    late = peer("syn", cid=(cid + 100) % 65536, seq=3000, to="A")
    acc = {"op": "accept", "sock": "A", "ep": "x0"}
    st += [{"op": "together"}] + ([acc, late] if order else [late, acc])
    st += [{"op": "wait", "what": "accept", "timeout_us": 1 * SEC}, sleep(2000)]
    for j in range(nold):
        st += [{"op": "accept", "sock": "A", "ep": f"x{j + 1}"}, {"op": "wait", "what": "accept", "timeout_us": 1 * SEC}]
    for j in range(nold + 1):
        st += [{"op": "abandon", "ep": f"x{j}"}, {"op": "drop", "ep": f"x{j}"}]
    st.append(sleep(20 * SEC))
    socks = [sock("A", A_ADDR, rand=[500, 100, 200, 300, 400, 600], link_mtu=576, max_retx=2, inactivity_ms=3000),
             sock("P", P_ADDR, raw=True)]
    return script(f"{fam}/{idx}", seed * 101 + idx, socks, st, net={"latency_us": 1000},
                  info={"family": fam, "variant": "accept_vs_syn", "nold": nold, "backlog": backlog_from_source()}, mute=["poll"])

def id_walk_script(seed, idx, fam="sockpeer"):
    """The ids the socket's counter would hand out next are taken: by connections the peer opened with adjacent ids
    (one to seven in a row, some with a gap) and by the socket's own pending connects.  The next connect walks past all
    of them; the id it announces in its SYN is in use by nobody, and its SYN-ACK reaches it and nobody else."""
    rng = random.Random(seed * 1000003 + idx * 73 + 53)
    cid0 = rng.choice([10, 65526, 65534, 2 * rng.randrange(50, 30000)])
    npend = rng.choice([0, 0, 1, 2])
    k = [5, 6, 7, 1, 3, 4, 2][(idx // 8) % 7]
    # (no gap inside the row: an incoming connection directly above a free id sends with that id + 1, which is also what
    #  an outgoing connection on the free id sends with - the two are indistinguishable on the wire, a property of the
    #  protocol's id scheme that a real peer resolves by ignoring the clashing SYN)
    gap_at = None
    st = []
    for i in range(npend):
        st.append({"op": "connect", "sock": "A", "to": "P", "ep": f"p{i}"})
    st.append(sleep(1010))
    base = (cid0 + 2 * npend) % 65536                 # where the counter stands now
    taken = [(base + 2 * j + (2 if gap_at is not None and j >= gap_at else 0)) % 65536 for j in range(k)]
    for j, c in enumerate(taken):
        st += [{"op": "accept", "sock": "A", "ep": f"s{j}"}, peer("syn", cid=(c - 1) % 65536, seq=4000 + j, to="A"), sleep(1010)]
    st += [{"op": "wait", "what": "accept", "timeout_us": 1 * SEC}]
    free = base
    while free in taken:
        free = (free + 2) % 65536
    synseq = 9000
    st += [{"op": "connect", "sock": "A", "to": "P", "ep": "c"}, sleep(1010),
           peer("raw", bytes=_hdr_bytes(2, free, 7000, synseq), to="A"), sleep(1010),
           {"op": "wait", "what": "connect", "timeout_us": 1 * SEC}]
    for i in range(npend):
        st += [{"op": "abandon", "ep": f"p{i}"}, {"op": "drop", "ep": f"p{i}"}]
    for j in range(k):
        st += [{"op": "abandon", "ep": f"s{j}"}, {"op": "drop", "ep": f"s{j}"}]
    st += [{"op": "abandon", "ep": "c"}, {"op": "drop", "ep": "c"}, sleep(20 * SEC)]
    rand = [cid0] + [1000 * (i + 1) for i in range(npend)] + [100 * (j + 1) for j in range(k)] + [synseq, 9001, 9002]
    socks = [sock("A", A_ADDR, rand=rand, link_mtu=576, max_retx=2, inactivity_ms=3000), sock("P", P_ADDR, raw=True)]
    return script(f"{fam}/{idx}", seed * 103 + idx, socks, st, net={"latency_us": 1000},
                  info={"family": fam, "variant": "id_walk", "k": k, "npend": npend, "backlog": backlog_from_source()}, mute=["poll"])

def same_syn_seq_script(seed, idx, fam="sockpeer"):
    """Two (or three) connects to one peer are pending and their SYNs happen to carry the same sequence number (independent
    16-bit draws); the SYN-ACKs arrive in another order than the SYNs left.  Whichever caller gets which connection, every
    connection is registered under the id it receives on, and later datagrams reach the connection they name."""
    rng = random.Random(seed * 1000003 + idx * 79 + 61)
    cid0 = rng.choice([10, 65534, 2 * rng.randrange(50, 30000)])
    n = rng.choice([2, 2, 3])
    cids = [(cid0 + 2 * i) % 65536 for i in range(n)]
    isn = rng.choice([1000, 65535, 0])
    st = [{"op": "connect", "sock": "A", "to": "P", "ep": f"c{i}"} for i in range(n)] + [sleep(1010)]
    order = list(range(n))
    while order == sorted(order):
        rng.shuffle(order)
    for i in order:
        st += [peer("raw", bytes=_hdr_bytes(2, cids[i], 7000 + 100 * i, isn), to="A"), sleep(rng.choice([1010, 20000]))]
    st += [{"op": "wait", "what": "connect", "timeout_us": 1 * SEC}]
    for i in range(n):          # a window update on every connection
        st += [peer("raw", bytes=_hdr_bytes(2, cids[i], 7000 + 100 * i, isn, wnd=50000 + i), to="A"), sleep(1010)]
    for i in range(n):
        st += [{"op": "abandon", "ep": f"c{i}"}, {"op": "drop", "ep": f"c{i}"}]
    st.append(sleep(20 * SEC))
    socks = [sock("A", A_ADDR, rand=[cid0] + [isn] * n + [9000, 9001], link_mtu=576, max_retx=2, inactivity_ms=3000),
             sock("P", P_ADDR, raw=True)]
    return script(f"{fam}/{idx}", seed * 107 + idx, socks, st, net={"latency_us": 1000},
                  info={"family": fam, "variant": "same_syn_seq", "n": n, "backlog": backlog_from_source()}, mute=["poll"])

def sockpeer_script(seed, idx, fam="sockpeer"):
    return [clash_pending_script, dup_syn_live_script, backlog_clash_script, abandon_hole_script,
            accept_race_script, accept_vs_syn_script, id_walk_script, same_syn_seq_script][idx % 8](seed, idx, fam)

# ------------------------------------------------------------------ a delayed (not lost) MTU probe behind a lost segment (C01, C06)
def probe_delay_script(seed, idx, fam="probe_delay"):
    """Jumbo link: the first probe (several segments large) is sent once the congestion window allows it; the segment
    in front of it is lost, the probe itself is only delayed.  The timeout collapses the window below the probe's size
    while the probe is still on its way."""
    rng = random.Random(seed * 1000003 + idx * 47 + 29)
    link = rng.choice([9000, 9000, 4000])
    lat = 50000
    # (with these options the first probe is the 37th segment; a loss 0-3 segments in front of it and a delay of about
    #  two retransmission timeouts make the timeout fall while the probe is on its way: those combinations come first)
    drop_idx = [33, 34, 35, 36, 32, 37, 31, 38, 30, 39, 40, 41][idx % 12]
    delay = [400000, 300000, 500000, 200000, 700000][(idx // 12) % 5]
    rules = [rule(**{"from": "A", "type": "data", "seq_idx": drop_idx, "nth": 1, "act": "drop"}),
             rule(**{"from": "A", "type": "data", "min_len": 1000, "act": "delay", "delay_us": delay, "times": 1})]
    gen = isn_pair(rng)
    return transfer(f"{fam}/{idx}", seed * 73 + idx, n_ab=rng.choice([60000, 200000]), chunk_w=65536, chunk_r=65536,
                    # (a small ring: data is cut into segments as acknowledgements make room, so that a probe turn comes
                    #  up when the congestion window has grown past the probe's size)
                    opts_a=dict(link_mtu=link, tx_init=16384, tx_max=rng.choice([16384, 32768])), opts_b=dict(link_mtu=link),
                    net={"latency_us": lat}, rules=rules, rand_a=[gen(), gen()], rand_b=[gen(), gen()],
                    info={"class": "fair-lossy", "link": link, "drop_idx": drop_idx, "delay": delay})

# ------------------------------------------------------------------ a peer that keeps talking to a closed connection (C08)
def flood_after_close_script(seed, idx, fam="flood_close"):
    """The application lets the stream go; the peer acknowledges the FIN, never sends its own, and keeps sending new data
    (ignoring the window) for much longer than any timer: the connection must still end in bounded time."""
    rng = random.Random(seed * 1000003 + idx * 61 + 41)
    link = rng.choice([576, 1500])
    mss = LINKS[link]
    lat = 1000
    rx = rng.choice([2 * mss, 4 * mss, 8 * mss])
    st = peer_open_passive(lat, cid=rng.choice([300, 65535]), peer_isn=rng.choice([2000, 65533]), establish=True) \
        if rng.random() < 0.5 else peer_open_active(lat, peer_isn=rng.choice([1000, 65532]))
    if rng.random() < 0.5:
        st += [{"op": "write", "ep": "a", "n": rng.choice([1, 600])}, sleep(lat + 10), peer("ack"), sleep(lat + 10)]
    closer = rng.choice(["drop", "drop", "shutdown_drop_r"])
    if closer == "drop":
        st += [{"op": "drop", "ep": "a"}]
    else:
        st += [{"op": "shutdown", "ep": "a"}, {"op": "drop_r", "ep": "a"}]
    st += [sleep(lat + 10), peer("ack"), sleep(lat + 10)]
    gap = rng.choice([300000, 500000, 800000])
    for _ in range(int(40 * SEC / gap)):
        st += [peer("data", len=rng.choice([mss, 100])), sleep(gap)]
    st += [{"op": "drop", "ep": "a"}, sleep(25 * SEC)]
    return peer_script(f"{fam}/{idx}", seed * 89 + idx, st, opts=dict(link_mtu=link, rx_buf=rx, inactivity_ms=3000), lat=lat,
                       rand=[rng.randrange(65536), rng.choice([1, 65534, rng.randrange(65536)]), rng.randrange(65536)],
                       info={"rx": rx, "gap": gap, "closer": closer})
