"""Scenario (script) builders for the drivers.  A script is a JSON object {cfg, steps} executed by
harness/src/driver.rs.  Generators are deterministic functions of their seed."""
import random

A_ADDR = "127.0.0.1:1"
B_ADDR = "127.0.0.1:2"
A6_ADDR = "[::1]:1"
B6_ADDR = "[::1]:2"
SEC = 1_000_000

def sock(name, addr, rand=None, raw=False, **opts):
    d = {"name": name, "addr": addr, "rand": rand or [], "opts": {k: v for k, v in opts.items() if v is not None}}
    if raw:
        d["raw"] = True
    return d

def script(name, seed, socks, steps, net=None, info=None, mute=None):
    return {"cfg": {"name": name, "seed": seed, "net": net or {"latency_us": 10000}, "socks": socks,
                    "info": info or {"family": name.split("/")[0]}, "mute": mute or []},
            "steps": steps}

def connect_steps(a="A", b="B", ea="a", eb="b", timeout=2 * SEC):
    return [{"op": "accept", "sock": b, "ep": eb},
            {"op": "connect", "sock": a, "to": b, "ep": ea},
            {"op": "wait", "what": "connect", "timeout_us": timeout},
            {"op": "wait", "what": "accept", "timeout_us": timeout}]

def rule(**kw):
    d = {"op": "rule"}
    d.update(kw)
    return d

def isn_pair(rng, near_wrap=None):
    """(conn id seed, isn) values for random_u16: [next_connection_id at socket creation, ISN...]."""
    if near_wrap is None:
        near_wrap = rng.random() < 0.4
    def one():
        if near_wrap:
            return rng.choice([65535, 65534, 65530, 65500, 65000, 64600, 0, 1])
        return rng.randrange(0, 65536)
    return one

# ---------------------------------------------------------------------------------------------
def transfer(name, seed, *, n_ab=20000, n_ba=0, chunk_w=None, chunk_r=None, opts_a=None, opts_b=None,
             net=None, rules=None, v6=False, rand_a=None, rand_b=None, close="shutdown", reader_pause_us=0,
             settle_us=15 * SEC, wait_us=120 * SEC, info=None, pre_steps=None, extra_steps=None, mute=None):
    """Two real endpoints; A connects to B, A writes n_ab, B writes n_ba, both read to the end, then close."""
    aa, ba = (A6_ADDR, B6_ADDR) if v6 else (A_ADDR, B_ADDR)
    socks = [sock("A", aa, rand=rand_a, **(opts_a or {})), sock("B", ba, rand=rand_b, **(opts_b or {}))]
    st = list(pre_steps or [])
    st += connect_steps()
    for r in (rules or []):
        st.append(r)
    if reader_pause_us == 0:
        st.append({"op": "read", "ep": "b", "chunk": chunk_r or 65536})
        st.append({"op": "read", "ep": "a", "chunk": chunk_r or 65536})
    if n_ab:
        st.append({"op": "write", "ep": "a", "n": n_ab, "chunk": chunk_w or 65536})
    if n_ba:
        st.append({"op": "write", "ep": "b", "n": n_ba, "chunk": chunk_w or 65536})
    if reader_pause_us:
        st.append({"op": "sleep", "us": reader_pause_us})
        st.append({"op": "read", "ep": "b", "chunk": chunk_r or 65536})
        st.append({"op": "read", "ep": "a", "chunk": chunk_r or 65536})
    st += list(extra_steps or [])
    # In this implementation a FIN closes both directions (a received FIN fails the local writer),
    # so both sides finish and flush their data before anyone closes.
    st.append({"op": "flush", "ep": "a"})
    st.append({"op": "flush", "ep": "b"})
    st.append({"op": "wait", "what": "write", "timeout_us": wait_us})
    st.append({"op": "wait", "what": "flush", "timeout_us": wait_us})
    if close == "shutdown":
        st.append({"op": "shutdown", "ep": "a"})
        st.append({"op": "wait", "what": "shutdown", "timeout_us": wait_us})
        st.append({"op": "wait", "what": "read", "timeout_us": wait_us})
    st.append({"op": "drop", "ep": "a"})
    st.append({"op": "drop", "ep": "b"})
    st.append({"op": "sleep", "us": settle_us})
    inf = {"family": name.split("/")[0]}
    inf.update(info or {})
    return script(name, seed, socks, st, net=net, info=inf, mute=mute)

def random_transfer(seed, idx, fam="xfer", lossy=True, sizes=(1, 200000), allow_probe_blackhole=False):
    """A randomly configured transfer under a fair-lossy network."""
    rng = random.Random(seed * 1000003 + idx)
    link = rng.choice([148, 300, 576, 1000, 1280, 1500, 1500, 1500])
    v6 = rng.random() < 0.15 and link >= 1280
    rx = rng.choice([2048, 4096, 16384, 65536, 1 << 20])
    tx_init = rng.choice([1024, 4096, 32768, 1 << 20])
    tx_max = rng.choice([tx_init, 4 * tx_init, 1 << 20])
    nagle = rng.random() < 0.7
    mtu_min = 68 if not v6 else 88
    if link < 100:
        link = 148
    n_ab = rng.randrange(sizes[0], sizes[1])
    n_ba = rng.choice([0, 0, rng.randrange(sizes[0], sizes[1])])
    lat = rng.choice([1000, 10000, 50000])
    net = {"latency_us": lat, "spacing_us": rng.choice([0, 0, 20, 200])}
    if lossy:
        net.update({"loss_pm": rng.choice([0, 10, 30, 100]), "dup_pm": rng.choice([0, 0, 20]),
                    "reorder_pm": rng.choice([0, 0, 50]), "reorder_delay_us": rng.choice([500, 5000, 30000]),
                    "loss_budget": 2})
    gen = isn_pair(rng)
    opts = dict(link_mtu=link, rx_buf=rx, tx_init=tx_init, tx_max=tx_max, nagle=nagle)
    optsb = dict(link_mtu=link, rx_buf=rng.choice([rx, 4096, 65536]), tx_init=tx_init, tx_max=tx_max, nagle=nagle)
    chunk_w = rng.choice([1, 7, 100, 1000, 4096, 65536]) if n_ab < 30000 else rng.choice([1000, 4096, 65536])
    chunk_r = rng.choice([1, 10, 333, 65536, 65536]) if n_ab < 20000 else rng.choice([2000, 65536])
    return transfer(f"{fam}/{idx}", seed * 7919 + idx, n_ab=n_ab, n_ba=n_ba, chunk_w=chunk_w, chunk_r=chunk_r,
                    opts_a=opts, opts_b=optsb, net=net, v6=v6,
                    rand_a=[gen(), gen()], rand_b=[gen(), gen()],
                    info={"lossy": lossy, "link": link, "rx": rx, "tx": [tx_init, tx_max], "nagle": nagle,
                          "class": "fair-lossy" if lossy else "loss-free"})
