"""C09  "Behaviour invariant under initial sequence numbers (16-bit wrap safety)" - ARITHMETIC clause:
"Ordering and distance of two sequence numbers agree with true modular distance for every distance the
configured windows allow."  Quantifier: all pairs of 16-bit values.
(src/utils.rs seq_nr_offset, src/seq_nr.rs SeqNr, src/constants.rs WRAP_TOLERANCE)

  The tolerance: W = 32767 = M/2 - 1 (hard-wired in the cfgs): W must be at least the largest window in packets
  the configuration allows, and 32767 is the largest tolerance 16-bit arithmetic admits (the lemmas need 2W < M).
  The former WRAP_TOLERANCE = 1024 was the defect D8 (fixed in /repo); it is kept as documentation (smallest
  misordered pair) and as a second table for seq_nr_offset(a, b, 1024) as a pure function.

  1. TLC on MCSeq (spec/SeqArith.tla: Offset = transcription of seq_nr_offset, Dist = ideal signed modular
     distance):
       MCSeq_h64, MCSeq_h256   scaled, tolerance M/2 - 1: (M, W) = (64, 31), (256, 127): ALL pairs, every lemma a
                               named invariant (OffsetAgrees, ClosedForm, DependsOnDLt, Antisym, ZeroIffEqual,
                               OrdAgrees, OrdIsPlainBeyond, OrdInvertedAcrossWrap, OrdTotalAtMaxTolerance,
                               AddSubWrap, WindowOrder, NegativeWitness);
       MCSeq_s64, MCSeq_s256   scaled, SMALL tolerance (64, 4), (256, 16): the same; misordered pairs exist (the
                               class of D8), NegativeWitness prints the smallest;
       MCSeq_quick             REAL M = 65536, W = 32767: a boundary-dense subset of ~7k a's against the b's at a
                               boundary-dense set of signed distances (0..16, around 1024, around the antipode,
                               powers of two +-1, multiples of 1024 +-1) + far b's; emits the complete (d, lt)
                               tables (W and 1024; 131072 entries each) and the replay cases;
       MCSeq (thorough only)   the same for ALL 65536 a's, wider clusters, DependsOnDLt on every pair.
     NegativeWitness: with W = M/2 - 1 the only distance beyond the tolerance is the antipode |Dist| = 32768
     (ambiguous; tie broken by integer order, antisymmetric) and no pair with an unambiguous order is misordered;
     for the former tolerance 1024 the smallest misordered pair (0, 64511) is printed as documentation.
  2. spec -> impl: unit_seq `table` compares seq_nr_offset(a, b, 32767), seq_nr_offset(a, b, 1024) and SeqNr (Sub,
     Ord, PartialOrd, the comparison operators, Eq, + / - / += / -= u16; bound to the W = 32767 table) with the
     tables on ALL 2^32 pairs (thorough) or on ~7.5k boundary-dense + seeded a's against all b (quick):
     C09.TableEqual, C09.OrdConsistent, C09.WrapAddSub; unit_seq `replay` executes the TLC-generated boundary
     cases (every tolerance of the record mode, and the tolerance constant itself).
  3. impl -> spec: unit_seq `record` (seeded random + boundary pairs, tolerances {0,1,2,1023,1024,1025,32767,
     32768,65535}, SeqNr pairs, and a walking SeqNr with a ghost true distance); SeqTrace validates every line:
     C09.OffsetAgreesImpl, C09.DistAgrees, C09.OrdConsistent, C09.GhostAgrees, C09.WrapAddSub, C09.ToleranceIsW.
  Extra (never deciding): Apalache discharges all lemmas of (1), for both tolerances, symbolically for all 2^32
  pairs (SeqArithApa) and refutes "the order is always modular" for the former tolerance 1024.

  The metamorphic trace-shift part of C09 is `metamorphic_part` (filled in elsewhere).
"""
import json, os, re, shutil, time
from concurrent.futures import ThreadPoolExecutor
from . import core
from .core import log

PID = "C09"
SCRATCH = os.path.join(core.OUT, "c09")
# the driver crate; VERIF_UNIT_DIR points the check at a scratch copy (mutation testing only)
UNIT = os.environ.get("VERIF_UNIT_DIR") or os.path.join(core.ROOT, "unit")
BIN = os.path.join(UNIT, "target", "debug", "unit_seq")

M, W = 65536, 32767
OLD_W = 1024      # the former WRAP_TOLERANCE (defect D8): documentation + second table only
TABLE_RULES = ["C09.TableEqual", "C09.OrdConsistent", "C09.WrapAddSub", "C09.NoPanic"]
OP_RULE = {"offset": "C09.TableEqual", "sub": "C09.OrdConsistent", "cmp": "C09.OrdConsistent",
           "add": "C09.WrapAddSub", "subk": "C09.WrapAddSub", "tolerance": "C09.ToleranceIsW"}
REQUIRED = ["C09.ShiftEqual", "C09.SameLength", "C09.TableEqual", "C09.OrdConsistent", "C09.WrapAddSub", "C09.OffsetAgreesImpl", "C09.DistAgrees",
            "C09.GhostAgrees", "C09.ToleranceIsW"]


# ------------------------------------------------------------------------------------------ helpers
def _build():
    p = core.sh(["cargo", "build", "--offline", "--bin", "unit_seq"], cwd=UNIT, timeout=1800, check=False)
    if p.returncode != 0:
        raise core.ToolError("unit_seq build failed:\n" + p.stdout[-4000:])


def _bin(args, timeout=900):
    p = core.sh([BIN] + [str(a) for a in args], timeout=timeout, check=False)
    if p.returncode != 0:
        raise core.ToolError(f"unit_seq {args[0]} failed ({p.returncode}):\n{p.stdout[-2000:]}")
    return p.stdout


def _tlc_model_nocov(cfg, env_extra, timeout, workers=None, xmx="8g"):
    """core.tlc_model without `-coverage 1`: on the real instance (65536 states, ~2100 pairs evaluated in the
    invariant of each) the coverage counters cost a factor > 8 with 16 workers.  The same module is run with
    coverage by the scaled instances first (one action, one Next disjunct)."""
    tag = "mc_" + cfg
    md = os.path.join(core.OUT, "tlc", tag)
    shutil.rmtree(md, ignore_errors=True)
    os.makedirs(md, exist_ok=True)
    env = {"JAVA_TOOL_OPTIONS": f"-Xss512m -Xmx{xmx}"}
    env.update(env_extra or {})
    cmd = ["timeout", str(timeout), "tlc", "-workers", str(workers or core.NCPU), "-metadir", md, "-cleanup",
           "-noGenerateSpecTE", "-config", os.path.join(core.SPEC, cfg + ".cfg"), os.path.join(core.SPEC, "MCSeq.tla")]
    t0 = time.time()
    p = core.sh(cmd, cwd=md, env=env, check=False, timeout=timeout + 30)
    out = p.stdout
    shutil.rmtree(md, ignore_errors=True)
    res = {"spec": "MCSeq", "cfg": cfg, "wall_s": time.time() - t0, "rc": p.returncode, "out": out, "never": []}
    m = re.search(r"(\d+) states generated, (\d+) distinct states found", out)
    if m:
        res["transitions"], res["states"] = int(m.group(1)), int(m.group(2))
    m = re.search(r"depth of the complete state graph search is (\d+)", out)
    if m:
        res["depth"] = int(m.group(1))
    if p.returncode == 124:
        res["timeout"] = True
    if not (p.returncode == 0 and "No error has been found" in out):
        tail = "\n".join(l for l in out.splitlines()
                         if not l.startswith(("Picked up", "TLC2", "Parsing", "Semantic", "Linting")))[-4000:]
        raise core.ToolError(f"model MCSeq/{cfg} did not pass (exit {p.returncode}):\n{tail}")
    return res


def _negative(out, tag="NEGATIVE"):
    m = re.search(r'<<"%s", "(.*)">>' % tag, out)
    if not m:
        return None
    return json.loads(json.loads('"' + m.group(1) + '"'))


def _apalache():
    """Extra evidence: all lemmas for all 2^32 pairs symbolically; and the method's sanity (a false lemma is refuted)."""
    od = os.path.join(SCRATCH, "apalache")
    shutil.rmtree(od, ignore_errors=True)
    os.makedirs(od, exist_ok=True)
    res = {}
    for inv, key in (("Lemmas", "lemmas_all_pairs"), ("OrdAlwaysModularOld", "false_lemma_sanity_old_tolerance_1024")):
        t0 = time.time()
        try:
            p = core.sh(["timeout", "120", "apalache-mc", "check", f"--out-dir={od}", "--length=0", "--init=Init",
                         "--next=Next", f"--inv={inv}", os.path.join(core.SPEC, "SeqArithApa.tla")],
                        cwd=od, check=False, timeout=150)
            m = re.search(r"The outcome is: (\w+)", p.stdout)
            res[key] = {"outcome": m.group(1) if m else f"no outcome (exit {p.returncode})",
                        "wall_s": round(time.time() - t0, 1)}
        except Exception as e:  # never deciding
            res[key] = {"outcome": f"not run: {e}"[:200]}
    shutil.rmtree(od, ignore_errors=True)
    return res


def _case_key(c):
    return f"{c['op']}:{c['a']}:{c['b']}:{c['w']}"


def _replay_cases(cases, tag):
    """Run cases {op, a, b, w, exp} on the real code; returns list of (case, answer-line) that disagree."""
    cp = os.path.join(SCRATCH, f"{tag}.cases.ndjson")
    ap = os.path.join(SCRATCH, f"{tag}.answers.ndjson")
    with open(cp, "w") as f:
        for c in cases:
            f.write(json.dumps(c) + "\n")
    _bin(["replay", cp, ap])
    ans = [json.loads(l) for l in open(ap) if l.strip()]
    if len(ans) != len(cases):
        raise core.ToolError(f"unit_seq replay answered {len(ans)} of {len(cases)} cases")
    bad = []
    for c, a in zip(cases, ans):
        if (a["op"], a["a"], a["b"], a["w"]) != (c["op"], c["a"], c["b"], c["w"]):
            raise core.ToolError(f"unit_seq replay answers out of step at {a} vs {c}")
        if a.get("panic") or a["r"] != c["exp"]:
            bad.append((c, a))
    return bad, ap


def _line_to_case(line, ctx):
    """A recorded line + the specification's expectation (ctx "exp=..") as a replayable case."""
    try:
        r = json.loads(line)
        exp = int(re.match(r"exp=(-?\d+)", ctx).group(1))
        op = r.get("op")
        if op == "start":
            return {"op": "tolerance", "a": 0, "b": 0, "w": W, "exp": exp}
        if op == "offset":
            return {"op": "offset", "a": r["a"], "b": r["b"], "w": r["w"], "exp": exp}
        if op in ("pair", "dist"):
            return {"op": "sub", "a": r["a"], "b": r["b"], "w": W, "exp": exp}
        if op == "fwd":
            return {"op": "add", "a": (exp - r["k"]) % M, "b": r["k"], "w": W, "exp": exp}
        if op == "back":
            return {"op": "subk", "a": (exp + r["k"]) % M, "b": r["k"], "w": W, "exp": exp}
    except Exception:
        pass
    return None


# ------------------------------------------------------------------------------------------ hook
def _shift_scripts(tier, seed):
    """Scripts for the metamorphic part and the ISN / connection-id bases to run each of them with."""
    import random
    from . import scen
    rng = random.Random(seed * 7 + 3)
    out = []
    n = 6 if tier == "quick" else 40
    for i in range(n):
        sc = scen.random_transfer(seed, 500 + i, fam="shift", lossy=(i % 2 == 0), sizes=(2000, 120000))
        out.append(sc)
    # long transfers whose flight spans more than 1024 segments across the wrap (the D8 shape)
    big = 3_500_000 if tier == "quick" else 8_000_000
    out.append(scen.transfer("shift/big", seed, n_ab=big, chunk_w=65536, chunk_r=65536,
                             opts_a=dict(link_mtu=576, tx_init=1 << 20, tx_max=1 << 20), opts_b=dict(link_mtu=576),
                             net={"latency_us": 50000, "spacing_us": 20}, info={"class": "loss-free"},
                             wait_us=600 * scen.SEC))
    # loss episodes that straddle the wrap: segments 60, 61 and 63 (resp. 100) of the transfer are lost once; with the
    # ISNs below the wrap falls between the lost segments and the highest segment sent when recovery starts
    for j, (drops, isns) in enumerate([((60, 61, 63), (65536 - 62, 65536 - 64, 65536 - 70)), ((100,), (65536 - 101, 65536 - 104, 65536 - 110))]):
        sc = scen.transfer(f"shift/recov{j}", seed, n_ab=150000, chunk_w=65536, chunk_r=65536,
                           opts_a=dict(link_mtu=576, tx_init=1 << 20, tx_max=1 << 20), opts_b=dict(link_mtu=576),
                           net={"latency_us": 20000, "spacing_us": 50}, info={"class": "fair-lossy"},
                           rules=[scen.rule(**{"from": "A", "type": "data", "seq_idx": k, "nth": 1, "act": "drop"}) for k in drops])
        sc["cfg"]["info"]["bases"] = [[100, 1000, 2000]] + [[300, ia, 3000] for ia in isns]
        out.append(sc)
    # probes that expire on a size-blackholing path, with the ISN swept so that one of the expiring probes carries
    # sequence number 0 (the rewind after its expiry then crosses the wrap backwards)
    sc = scen.transfer("shift/probe", seed, n_ab=40000, chunk_w=65536, chunk_r=65536,
                       opts_a=dict(link_mtu=1500, tx_init=8192, tx_max=8192, probe_retx=1), opts_b=dict(link_mtu=1500),
                       net={"latency_us": 10000}, info={"class": "fair-lossy"},
                       pre_steps=[{"op": "net_set", "from": "A", "to": "B", "blackhole_above": 1000},
                                  {"op": "net_set", "from": "B", "to": "A", "blackhole_above": 1000}])
    sc["cfg"]["info"]["bases"] = [[100, 1000, 2000]] + [[300, (65536 - k) % 65536, 3000] for k in range(0, 14)]
    out.append(sc)
    bases_quick = [(100, 1000, 2000), (65530, 62000, 64000), (500, 60000, 65535)]
    bases_thorough = bases_quick + [(0, 0, 0), (65535, 65535, 65535), (1, 64512, 1023), (32768, 32767, 32768),
                                    (rng.randrange(65536), rng.randrange(65536), rng.randrange(65536))]
    return out, (bases_quick if tier == "quick" else bases_thorough)

def _tx_lines(trace_path):
    out = []
    with open(trace_path) as f:
        for line in f:
            if line.startswith('{"alts"') or '"ev":"tx"' in line[:400]:
                rec = json.loads(line)
                if rec.get("ev") == "tx":
                    out.append(rec)
    return out

def metamorphic_part(r, tier, seed):
    """C09.ShiftEqual: the packet trace of a run started near the wrap equals the trace of the same run started at
    a small number with every sequence/ack number (and connection id) shifted.  The same script is executed with
    several (connection id, ISN_A, ISN_B) bases; the i-th datagrams of two runs are paired and ShiftTrace.tla
    (TLC) compares them after subtracting each run's own bases."""
    from . import scen
    core.build_harness()
    scripts, bases = _shift_scripts(tier, seed)
    d = os.path.join(SCRATCH, f"shift_{tier}_{seed}")
    os.makedirs(d, exist_ok=True)
    mute = ["poll", "recv", "disp", "xmit", "seg", "route", "tab", "rand", "syn_arrived", "syn_matched", "conn_new"]
    runs = {}
    jobs = []
    default_bases = bases
    def bases_of(sc):
        b = sc["cfg"].get("info", {}).get("bases")
        return [tuple(x) for x in b] if b else default_bases
    for si, sc in enumerate(scripts):
        for bi, (cid, ia, ib) in enumerate(bases_of(sc)):
            s2 = json.loads(json.dumps(sc))
            s2["cfg"]["mute"] = mute
            s2["cfg"]["socks"][0]["rand"] = [cid, ia]
            s2["cfg"]["socks"][1]["rand"] = [(cid + 7777) % 65536, ib]
            jobs.append((si, bi, s2))
    from concurrent.futures import ThreadPoolExecutor
    def one(job):
        si, bi, s2 = job
        tp = os.path.join(d, f"s{si}_b{bi}.ndjson")
        core.run_scripts([s2], tp, timeout=1200)
        return si, bi, _tx_lines(tp)
    with ThreadPoolExecutor(max_workers=min(core.NCPU, 12)) as ex:
        for si, bi, tx in ex.map(one, jobs):
            runs[(si, bi)] = tx
    a_addr = None
    joint = os.path.join(d, "pairs.ndjson")
    pairs = 0
    with open(joint, "w") as f:
        for si, sc in enumerate(scripts):
            name = sc["cfg"]["name"]
            a_addr = sc["cfg"]["socks"][0]["addr"]
            bases = bases_of(sc)
            base0 = bases[0]
            for bi in range(1, len(bases)):
                A, B = runs[(si, 0)], runs[(si, bi)]
                def side(rec, base):
                    cid, ia, ib = base
                    return {"hdr": rec["hdr"], "t": rec.get("due", 0), "len": rec["len"], "runs": rec["runs"],
                            "fate": rec["fate"], "dir": "ab" if rec["from"] == a_addr else "ba",
                            "cid_base": cid, "isn_a": ia, "isn_b": ib}
                for x, y in zip(A, B):
                    f.write(json.dumps({"ev": "pair", "script": f"{name}#{bi}", "a": side(x, base0), "b": side(y, bases[bi])}) + "\n")
                    pairs += 1
                f.write(json.dumps({"ev": "count", "script": f"{name}#{bi}", "na": len(A), "nb": len(B)}) + "\n")
    v = core.tlc_trace(joint, spec="ShiftTrace", tag=f"c09shift_{tier}_{seed}", timeout=1500, xmx="6g")
    r.traces += len(jobs)
    r.trace_lines += v.get("lines", 0)
    r.scripts += len(jobs)
    for k, c in v.get("cov", {}).items():
        r.cov[k] = r.cov.get(k, 0) + c
    for x in v.get("viol", []):
        name = x.get("ep", "")
        si = next((i for i, sc in enumerate(scripts) if name.startswith(sc["cfg"]["name"] + "#")), 0)
        bi = int(name.rsplit("#", 1)[1]) if "#" in name else 1
        s2 = json.loads(json.dumps(scripts[si]))
        bs = bases_of(scripts[si])
        r.violations.append((x, {"kind": "shift", "script": s2, "bases": [list(bs[0]), list(bs[min(bi, len(bs) - 1)])]}, joint))
    r.notes["metamorphic"] = {"scripts": len(scripts), "bases": [list(b) for b in default_bases],
                              "bases_of_loss_episode_scripts": [sc["cfg"]["info"]["bases"] for sc in scripts if sc["cfg"].get("info", {}).get("bases")],
                              "datagram_pairs_compared": pairs}


# ------------------------------------------------------------------------------------------ the check
def run(tier, seed):
    os.makedirs(SCRATCH, exist_ok=True)
    r = core.Result(PID, tier, seed)
    r.trusted = ["TLC 1.8.0", "unit/src/bin/unit_seq.rs (table loop, recorder)", "re-exports under cfg librqbit_utp_verif",
                 "Apalache (extra evidence only)"]
    thorough = tier == "thorough"
    table_path = os.path.join(SCRATCH, f"table_{tier}_{seed}.json")
    cases_path = os.path.join(SCRATCH, f"cases_{tier}_{seed}.ndjson")
    for p in (table_path, cases_path):
        if os.path.exists(p):
            os.remove(p)

    # ---- background: build -> record -> validate (impl -> spec); Apalache (extra)
    n_lines = 60000 if thorough else 20000
    trace_path = os.path.join(SCRATCH, f"rec_{tier}_{seed}.ndjson")

    def build_record_validate():
        _build()
        _bin(["record", seed, n_lines, trace_path])
        return core.tlc_trace(trace_path, spec="SeqTrace", tag=f"c09_tr_{tier}_{seed}", timeout=600)

    pool = ThreadPoolExecutor(max_workers=2)
    f_trace = pool.submit(build_record_validate)
    f_apa = pool.submit(_apalache)

    # ---- 1. models
    scaled = ("MCSeq_h64", "MCSeq_h256", "MCSeq_s64", "MCSeq_s256")
    with ThreadPoolExecutor(max_workers=4) as ex:
        sres = list(ex.map(lambda cfg: core.tlc_model("MCSeq", cfg, timeout=180, workers=4), scaled))
    negatives = {}
    for cfg, res in zip(scaled, sres):
        if res.get("never"):
            raise core.ToolError(f"{cfg}: actions never taken: {res['never']}")
        r.add_model(res)
        negatives[cfg] = _negative(res["out"])
        log(f"[C09] {cfg}: {res.get('states')} states, {res['wall_s']:.1f}s")
    res = _tlc_model_nocov("MCSeq_quick", {"C09_TABLE": table_path, "C09_CASES": cases_path}, timeout=240)
    r.add_model(res)
    negatives["real"] = _negative(res["out"])
    negatives["real_old_tolerance"] = _negative(res["out"], "NEGATIVE_OLD")
    log(f"[C09] MCSeq_quick: {res.get('states')} states, {res['wall_s']:.1f}s")
    if not (os.path.exists(table_path) and os.path.exists(cases_path)) or '"EMITTED"' not in res["out"]:
        raise core.ToolError("MCSeq_quick did not emit the table / the cases")
    if any(n is None for n in negatives.values()):
        raise core.ToolError("a model did not print its NEGATIVE witness")

    def tlc_pairs(res):
        m = re.search(r'<<"PAIRS_PER_A", (\d+)>>', res["out"])
        per_a = int(m.group(1)) if m else 0
        n_a = res.get("states", 0) - 256
        return n_a, per_a, n_a * per_a
    a_checked, per_a, pairs_tlc = tlc_pairs(res)

    # ---- 3. impl -> spec (started first; also makes sure the binary is built)
    v = f_trace.result()
    r.traces += 1
    r.trace_lines += v["lines"]
    for k, c in v["cov"].items():
        r.cov[k] = r.cov.get(k, 0) + c
    trace_viol = []
    for x in sorted(v["viol"], key=lambda x: x["line"]):
        line = core.trace_line(trace_path, x["line"])
        trace_viol.append((x, _line_to_case(line, x.get("ctx", "")) or {"line": line}, trace_path))
    log(f"[C09] SeqTrace: {v['lines']} lines, {len(v['viol'])} violations, {v['wall_s']:.1f}s")

    # ---- 2. spec -> impl: boundary cases, then the table on all pairs
    cases = [json.loads(l) for l in open(cases_path) if l.strip()]
    bad, answers_path = _replay_cases(cases, f"replay_{tier}_{seed}")
    r.scripts += len(cases)
    r.distinct.update(_case_key(c) for c in cases)
    for c in cases:
        rule = OP_RULE[c["op"]]
        r.cov[rule] = r.cov.get(rule, 0) + 1
    for c, a in bad[:20]:
        rule = "C09.NoPanic" if a.get("panic") else OP_RULE[c["op"]]
        r.violations.append(({"line": a["i"] + 1, "rule": rule, "ep": "",
                              "ctx": f"{c['op']}(a={c['a']},b={c['b']},w={c['w']}) impl={a['r']} spec={c['exp']}"},
                             c, answers_path))
    log(f"[C09] replay: {len(cases)} cases, {len(bad)} disagree")
    want = {("offset", 0, M - 1, W): None, ("offset", 0, M - OLD_W - 1, W): None, ("cmp", 0, M // 2, W): None}
    for c in cases:
        k = (c["op"], c["a"], c["b"], c["w"])
        if k in want and want[k] is None:
            want[k] = dict(c, impl="same" if not any(b[0] is c for b in bad) else "DIFFERS")
    r.samples = [s for s in want.values() if s]

    tres_path = os.path.join(SCRATCH, f"tableres_{tier}_{seed}.json")
    _bin(["table", table_path, tier, seed, tres_path], timeout=1500)
    t = json.load(open(tres_path))
    r.scripts += t["pairs"]
    r.distinct.update(range(t["cells_hit"]))
    for rule in TABLE_RULES[:3]:
        r.cov[rule] = r.cov.get(rule, 0) + t["pairs"]
    for x in t["first"]:
        case = {"op": "offset" if x["rule"] == "C09.TableEqual" else "sub", "a": x["a"], "b": x["b"],
                "w": OLD_W if "1024" in x["what"] else W, "exp": x["spec"]}
        if x["rule"] == "C09.WrapAddSub":
            case["op"] = "add" if "+" in x["what"] else "subk"
        if x["rule"] == "C09.OrdConsistent" and "cmp" in x["what"]:
            case["op"] = "cmp"
        r.violations.append(({"line": 0, "rule": x["rule"], "ep": "",
                              "ctx": f"{x['what']} a={x['a']} b={x['b']} impl={x['impl']} spec={x['spec']}"},
                             case, tres_path))
    if t["crate_WRAP_TOLERANCE"] != W and not any(x["rule"] == "C09.OrdConsistent" for x in t["first"]):
        r.violations.append(({"line": 0, "rule": "C09.ToleranceIsW", "ep": "",
                              "ctx": f"WRAP_TOLERANCE={t['crate_WRAP_TOLERANCE']} spec W={W}"}, None, tres_path))
    # concrete minimal cases first (replay, table), then at most three lines of the recorded trace
    r.violations.extend(trace_viol[:3] if r.violations else trace_viol)
    log(f"[C09] table: {t['pairs']} pairs ({t['a_values']} a's), mismatches {t['mismatches']}, {t['wall_s']:.1f}s")

    # ---- thorough: the real instance over ALL a
    if thorough:
        res = _tlc_model_nocov("MCSeq", {}, timeout=900)
        r.add_model(res)
        a_checked, per_a, pairs_tlc = tlc_pairs(res)
        log(f"[C09] MCSeq (all a): {res.get('states')} states, {res['wall_s']:.1f}s")

    apa = f_apa.result()
    pool.shutdown()
    if apa.get("lemmas_all_pairs", {}).get("outcome") == "Error":
        log("[C09] WARNING: Apalache refutes a lemma of SeqArithApa that TLC accepts on its instances")

    r.exhaustive = {
        "spec_to_impl": (f"all {t['pairs']} pairs of ({t['a_values']} a's x 65536 b's) compared with the specification's "
                         f"tables (W = {W} for seq_nr_offset and SeqNr; extra tolerances {t.get('extra_W')} for seq_nr_offset); "
                         f"{t['cells_hit']} of 131071 (d, lt) classes hit" + ("; this is every pair of 16-bit values" if t["pairs"] == M * M else "")),
        "tlc_real_constants": (f"{a_checked} a's x {per_a} b's (signed distances 0..Band, around 1024, around the antipode, "
                               f"powers of two +-1, multiples of 1024 +-1; far b's): {pairs_tlc} pairs"),
        "tlc_scaled": "M=64 (W=31, 4) and M=256 (W=127, 16): all pairs, all pairs of window positions",
    }
    r.notes["tolerance"] = (f"W = {W} = M/2 - 1: W must be at least the largest window in packets the configuration allows; "
                            "32767 is the largest tolerance 16-bit arithmetic admits (2W < M).  The former value 1024 was the "
                            "defect D8 (default receive buffer alone: 1985 packets).")
    r.notes["negative_fact"] = {
        "statement": ("Closed form (checked as ClosedForm): Offset(a,b) = IF |Dist(a,b)| <= W THEN Dist(a,b) ELSE a - b: beyond the "
                      "tolerance Offset is the PLAIN integer difference, i.e. the implementation's order is the integer order of the "
                      "two 16-bit values, which is wrong when the wrap lies between them.  With W = 32767 the only distance beyond "
                      "the tolerance is the antipode |Dist| = 32768, whose modular order is ambiguous; Offset breaks the tie by the "
                      "integer order and stays antisymmetric; no pair with an unambiguous modular order is misordered "
                      "(OrdTotalAtMaxTolerance; Apalache: OrdAlwaysModular for all pairs)."),
        "witness_at_the_only_distance_beyond_tolerance": negatives["real"],
        "former_tolerance_1024_smallest_misordered_pair": negatives["real_old_tolerance"],
        "scaled_small_tolerance_witnesses": [negatives["MCSeq_s64"], negatives["MCSeq_s256"]],
        "consequence_of_the_former_tolerance": "windows of more than 1024 sequence numbers broke when they straddled the wrap (defect D8, fixed)",
    }
    r.notes["apalache"] = apa
    r.notes["table"] = {k: t[k] for k in ("pairs", "a_values", "cells_hit", "wrapped_pairs", "table_W", "extra_W", "crate_WRAP_TOLERANCE", "wall_s")}

    metamorphic_part(r, tier, seed)      # <-- HOOK (see above)

    return r.finish(
        rule_text=("spec -> impl: seq_nr_offset/SeqNr vs the TLC-emitted table Offset(d, lt) on every (a, b) "
                   "(distinct = (d, lt) classes hit + boundary cases over 13 tolerances); impl -> spec: seeded random/boundary "
                   "calls and a walking SeqNr with a ghost true distance, validated line by line by SeqTrace"),
        required_cov=REQUIRED)


# ------------------------------------------------------------------------------------------ replay of a violation
def replay(path):
    """Re-execute the recorded case on the current tree; 1 if it still disagrees with the specification's answer."""
    v = json.load(open(path))
    c = v.get("script")
    if not c or "op" not in c:
        print(f"C09 replay: no executable case in {path}: {v.get('violation')}")
        return 2
    os.makedirs(SCRATCH, exist_ok=True)
    _build()
    bad, _ = _replay_cases([c], "replay_one")
    if bad:
        print(f"VIOLATION property={PID} replay={path}")
        log(f"[C09] {v.get('signature')}: case {c} -> impl answers {bad[0][1]['r']}"
            f"{' (panic)' if bad[0][1].get('panic') else ''}, specification {c['exp']}")
        return 1
    log(f"[C09] case {c}: implementation now agrees with the specification ({c['exp']})")
    return 0
