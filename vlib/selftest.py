"""./check selftest : is the machinery itself sensitive?
 1. every design-mutant configuration of the bounded models (spec/MC*_mut_*.cfg) must violate a property;
 2. binding: a recorded trace of the real library is accepted; the same trace with one field corrupted, one
    event removed, or one payload shifted must be rejected by the trace specification."""
import glob, json, os, re, shutil
from . import core, scen

def model_mutants():
    bad = []
    for cfg in sorted(glob.glob(os.path.join(core.SPEC, "MC*_mut*.cfg"))):
        name = os.path.basename(cfg)[:-4]
        spec = name.split("_mut")[0]
        res = core.tlc_model(spec, name, timeout=600, workers=8, allow_fail=True, tag="selftest_" + name)
        out = res.get("out", "")
        hit = re.search(r"(Invariant \w+ is violated|Temporal propert\w+ \w+ was violated|Action property \w+ is violated)", out)
        print(f"  {name}: {hit.group(1) if hit else 'NOT VIOLATED'}")
        if not hit:
            bad.append(name)
    return bad

def _viol(tp):
    v = core.tlc_trace(tp, tag="selftest_" + os.path.basename(tp))
    return sorted(set(x["rule"] for x in v["viol"])), v["lines"]

def binding():
    core.build_harness()
    d = os.path.join(core.OUT, "selftest")
    shutil.rmtree(d, ignore_errors=True)
    os.makedirs(d)
    sc = scen.transfer("selftest/0", 7, n_ab=6000, opts_a=dict(link_mtu=576), opts_b=dict(link_mtu=576),
                       net={"latency_us": 10000}, rand_a=[10, 100], rand_b=[20, 200], info={"class": "loss-free"})
    sp, tp = os.path.join(d, "s.json"), os.path.join(d, "t.ndjson")
    json.dump([sc], open(sp, "w"))
    core.sh([core.UTPSIM, "run", sp, tp], timeout=300)
    lines = open(tp).read().splitlines()
    base, n = _viol(tp)
    print(f"  unmodified trace: {n} lines, broken rules: {base}")
    bad = [] if not base else ["unmodified trace rejected"]
    recs = [json.loads(l) for l in lines]
    def write(name, ls):
        p = os.path.join(d, name)
        open(p, "w").write("\n".join(ls) + "\n")
        return p
    # (a) one acknowledgement number corrupted on the wire record
    i = next(k for k, r in enumerate(recs) if r.get("ev") == "tx" and r.get("plen", 0) == 0 and r["hdr"][0] >> 4 == 2 and k > len(recs) // 2)
    r = dict(recs[i]); h = list(r["hdr"]); h[19] = (h[19] + 1) % 256; r["hdr"] = h
    va, _ = _viol(write("a.ndjson", lines[:i] + [json.dumps(r, separators=(",", ":"))] + lines[i + 1:]))
    print(f"  (a) ack_nr of one emitted ACK changed by 1 -> {va}")
    if not any(x.startswith("C04.") for x in va):
        bad.append("corrupted ack accepted")
    # (b) one hook event removed: a consumed data packet
    i = next(k for k, r in enumerate(recs) if r.get("ev") == "disp" and r.get("what") == "consumed")
    vb, _ = _viol(write("b.ndjson", lines[:i] + lines[i + 1:]))
    print(f"  (b) one 'disp consumed' event removed -> {vb}")
    if not vb:
        bad.append("missing event accepted")
    # (c) the payload of one data packet shifted by one stream position
    i = next(k for k, r in enumerate(recs) if r.get("ev") == "tx" and r.get("plen", 0) > 0 and r.get("runs") and k > len(recs) // 3)
    r = dict(recs[i]); r["runs"] = [[r["runs"][0][0] + 1, r["runs"][0][1]]] + r["runs"][1:]
    vc, _ = _viol(write("c.ndjson", lines[:i] + [json.dumps(r, separators=(",", ":"))] + lines[i + 1:]))
    print(f"  (c) payload of one data packet shifted by one byte -> {vc}")
    if not any(x.startswith("C01.") for x in vc):
        bad.append("shifted payload accepted")
    return bad

def run():
    print("model mutants (each must violate a property):")
    bad = model_mutants()
    print("binding (trace specification against a recorded run):")
    bad += binding()
    if bad:
        print("SELFTEST FAILED:", bad)
        return 2
    print("selftest ok")
    return 0
