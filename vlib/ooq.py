"""REASM  the receiver's reassembly machinery (src/stream_rx.rs: OutOfOrderQueue, UserRx, UtpStreamReadHalf)
as a component; serves the receive-side clauses of C04, C01 and C03.

  1. TLC on MCReasm (spec/Reasm.tla): EVERY sequence of calls -- arrive(offset, 1 | 2 bytes | ST_FIN), flush,
     flush_all_before_close, read(1 | 2 | 8 bytes), drop of the read half, enqueue_error, mark_vsock_closed,
     register_dispatcher_waker -- to depth 6 (quick) / 8 (thorough: full alphabet to depth 6, reduced in
     steps 7 and 8) on a 4-byte / 2-slot and a 6-byte / 3-slot receiver (thorough: also 5 bytes / 2 slots).
     In every state the invariants of Reasm.tla (window honest, queue bounded, nothing discarded, chain in
     order, no lost wake-up, counters exact) and the stream invariants of MCReasm (reads are the next bytes
     of the in-order stream; draining yields exactly the rest, then EOF / the errors / "dispatcher dead");
     on every transition no rule is broken by the specification's own answer.
  2. spec -> impl: every transition comes out as a CASE (witnessing history, call, the specification's answer:
     result, bytes read, wake-ups, and the observables after the call); unit_ooq replays history ++ call on
     fresh real objects and the answer to the call must be EQUAL.  Cases that differ are re-run in full and
     judged by ReasmTrace, which names the broken clauses.
  3. impl -> spec: unit_ooq records seeded random runs with realistic sizes (2 KiB .. 64 KiB, payloads up to
     1400 bytes, 1 .. 655 slots, offsets beyond the 64-bit selective-ACK limit, fast / slow / stopped /
     dropped readers, FIN / error / close endings); ReasmTrace steps the specification alongside and
     evaluates every rule on every line.

`part(r, tier, seed, prefixes)` adds all of this to an existing core.Result (violations only for rules whose
name starts with one of `prefixes`); `run(tier, seed)` is the standalone check (pid REASM, all rules).
The outcome of a (binary, specifications, tier, seed) combination is cached under out/ooq/cache, so the three
properties that call `part` pay for it once."""
import hashlib, json, os, re, shutil, subprocess, time
from concurrent.futures import ThreadPoolExecutor
from . import core
from .core import log

PID = "REASM"
SCR = os.path.join(core.OUT, "ooq")
# OOQ_UNIT_DIR: development self-test only (a scratch copy of the unit crate pointed at a mutated tree)
UNIT = os.environ.get("OOQ_UNIT_DIR") or os.path.join(core.ROOT, "unit")
BIN = os.path.join(UNIT, "target", "debug", "unit_ooq")
ALL_PREFIXES = ("C01.", "C03.", "C04.", "Reasm.")

RULES = ["C04.ConsumeExact", "C04.ParkExact", "C04.AlreadyPresent", "C04.UnavailableOnlyWithoutRoom",
         "C04.SackExact", "C04.WindowHonest", "C04.UserQueueBounded", "C04.NoDiscardAfterConsume",
         "C01.ReadInOrder", "C01.ReadExactlyOnce",
         "C03.DataBeforeError", "C03.EofAfterData", "C03.ClosedSurfaces", "C03.FlushAllDelivers",
         "Reasm.ObsAgrees", "Reasm.NoPanic"]
# branches of the rules that a run must have exercised to count (vacuity guard)
MARKERS = ["C04.ConsumeExact.run", "C04.ConsumeExact.fin",
           "C04.UnavailableOnlyWithoutRoom.full", "C04.UnavailableOnlyWithoutRoom.beyond",
           "C04.SackExact.some", "C04.SackExact.beyond64", "C04.WindowHonest.parked", "C04.WindowHonest.zero",
           "C04.UserQueueBounded.atcap", "C01.ReadInOrder.partial", "C01.ReadInOrder.multi",
           "C03.DataBeforeError.deferred", "C03.EofAfterData.afterdata", "C03.ClosedSurfaces.dead",
           "C03.ClosedSurfaces.woken", "C03.FlushAllDelivers.nonempty", "C03.FlushAllDelivers.over"]

ANSWER_FIELDS = ["res", "n", "bytes", "errid", "runs", "rwake", "dwake", "ub", "pb", "pk", "win", "aempty",
                 "sack_some", "sack", "rdrop"]
OPS = {"a": "arrive", "f": "flush", "F": "flush_all", "r": "read", "d": "drop_reader", "e": "error", "c": "close",
       "w": "regwaker"}
RESULTS = ["consumed", "present", "unavailable", "ok", "eof", "err", "pending"]


def required(prefixes=ALL_PREFIXES, r=None):
    """Rule and marker names a caller should put into required_cov for these prefixes.  With a Result that holds
    violations: none (the vacuity guard is for the verdict "held"; a broken rule ends the affected runs early --
    after a panic there is nothing left to call -- and core.Result.finish looks at the coverage first)."""
    if r is not None and r.violations:
        return []
    return [x for x in RULES + MARKERS if x.startswith(tuple(prefixes))]


def nslots_of(cap, maxp):
    """UserRx::build: one reassembly slot per largest payload that fits the receive buffer (64 if none does)."""
    return cap // maxp or 64


# ------------------------------------------------------------------------------------------ tools
def _build():
    p = core.sh(["cargo", "build", "--offline", "--bin", "unit_ooq"], cwd=UNIT, timeout=1800, check=False)
    if p.returncode != 0:
        raise core.ToolError("unit_ooq build failed:\n" + p.stdout[-4000:])


def _bin(args, timeout=900):
    p = core.sh([BIN] + args, timeout=timeout, check=False)
    if p.returncode != 0:
        raise core.ToolError(f"unit_ooq {args[0]} failed ({p.returncode}):\n{p.stdout[-2000:]}")
    return p.stdout


def _mc(inst, rundir, workers, timeout):
    """One bounded instance.  TLC's output goes to a file (it holds one line per transition); the CASE lines are
    moved to <rundir>/<tag>.cases.ndjson.  Returns (result dict for Result.add_model, cases path, #cases)."""
    tag = inst["tag"]
    frm = os.environ.get("OOQ_MC_FROM")   # development self-test only: reuse the cases of an earlier run
    if frm:
        res = json.load(open(os.path.join(frm, tag + ".model.json")))
        return res, os.path.join(frm, tag + ".cases.ndjson"), res["transitions"] - 1
    md = os.path.join(core.OUT, "tlc", "ooq_" + tag)
    shutil.rmtree(md, ignore_errors=True)
    os.makedirs(md, exist_ok=True)
    outp = os.path.join(rundir, tag + ".tlc.out")
    casesp = os.path.join(rundir, tag + ".cases.ndjson")
    env = dict(os.environ)
    env.update({"JAVA_TOOL_OPTIONS": "-Xss512m -Xmx6g -XX:ParallelGCThreads=4",
                "REASM_CAP": str(inst["cap"]), "REASM_MAXP": str(inst["maxp"]), "REASM_SLOTS": str(inst["slots"]),
                "REASM_DEPTH": str(inst["depth"]), "REASM_FULL": str(inst["full"])})
    cmd = ["timeout", str(timeout), "tlc", "-workers", str(workers), "-metadir", md, "-cleanup", "-noGenerateSpecTE",
           "-config", os.path.join(core.SPEC, "MCReasm.cfg"), os.path.join(core.SPEC, "MCReasm.tla")]
    t0 = time.time()
    with open(outp, "w") as f:
        p = subprocess.run(cmd, cwd=md, env=env, stdout=f, stderr=subprocess.STDOUT, timeout=timeout + 30)
    shutil.rmtree(md, ignore_errors=True)
    n = 0
    rest = []
    with open(outp) as f, open(casesp, "w") as o:
        for l in f:
            if l.startswith('<<"C", "'):
                o.write(l[8:-4].replace('\\"', '"') + "\n")
                n += 1
            elif not l.startswith(("Picked up", "Parsing", "Semantic", "Linting")):
                rest.append(l)
    os.remove(outp)
    out = "".join(rest)
    res = {"spec": "MCReasm", "cfg": tag, "wall_s": round(time.time() - t0, 2), "rc": p.returncode, "never": []}
    m = re.search(r"(\d+) states generated, (\d+) distinct states found", out)
    if m:
        res["transitions"], res["states"] = int(m.group(1)), int(m.group(2))
    m = re.search(r"depth of the complete state graph search is (\d+)", out)
    if m:
        res["depth"] = int(m.group(1))
    if p.returncode == 124:
        res["timeout"] = True
    if not (p.returncode == 0 and "No error has been found" in out):
        raise core.ToolError(f"model MCReasm/{tag} did not pass (exit {p.returncode}):\n{out[-4000:]}")
    if res.get("transitions") != n + 1:
        raise core.ToolError(f"MCReasm/{tag} printed {n} cases but generated {res.get('transitions')} states")
    with open(os.path.join(rundir, tag + ".model.json"), "w") as f:
        json.dump(res, f)
    return res, casesp, n


def _script_of_case(inst, case):
    """A replayed case [history, call, answer] as a script for `unit_ooq script`."""
    h, c = case[0], case[1]
    return {"kind": "reasm", "cfg": [inst["cap"], inst["maxp"], inst["slots"]], "ops": list(h) + [c]}


def _compact(rec):
    op = rec["op"]
    if op == "arrive":
        return ["a", rec["a"], 0 if rec["fin"] else rec["b"]]
    if op == "read":
        return ["r"] + list(rec.get("bufs") or [rec["a"]])
    for k, v in OPS.items():
        if v == op:
            return [k]
    return None


def _script_of_line(trace_path, line):
    """The calls of the run that contains the 1-based line, up to and including it (+ the run's number)."""
    cfg, ops, run = None, [], -1
    with open(trace_path) as f:
        for i, l in enumerate(f, 1):
            r = json.loads(l)
            if r["op"] == "new":
                cfg, ops, run = [r["a"], r["b"], r["n"]], [], run + 1
            elif r["op"] != "panic":
                ops.append(_compact(r))
            if i >= line:
                break
    return run, {"kind": "reasm", "cfg": cfg, "ops": ops}


def _judge_script(script, tag):
    """Run a script on the implementation (fresh objects) and let ReasmTrace judge the recording."""
    os.makedirs(os.path.join(SCR, "judge"), exist_ok=True)
    sp = os.path.join(SCR, "judge", tag + ".script.ndjson")
    tp = os.path.join(SCR, "judge", tag + ".trace.ndjson")
    with open(sp, "w") as f:
        f.write(json.dumps({"cfg": script["cfg"], "ops": script["ops"]}) + "\n")
    _bin(["script", sp, tp])
    return core.tlc_trace(tp, spec="ReasmTrace", tag="ooq_" + tag, timeout=300), tp


def _first_per_run(v):
    """The violations of a verdict at the first offending line of every run (what follows the first broken rule
    of a run is judged against a specification state that no longer is the implementation's)."""
    out, first = [], {}
    runs = {}
    for x in sorted(v.get("viol", []), key=lambda x: (x["line"], x["rule"])):
        if x["line"] not in runs:
            runs[x["line"]] = _script_of_line(v["trace"], x["line"])
        run, script = runs[x["line"]]
        if first.setdefault(run, x["line"]) == x["line"]:
            out.append((x, script))
    return out


def _sample(inst, case, answer):
    c, a = json.loads(case), json.loads(answer)
    exp = dict(zip(ANSWER_FIELDS, c[2]))
    return {"receiver": {"capacity": inst["cap"], "largest_payload": inst["maxp"], "slots": inst["slots"]},
            "history": c[0], "call": c[1], "expected": exp, "impl_equal": c[2] == a[2]}


# ------------------------------------------------------------------------------------------ the work
def _instances(tier):
    if tier == "thorough":
        return [dict(tag="c4s2", cap=4, maxp=2, slots=2, depth=8, full=6),
                dict(tag="c6s3", cap=6, maxp=2, slots=3, depth=8, full=6),
                dict(tag="c5s2", cap=5, maxp=2, slots=2, depth=7, full=6)]
    return [dict(tag="c4s2", cap=4, maxp=2, slots=2, depth=6, full=99),
            dict(tag="c6s3", cap=6, maxp=2, slots=3, depth=6, full=99)]


def _empty():
    return {"models": [], "scripts": 0, "distinct": 0, "traces": 0, "trace_lines": 0, "cov": {}, "violations": [],
            "samples": [], "notes": {}}


def _compute_mc(tier, workers):
    """The bounded models and the replay of their cases (independent of the seed: nothing is drawn)."""
    thorough = tier == "thorough"
    rundir = os.path.join(SCR, "run", f"mc_{tier}")
    shutil.rmtree(rundir, ignore_errors=True)
    os.makedirs(rundir, exist_ok=True)
    out = _empty()
    insts = _instances(tier)
    t0 = time.time()
    pool = ThreadPoolExecutor(max_workers=len(insts))
    w = max(2, min(8, workers // len(insts)))
    mc_futs = [pool.submit(_mc, inst, rundir, w, 3000 if thorough else 280) for inst in insts]

    # ---- spec -> impl: replay with exact equality
    by_op, by_res = {k: 0 for k in OPS}, {k: 0 for k in RESULTS}
    replay = {"cases": 0, "differing": 0}
    judged = 0
    for inst, fut in zip(insts, mc_futs):
        res, casesp, n = fut.result()
        out["models"].append(res)
        log(f"[REASM] MCReasm/{inst['tag']}: {res.get('states')} states, {n} cases in {res['wall_s']}s")
        ansp = os.path.join(rundir, inst["tag"] + ".answers.ndjson")
        _bin(["replay", str(inst["cap"]), str(inst["maxp"]), casesp, ansp], timeout=1800)
        differing, ndiff = [], 0
        k = 0
        seen = set()
        picks = sorted({n // 3, n - 1})
        with open(casesp) as fc, open(ansp) as fa:
            for k, (c, a) in enumerate(zip(fc, fa), 1):
                if c != a:
                    ndiff += 1
                    if len(differing) < 3:
                        differing.append(c)
                seen.add(hash(c))
                if k - 1 in picks:
                    out["samples"].append(_sample(inst, c, a))
                # statistics for the vacuity guard: which calls / results the cases contain
                i2 = c.rindex('],["')          # start of the expected answer
                i1 = c.rindex('],["', 0, i2)   # start of the call
                by_op[c[i1 + 4]] += 1
                by_res[c[i2 + 4:c.index('"', i2 + 4)]] += 1
            if sum(1 for _ in fa) != 0 or k != n:
                raise core.ToolError(f"replay answered a different number of cases than the {n} of {inst['tag']}")
        replay["cases"] += n
        replay["differing"] += ndiff
        out["scripts"] += n
        out["distinct"] += len(seen)
        del seen
        if not os.environ.get("OOQ_KEEP"):      # the case files are large; a violation keeps its own script
            os.remove(ansp)
            if not os.environ.get("OOQ_MC_FROM"):
                os.remove(casesp)
        # cases whose answer differs: re-run in full, ReasmTrace names the broken clauses
        for c in differing:
            script = _script_of_case(inst, json.loads(c))
            v, tp = _judge_script(script, f"diff_{tier}_{judged}")
            judged += 1
            hits = _first_per_run(v)
            if hits:
                for x, _sc in hits:
                    out["violations"].append([x, script, tp])
            else:   # the answers differ although no clause fired on the full recording: still a disagreement
                out["violations"].append([{"line": len(script["ops"]) + 1, "rule": "Reasm.ObsAgrees",
                                           "ctx": "replay", "ep": ""}, script, tp])
    pool.shutdown()
    missing = [OPS[k] for k, c in by_op.items() if c == 0] + [k for k, c in by_res.items() if c == 0]
    if missing:
        raise core.ToolError(f"MCReasm never produced: {missing}")
    log(f"[REASM] models + replay: {replay['cases']} cases, {replay['differing']} differ, {time.time()-t0:.1f}s")
    out["notes"] = {
        "replay": replay, "cases_by_call": {OPS[k]: c for k, c in by_op.items()}, "cases_by_result": by_res,
        "exhaustive": "every call sequence to depth " + ("8 (full alphabet to depth 6, reduced in steps 7-8)" if thorough else "6")
                      + " over: arrive(offset 0..slots and 4; 1 | 2 bytes | ST_FIN), flush, flush_all_before_close (after "
                        "which only reads / error / close / drop follow, as in the dispatcher), read(1 | 2 | 8), drop reader, "
                        "enqueue_error (<= 2), mark_vsock_closed, register_dispatcher_waker; receivers: "
                      + ", ".join(f"{i['cap']} bytes / {i['slots']} slots" for i in insts)
                      + "; histories merged by VIEW (state, acknowledged lengths, depth)"}
    return out


def _compute_rec(tier, seed):
    """impl -> spec: recorded seeded random runs, judged by ReasmTrace."""
    rundir = os.path.join(SCR, "run", f"rec_{tier}_{seed}")
    shutil.rmtree(rundir, ignore_errors=True)
    os.makedirs(rundir, exist_ok=True)
    out = _empty()
    nrec, per = (6, 60000) if tier == "thorough" else (2, 9000)

    def rec(i):
        tp = os.path.join(rundir, f"rec{i}.ndjson")
        _bin(["record", str(seed * 1000 + i), str(per), tp])
        return core.tlc_trace(tp, spec="ReasmTrace", tag=f"ooq_rec_{tier}_{seed}_{i}", timeout=1500, xmx="4g")
    t0 = time.time()
    with ThreadPoolExecutor(max_workers=nrec) as pool:
        verdicts = list(pool.map(rec, range(nrec)))
    for v in verdicts:
        out["traces"] += v.get("runs", 0)
        out["trace_lines"] += v.get("lines", 0)
        out["scripts"] += v.get("runs", 0)
        out["distinct"] += v.get("runs", 0)     # every run has its own seed-derived profile and values
        for k, c in v.get("cov", {}).items():
            out["cov"][k] = out["cov"].get(k, 0) + c
        for x, script in _first_per_run(v):
            out["violations"].append([x, script, v["trace"]])
    with open(os.path.join(rundir, "rec0.ndjson")) as f:
        out["samples"].append({"recorded": [json.loads(next(f)) for _ in range(3)]})
    if not os.environ.get("OOQ_KEEP"):      # keep the recordings that hold a broken rule only
        for v in verdicts:
            if not v.get("viol"):
                os.remove(v["trace"])
    out["notes"] = {"recorded_runs": out["traces"], "recorded_lines": out["trace_lines"]}
    log(f"[REASM] recorded: {out['traces']} runs, {out['trace_lines']} lines, {len(out['violations'])} broken, {time.time()-t0:.1f}s")
    return out


def _cache_key(*what):
    h = hashlib.sha256()
    for p in [BIN, __file__] + [os.path.join(core.SPEC, f) for f in
                                ("Reasm.tla", "MCReasm.tla", "MCReasm.cfg", "ReasmTrace.tla", "ReasmTrace.cfg")]:
        with open(p, "rb") as f:
            h.update(hashlib.sha256(f.read()).digest())
    h.update("/".join(str(x) for x in what).encode())
    return h.hexdigest()[:24]


def _cached(name, key, compute):
    os.makedirs(os.path.join(SCR, "cache"), exist_ok=True)
    cp = os.path.join(SCR, "cache", f"{name}_{key}.json")
    if os.path.exists(cp) and not os.environ.get("OOQ_NOCACHE"):
        try:
            out = json.load(open(cp))
            if all(os.path.exists(v[2]) for v in out["violations"]):
                out["notes"]["cached"] = True
                return out
        except (ValueError, KeyError):
            pass
    out = compute()
    with open(cp, "w") as f:
        json.dump(out, f)
    return out


def _outcome(tier, seed):
    """Both halves, each cached under (binary, specifications, this file, tier[, seed])."""
    _build()
    nrec = 6 if tier == "thorough" else 2
    with ThreadPoolExecutor(max_workers=2) as pool:
        fr = pool.submit(_cached, "rec", _cache_key("rec", tier, seed), lambda: _compute_rec(tier, seed))
        fm = pool.submit(_cached, "mc", _cache_key("mc", tier), lambda: _compute_mc(tier, max(4, core.NCPU - nrec)))
        mc, rec = fm.result(), fr.result()
    out = _empty()
    for h in (mc, rec):
        out["models"] += h["models"]
        for k in ("scripts", "distinct", "traces", "trace_lines"):
            out[k] += h[k]
        for k, c in h["cov"].items():
            out["cov"][k] = out["cov"].get(k, 0) + c
        out["violations"] += h["violations"]
        out["samples"] += h["samples"]
    out["samples"] = mc["samples"][:2] + rec["samples"][:1]
    out["notes"] = dict(mc["notes"], **{k: v for k, v in rec["notes"].items() if k != "cached"})
    out["notes"]["cached"] = {"models_and_replay": bool(mc["notes"].get("cached")), "recorded": bool(rec["notes"].get("cached"))}
    return out


def part(r, tier, seed, prefixes):
    """Run the component check and ADD its evidence to the core.Result `r`; violations are added for the rules
    whose name starts with one of `prefixes` (e.g. ["C04.", "Reasm."])."""
    prefixes = tuple(prefixes)
    t0 = time.time()
    out = _outcome(tier, seed)
    for m in out["models"]:
        r.add_model(m)
    r.scripts += out["scripts"]
    base = 1 << 40     # measured number of distinct cases, as that many entries that collide with nothing else
    r.distinct.update(range(base, base + out["distinct"]))
    r.traces += out["traces"]
    r.trace_lines += out["trace_lines"]
    for k, c in out["cov"].items():
        r.cov[k] = r.cov.get(k, 0) + c
    seen = set()
    vio = list(out["violations"])
    if "C10." in prefixes:
        # C10 "never ... an internal bug error, whatever arrives": a call that panicked or answered with an internal
        # error is also a C10 violation (the datagram sequences here are ones a peer can produce)
        for x, script, tp in out["violations"]:
            if x["rule"] == "Reasm.NoPanic" or str(x.get("ctx", "")).endswith(("/err", "panic")):
                vio.append((dict(x, rule="C10.NoBugError", ctx=x["rule"] + "@" + str(x.get("ctx", ""))), script, tp))
    for x, script, tp in vio:
        if not x["rule"].startswith(prefixes):
            continue
        sig = core.signature(x)
        if sig in seen or len(seen) >= 6:
            continue
        seen.add(sig)
        r.violations.append((x, script, tp))
    if not r.samples:
        r.samples = out["samples"][:3]
    r.notes["reasm"] = dict(out["notes"], wall_s=round(time.time() - t0, 1),
                            violations_all_rules=len(out["violations"]))
    if "unit/src/bin/unit_ooq.rs" not in " ".join(r.trusted):
        r.trusted += ["unit/src/bin/unit_ooq.rs (driver: builds datagrams, polls the read half by hand, run-length "
                      "compresses what a read returned, counts wake-ups)",
                      "guarded accessors UserRx::verif_user_bytes / verif_parked_bytes / verif_parked_packets"]
    return out


def run(tier, seed):
    r = core.Result(PID, tier, seed)
    r.trusted = ["TLC"]
    r.assumptions = [
        "sequence numbers are naturals (the 16-bit arithmetic is C09's); offset = seq_nr - (last consumed + 1) as in the dispatcher",
        "flush_all_before_close is the last dispatcher-side call but enqueue_error / mark_vsock_closed (as in just_before_death)",
        "slots = capacity / largest payload (UserRx::build); payloads of 1 .. largest payload bytes (rarely larger in recorded runs)",
        "read buffers of at least one byte",
    ]
    part(r, tier, seed, ALL_PREFIXES)
    r.exhaustive = True
    # the component check reports every rule under its own id; the vacuity guard is for a verdict "held" (a
    # broken rule ends the affected runs early -- after a panic there is nothing left to call)
    rc = r.finish(
        rule_text="case = witnessing history of a reachable state of MCReasm + one call, with the specification's answer "
                  "(replayed on fresh real objects, compared for equality); distinct = distinct (history, call) pairs "
                  "+ recorded seeded random runs (each with its own receiver size, arrival pattern, reader, ending)",
        required_cov=required(ALL_PREFIXES, r))
    return rc


def replay(path):
    """Re-run a recorded violation: the calls on the current implementation, judged by ReasmTrace."""
    d = json.load(open(path))
    _build()
    v, tp = _judge_script(d["script"], "replay")
    pid = d.get("property", PID)
    pref = ALL_PREFIXES if pid == PID else (pid + ".", "Reasm.")
    hits = [x for x in v["viol"] if x["rule"].startswith(tuple(pref))]
    for x in sorted(hits, key=lambda x: x["line"])[:10]:
        print("violation:", json.dumps(x), core.trace_line(tp, x["line"])[:300])
    print("trace:", tp)
    if hits:
        print(f"VIOLATION property={pid} replay={path}")
        return 1
    return 0
