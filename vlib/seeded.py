"""Seeded property-breaking changes (produced by independent sub-agents): confirm them in a scratch
worktree, store them under /verif/seeded/<id>/, and run the registered checks against them.

  ./check seeded-verify <agent worktree dir> [<id>]   confirm + store
  ./check seeded-run <id> [Cxx,Cyy|all] [tier]         apply to /repo, run checks, undo, record who catches it
"""
import json, os, re, shutil, subprocess, sys, time
from . import core

SEEDED = os.path.join(core.ROOT, "seeded")

def sh(cmd, cwd=None, timeout=3600):
    p = subprocess.run(cmd, cwd=cwd, stdout=subprocess.PIPE, stderr=subprocess.STDOUT, text=True, timeout=timeout)
    return p.returncode, p.stdout

def _test_counts(out):
    m = re.findall(r"test result: \w+\. (\d+) passed; (\d+) failed; (\d+) ignored", out)
    if not m:
        return None
    return tuple(sum(int(x[i]) for x in m) for i in range(3))

def verify(src_dir, sid=None):
    meta = json.load(open(os.path.join(src_dir, "seeded_meta.json")))
    sid = sid or ("S_" + meta["property"] + "_" + time.strftime("%H%M%S"))
    patch = os.path.join(src_dir, "seeded_patch.diff")
    demo = os.path.join(src_dir, "seeded_demo.diff")
    demo_cmd = meta.get("demo_cmd", "")
    m = re.search(r"cargo test (?:--offline )?(\S+)", demo_cmd)
    demo_name = m.group(1) if m else ""
    wt = f"/tmp/sv_{sid}"
    subprocess.run(["git", "-C", "/repo", "worktree", "remove", "--force", wt], stdout=subprocess.DEVNULL, stderr=subprocess.DEVNULL)
    rc, out = sh(["git", "-C", "/repo", "worktree", "add", "--detach", wt, "HEAD"])
    if rc != 0:
        print(out); return 2
    res = {"id": sid, "property": meta["property"], "confirmed": False}
    try:
        rc, out = sh(["git", "apply", "--check", patch], cwd=wt); res["patch_applies"] = rc == 0
        rc, out = sh(["git", "apply", demo], cwd=wt); res["demo_applies"] = rc == 0
        if not (res["patch_applies"] and res["demo_applies"]):
            print("diffs do not apply", out); return 1
        env_target = os.path.join(wt, "target")
        # demonstration on the unchanged tree: must pass
        rc, out = sh(["cargo", "test", "--offline", demo_name], cwd=wt)
        c = _test_counts(out)
        res["demo_unchanged"] = {"rc": rc, "counts": c}
        demo_ok_unchanged = rc == 0 and c and c[0] >= 1 and c[1] == 0
        # with the change: builds, every pre-existing test passes, the demonstration fails
        rc, out = sh(["git", "apply", patch], cwd=wt)
        rc, out = sh(["cargo", "build", "--offline"], cwd=wt)
        res["builds"] = rc == 0
        rc, out = sh(["cargo", "test", "--offline", "--no-fail-fast"], cwd=wt)
        c = _test_counts(out)
        failed = sorted(set(re.findall(r"^test (\S+) \.\.\. FAILED", out, re.M)) |
                        set(re.findall(r"^---- (\S+) stdout ----", out, re.M)))
        res["with_change"] = {"rc": rc, "counts": c, "failed": failed}
        only_demo_fails = bool(failed) and all(demo_name.split("::")[-1] in f or "seeded" in f for f in failed)
        baseline_ok = c is not None and (c[0] + len([f for f in failed if "seeded" not in f and demo_name not in f])) >= 76 and \
            not [f for f in failed if "seeded" not in f and demo_name.split("::")[-1] not in f]
        res["confirmed"] = bool(res["builds"] and demo_ok_unchanged and only_demo_fails and baseline_ok)
    finally:
        subprocess.run(["git", "-C", "/repo", "worktree", "remove", "--force", wt], stdout=subprocess.DEVNULL, stderr=subprocess.DEVNULL)
        shutil.rmtree(wt, ignore_errors=True)
    print(json.dumps(res, indent=1))
    if not res["confirmed"]:
        return 1
    d = os.path.join(SEEDED, sid)
    os.makedirs(d, exist_ok=True)
    shutil.copy(patch, os.path.join(d, "patch.diff"))
    shutil.copy(demo, os.path.join(d, "demo.diff"))
    meta_out = {"id": sid, "property": meta["property"], "summary": meta.get("summary"), "needs": meta.get("needs"),
                "why_tests_pass": meta.get("why_tests_pass"), "demo_cmd": demo_cmd, "files_changed": meta.get("files_changed"),
                "confirmed_by": "scratch worktree of /repo HEAD: demo passes unchanged; with the change it builds, all 76 existing tests pass, only the demonstration fails",
                "confirmation": res, "caught_by": {}}
    json.dump(meta_out, open(os.path.join(d, "meta.json"), "w"), indent=1)
    print("stored", d)
    return 0

def run(sid, which="", tier="quick"):
    d = os.path.join(SEEDED, sid)
    meta = json.load(open(os.path.join(d, "meta.json")))
    props_to_run = [meta["property"]] if not which else \
        ([f"C{i:02d}" for i in range(1, 20)] if which == "all" else which.split(","))
    rc, out = sh(["git", "-C", "/repo", "status", "--porcelain"])
    if out.strip():
        print("/repo is not clean"); return 2
    rc, out = sh(["git", "-C", "/repo", "apply", os.path.join(d, "patch.diff")])
    if rc != 0:
        print("patch does not apply", out); return 2
    results = {}
    # evidence files describe the unchanged tree: keep them out of the way while the change is applied
    evdir = os.path.join(core.ROOT, "evidence")
    saved = {p: open(os.path.join(evdir, p + ".json")).read() for p in props_to_run if os.path.exists(os.path.join(evdir, p + ".json"))}
    try:
        for p in props_to_run:
            t0 = time.time()
            rc, out = sh([os.path.join(core.ROOT, "check"), "run", p, "--tier", tier], cwd=core.ROOT, timeout=7200)
            sigs = sorted(set(re.findall(r"\[" + p + r"\] (\S+) line", out)))
            results[p] = {"rc": rc, "signatures": sigs[:8], "wall_s": round(time.time() - t0, 1)}
            print(p, results[p], flush=True)
    finally:
        sh(["git", "-C", "/repo", "checkout", "--", "."])
        for p, txt in saved.items():
            open(os.path.join(evdir, p + ".json"), "w").write(txt)
    meta.setdefault("caught_by", {})
    meta["caught_by"].update({p: r for p, r in results.items()})
    meta["detected"] = any(r["rc"] == 1 for r in meta["caught_by"].values())
    json.dump(meta, open(os.path.join(d, "meta.json"), "w"), indent=1)
    return 0
