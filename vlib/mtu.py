"""C14, component part: the path-MTU search `mtu::SegmentSizes` (src/mtu.rs) against the contract spec/Mtu.tla.

  1. TLC on MCMtu (bounded instances of the contract Mtu.tla): for every link MTU of a boundary set x both
     families x a boundary-dense set of path limits p (thorough: EVERY p for link MTUs up to 1500) x cooldown
     periods x both ways a lost probe is noticed, the whole probe sequence with the environment answering each
     probe by "delivered iff size <= p", for EVERY probe size the contract admits (proven < s <= ceil and the
     search halves), interleaved with adversarial inputs (peer payload sizes 0 .. 70000, disarm, unused probe,
     non-path loss).  Invariants NeverAboveLink, OrdinaryWithinProven, ProbeStaysInRange,
     PeerCannotRaiseAboveCeiling, Converges, LogProbes, Budget, Settles; step properties Monotone, ProbeInRange,
     SearchHalves.
  2. spec -> impl: every finished behaviour comes out as a CASE = the environment script (configuration, path
     limit, injections) + what the contract determines about the run (initial mss / max_ss, final mss, largest
     admissible number of probes).  unit_mtu replays the scripts on the real SegmentSizes; the determined
     observables are compared directly and
  3. the recorded runs (one line per call) are judged by TLC with MtuTrace (same operators as the contract).
  4. impl -> spec: seeded random drives (unit_mtu record: hostile peer payloads, non-path losses, unused probes,
     cooldowns 0..65535, degenerate link MTUs), judged by MtuTrace.

`part(r, tier, seed)` adds all of this to an existing core.Result (the C14 check); `run` is the standalone check
(pid "MTU"); `replay(path)` re-runs a recorded violation."""
import json, os, re, shutil, time
from concurrent.futures import ThreadPoolExecutor
from . import core
from .core import log

PID = "MTU"
SCR = os.path.join(core.OUT, "mtu")
# MTU_UNIT_DIR: development self-test only (a scratch copy of the unit crate pointed at a mutated tree)
UNIT = os.environ.get("MTU_UNIT_DIR") or os.path.join(core.ROOT, "unit")
BIN = os.path.join(UNIT, "target", "debug", "unit_mtu")

RULES = ["C14.NeverAboveLink", "C14.OrdinaryWithinProven", "C14.ProbeInRange", "C14.SearchHalves", "C14.Monotone",
         "C14.Converges", "C14.LogProbes", "C14.PeerCannotRaiseAboveCeiling", "C14.MinimumRespected"]
# branches of the rules that a run must have exercised to count (vacuity guard)
MARKERS = ["C14.NeverAboveLink.hostile", "C14.OrdinaryWithinProven.raised", "C14.ProbeInRange.settled",
           "C14.SearchHalves.choice", "C14.SearchHalves.ok", "C14.SearchHalves.fail", "C14.Monotone.ceil_raised",
           "C14.Converges.settled", "C14.Converges.limited", "C14.LogProbes.exact", "C14.MinimumRespected.v4",
           "C14.MinimumRespected.v6", "C14.MinimumRespected.capped"]
MODEL_RULES = ["Mtu.Cooldown", "Mtu.Agreement"]      # reported, never deciding
# what a caller of part() should pass to Result.finish(required_cov=...) for this part
REQUIRED = RULES + MARKERS + ["C14.CaseExpectation"]
DECIDING = ("C14.", "Mtu.NoPanic")

CASE_RE = re.compile(r'^"CASE (\[[-0-9,\[\]]*\])"$', re.M)
KIND = {0: "peer(0)", 1: "peer(1)", 2: "peer(mss)", 3: "peer(mss+1)", 4: "peer(max_ss)", 5: "peer(max_ss+1)",
        6: "peer(65535)", 7: "peer(70000)", 8: "peer(link ceiling)", 9: "peer(link ceiling+1)", 10: "peer(p)",
        11: "peer(p+1)", 12: "peer(65536+mss+1)", 20: "disarm_cooldown", 21: "probe unused + disarm",
        22: "probe lost although it fits"}


def build():
    p = core.sh(["cargo", "build", "--offline", "--bin", "unit_mtu"], cwd=UNIT, timeout=1800, check=False)
    if p.returncode != 0:
        raise core.ToolError("unit_mtu build failed:\n" + p.stdout[-4000:])


def run_bin(args, timeout=900):
    p = core.sh([BIN] + [str(a) for a in args], timeout=timeout, check=False)
    if p.returncode != 0:
        raise core.ToolError(f"unit_mtu {args[0]} failed ({p.returncode}):\n{p.stdout[-2000:]}")
    return p.stdout


def cases_of(out):
    cs = CASE_RE.findall(out)
    if out.count('"CASE ') != len(cs):
        raise core.ToolError(f"garbled CASE lines in the TLC output ({out.count(chr(34) + 'CASE ')} vs {len(cs)})")
    return sorted(set(cs))


def describe(case):
    link, v4, cd, p, em, ncalls, inj, exp = case
    return {"link_mtu": link, "family": "IPv4" if v4 else "IPv6", "cooldown": cd, "path_limit_payload": p,
            "lost_probe_noticed_by": "EMSGSIZE" if em else "expiry", "max_calls": ncalls,
            "injections": [{"after_calls": "when settled" if k < 0 else k, "probe_outstanding": bool(ph),
                            "input": KIND.get(kind, kind)} for k, ph, kind in inj],
            "contract_expects": {"initial_mss": exp[0], "initial_max_ss": exp[1],
                                 "final_mss": exp[2] if exp[2] >= 0 else "not determined (untruthful reports)",
                                 "probes_at_most": exp[3]}}


def runs_of(trace_path):
    """[(first line number (1-based), new record, end record or None)] per run of a recorded file."""
    runs = []
    with open(trace_path) as f:
        for i, l in enumerate(f, 1):
            if '"op":"new"' in l:
                runs.append([i, json.loads(l), None])
            elif '"op":"end"' in l and runs:
                runs[-1][2] = json.loads(l)
    return runs


def run_index_of_line(runs, line):
    idx = 0
    for i, (first, _n, _e) in enumerate(runs):
        if first <= line:
            idx = i
        else:
            break
    return idx


def compare_expected(cases, runs):
    """spec -> impl, direct: the observables the contract determines (emitted by TLC in the CASE line) against the
    recorded run.  Returns [(run index, rule, ctx)]."""
    bad = []
    if len(cases) != len(runs):
        raise core.ToolError(f"replay recorded {len(runs)} runs for {len(cases)} cases")
    for i, (c, (_first, new, end)) in enumerate(zip(cases, runs)):
        exp = c[7]
        if (new["mss"], new["max"]) != (exp[0], exp[1]):
            bad.append((i, "C14.MinimumRespected", f"case: initial mss/max_ss {new['mss']}/{new['max']}, contract {exp[0]}/{exp[1]}"))
        if end is None:
            bad.append((i, "Mtu.NoPanic", "case: run did not end"))
            continue
        if exp[2] >= 0 and (end["mss"], end["max"]) != (exp[2], exp[2]):
            bad.append((i, "C14.Converges", f"case: final mss/max_ss {end['mss']}/{end['max']}, contract {exp[2]}"))
        if end["probes"] > exp[3]:
            bad.append((i, "C14.LogProbes", f"case: {end['probes']} probes, contract at most {exp[3]}"))
    return bad


def validate(tp, tag):
    return core.tlc_trace(tp, spec="MtuTrace", tag="mtu_" + tag, timeout=1500, xmx="3g")


# ------------------------------------------------------------------------------------------ the check
def part(r, tier, seed):
    """Adds the component-level evidence for C14 to the result `r` (models, cases, recorded runs, coverage,
    violations)."""
    thorough = tier == "thorough"
    t00 = time.time()
    build()
    d = os.path.join(SCR, f"run_{tier}_{seed}")
    shutil.rmtree(d, ignore_errors=True)
    os.makedirs(d, exist_ok=True)
    r.trusted = list(r.trusted) + ["TLC", "unit/src/bin/unit_mtu.rs (driver: plays the sender and the path around SegmentSizes)"]
    r.assumptions = list(r.assumptions) + [
        "component level: link MTU >= IP + UDP + uTP headers + 1 (smaller settings are judged against that smallest "
        "link MTU and counted separately); 'at most one probe outstanding and it is the newest' and data integrity are "
        "the sender's clauses and are not judged here (the driver never asks for a size while a probe is outstanding)",
        "Converges / the final size are judged only on runs whose reports were truthful: probes lost only because "
        "of the path limit and no reported payload above the path limit",
        "the number of ordinary segments between two probes (cooldown) is not constrained by C14: agreement with the "
        "modelled cooldown is reported as Mtu.Cooldown in the notes, not as a violation"]
    pool = ThreadPoolExecutor(max_workers=min(core.NCPU, 12))

    # ---- impl -> spec: recorded random drives (started first; they only need the binary)
    nrec, per = (8, 12000) if thorough else (3, 1200)

    def rec(i):
        tp = os.path.join(d, f"rec{i}.ndjson")
        run_bin(["record", seed * 1000 + i, per, tp])
        return validate(tp, f"rec_{tier}_{seed}_{i}"), {"kind": "record", "seed": seed * 1000 + i, "n": per}
    rec_futs = [pool.submit(rec, i) for i in range(nrec)]

    # ---- 1. the bounded models
    parts = [("grid", 6), ("inject", 6)] if not thorough else [("grid", 4), ("inject", 4), ("inject2", 4), ("dense", 4)]

    def model(pw):
        name, workers = pw
        res = core.tlc_model("MCMtu", tag=f"mc_MCMtu_{name}_{tier}", timeout=1500 if thorough else 200, workers=workers,
                             env_extra={"MTU_TIER": tier, "MTU_PART": name}, xmx="6g",
                             coverage=(not thorough and name == "grid"))
        res["cfg"] = f"MCMtu[{name},{tier}]"
        cs = cases_of(res["out"])
        m = re.search(r'<<"CONFIGS", (\d+)>>', res["out"])
        res["out"] = ""
        return res, cs, int(m.group(1)) if m else 0
    mres = list(pool.map(model, parts))
    cases, seen = [], set()
    configs = {}
    for (name, _w), (res, cs, ncfg) in zip(parts, mres):
        never = [a for a in res.get("never", []) if not (a == "MCInject" and name in ("grid", "dense"))]
        if never:
            raise core.ToolError(f"MCMtu[{name}]: actions never taken: {never}")
        r.add_model(res)
        configs[name] = {"configurations": ncfg, "cases": len(cs), "states": res.get("states")}
        for c in cs:
            if c not in seen:
                seen.add(c)
                cases.append(c)
    log(f"[MTU] models: {configs} in {time.time()-t00:.1f}s")
    parsed = [json.loads(c) for c in cases]
    kinds = {}
    for c in parsed:
        for _k, _ph, kind in c[6]:
            kinds[KIND[kind]] = kinds.get(KIND[kind], 0) + 1
    missing = [v for v in KIND.values() if v not in kinds]
    if missing:
        raise core.ToolError(f"MCMtu never injected: {missing}")

    # ---- 2./3. spec -> impl -> spec: replay the environment scripts, compare, judge the recorded runs
    nsh = min(len(cases), 12 if thorough else 8)
    shards = [list(range(k, len(cases), nsh)) for k in range(nsh)]

    def replay_shard(k):
        cp, ap = os.path.join(d, f"mc{k}.cases.ndjson"), os.path.join(d, f"mc{k}.answers.ndjson")
        with open(cp, "w") as f:
            for i in shards[k]:
                f.write(cases[i] + "\n")
        run_bin(["replay", cp, ap])
        runs = runs_of(ap)
        bad = compare_expected([parsed[i] for i in shards[k]], runs)
        return validate(ap, f"mc_{tier}_{seed}_{k}"), runs, bad
    t0 = time.time()
    sres = list(pool.map(replay_shard, range(nsh)))
    log(f"[MTU] {len(cases)} cases replayed and judged in {time.time()-t0:.1f}s")

    model_notes = {}
    nviol0 = len(r.violations)

    def take(v, script_of_line):
        r.trace_lines += v.get("lines", 0)
        for k, c in v.get("cov", {}).items():
            r.cov[k] = r.cov.get(k, 0) + c
        seen_runs = set()
        for x in sorted(v.get("viol", []), key=lambda x: (x["line"], x["rule"])):
            if not x["rule"].startswith(DECIDING):
                e = model_notes.setdefault(x["rule"], {"count": 0, "first": None})
                e["count"] += 1
                if e["first"] is None:
                    e["first"] = {"trace": v["trace"], "line": x["line"], "ctx": x["ctx"]}
                continue
            ri, script = script_of_line(x["line"])
            if (ri, x["rule"]) in seen_runs or len(r.violations) - nviol0 >= 12:
                continue
            seen_runs.add((ri, x["rule"]))
            r.violations.append((x, script, v["trace"]))

    replayed_lines = 0
    skipped = 0
    probes_hist = {}
    for k, (v, runs, bad) in enumerate(sres):
        replayed_lines += v["lines"]
        r.traces += len(runs)

        def sol(line, k=k, runs=runs):
            ri = run_index_of_line(runs, line)
            return (k, ri), {"kind": "case", "case": parsed[shards[k][ri]], "what": describe(parsed[shards[k][ri]])}
        take(v, sol)
        have = {json.dumps(x[1].get("case")) + x[0]["rule"] for x in r.violations if isinstance(x[1], dict)}
        for ri, rule, ctx in bad:
            c = parsed[shards[k][ri]]
            if json.dumps(c) + rule in have or len(r.violations) - nviol0 >= 12:
                continue
            r.violations.append(({"line": runs[ri][0], "rule": rule, "ctx": "case", "ep": "", "detail": ctx},
                                 {"kind": "case", "case": c, "what": describe(c)}, v["trace"]))
        for _f, _n, e in runs:
            if e is not None:
                skipped += e.get("skipped", 0)
                probes_hist[e["probes"]] = probes_hist.get(e["probes"], 0) + 1
    r.scripts += len(cases)
    r.cov["C14.CaseExpectation"] = r.cov.get("C14.CaseExpectation", 0) + len(cases)
    for c in cases:
        r.distinct.add("case:" + c)

    rec_lines = rec_runs = 0
    for v, script in (f.result() for f in rec_futs):
        runs = runs_of(v["trace"])
        rec_lines += v["lines"]
        rec_runs += v["runs"]
        r.traces += v["runs"]
        r.scripts += v["runs"]

        def sol(line, runs=runs, script=script):
            ri = run_index_of_line(runs, line)
            return ("rec", script["seed"], ri), dict(script, run=ri, config=runs[ri][1])
        take(v, sol)
        for _f, n, _e in runs:
            r.distinct.add(f"rec:{script['seed']}:{n['run']}")
    pool.shutdown()

    pick = [i for i in (len(cases) // 5, len(cases) // 2, len(cases) - 1) if 0 <= i < len(cases)]
    r.samples = list(r.samples) + [describe(parsed[i]) for i in pick[:2]]
    with open(os.path.join(d, "rec0.ndjson")) as f:
        r.samples.append({"recorded": [json.loads(next(f)) for _ in range(5)]})
    r.notes["mtu_component"] = {
        "model_parts": configs, "cases": len(cases), "injections_by_kind": kinds, "replayed_lines": replayed_lines,
        "injections_not_applicable_in_replay": skipped, "probes_per_replayed_run": dict(sorted(probes_hist.items())),
        "recorded_runs": rec_runs, "recorded_lines": rec_lines,
        "model_rules_not_deciding": {k: {"applicable": r.cov.get(k, 0), "disagreements": r.cov.get(k + ".disagree", 0),
                                         "first": model_notes.get(k, {}).get("first")}
                                     for k in MODEL_RULES},
        "wall_s": round(time.time() - t00, 1)}
    return r


def run(tier, seed):
    r = core.Result(PID, tier, seed)
    part(r, tier, seed)
    r.exhaustive = (
        "every behaviour of the contract (all admissible probe sizes) for link MTU in {headers+1, headers+2, 100, 576, "
        "577, 600, 1000, 1280, 1281, 1492, 1500, 9000, 65535} x IPv4/IPv6 x cooldown {0, 1, 3} x EMSGSIZE/expiry x "
        + ("every path limit between the minimum payload and the link ceiling for link MTUs up to 1500 (search-tree "
           "nodes to depth 7 and the 40 sizes next to either end for 9000 / 65535)" if tier == "thorough" else
           "the path limits at the nodes of the search tree to depth 2 and next to either end")
        + "; one injected input (16 kinds) at every point of the first 3 calls or at settle on a subset"
        + (" (all link MTUs), every pair of injections on three configurations" if tier == "thorough" else ""))
    return r.finish(
        rule_text="case = environment script of one finished behaviour of MCMtu: (link MTU, family, cooldown, path limit, "
                  "EMSGSIZE or expiry, injections at named points) + the observables the contract determines; distinct = "
                  "distinct scripts + distinct seeded random recorded runs",
        required_cov=REQUIRED)


def replay(path):
    """Re-run a recorded violation on the current implementation and judge it with MtuTrace."""
    d = json.load(open(path))
    sc = d["script"]
    build()
    rd = os.path.join(SCR, "replay")
    os.makedirs(rd, exist_ok=True)
    hits = []
    if sc["kind"] == "case":
        cp, ap = os.path.join(rd, "case.ndjson"), os.path.join(rd, "answers.ndjson")
        with open(cp, "w") as f:
            f.write(json.dumps(sc["case"], separators=(",", ":")) + "\n")
        run_bin(["replay", cp, ap])
        v = validate(ap, "replay")
        hits = [x for x in v["viol"] if x["rule"].startswith(DECIDING)]
        for i, rule, ctx in compare_expected([sc["case"]], runs_of(ap)):
            hits.append({"line": 1, "rule": rule, "ctx": ctx, "ep": ""})
        tp = ap
    else:
        tp = os.path.join(rd, "rec.ndjson")
        run_bin(["record", sc["seed"], sc["n"], tp])
        v = validate(tp, "replay")
        runs = runs_of(tp)
        hits = [x for x in v["viol"] if x["rule"].startswith(DECIDING) and run_index_of_line(runs, x["line"]) == sc.get("run")]
    for x in sorted(hits, key=lambda x: x["line"])[:10]:
        print("violation:", json.dumps(x), core.trace_line(tp, x["line"])[:300])
    print("trace:", tp)
    if hits:
        print(f"VIOLATION property={d.get('property', PID)} replay={path}")
        return 1
    return 0
