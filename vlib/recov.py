"""Component-level model-based check of the loss-recovery state machine `Recovery` (src/recovery.rs).
It serves C06 "three duplicate acknowledgements or equivalent selective-ACK evidence trigger a retransmission without
waiting for the timeout (unless a timeout recovery is already in progress)" and the "outside loss recovery" boundary
of C05; the rule names carry the property they serve:
  C06.FastRetxEnters  C06.NoSpuriousEntry  C06.NoEntryDuringRto  C06.RecoveryPoint  C06.ExitsOnFullAck
  C06.OnlyLostRetransmitted
  plus Recov.ObsAgrees (every observable equals the specification's) and Recov.NoPanic.
C06.NoEntryDuringRto has a state clause (the ignore period after a timeout INSIDE an episode, RFC 6675 5.1) and a wire
clause (no pass of the recovery branch retransmits anything while the dispatcher is in RTO mode).  A timeout OUTSIDE
an episode leaves the state machine as it is (no ignore period, count kept, a later episode takes the rewound
last_sent_seq_nr as its point): RFC 6582 4 would keep a timeout recovery there; what differs is congestion state, which
C06 does not constrain - counted as observations (OBSERVATIONS below, info["observations"]), never violations.

  1. TLC on MCRecovery (spec/Recovery.tla): every call sequence (packet / timer / send / enqueue / recovery pass) to
     6 (quick) / 8 (thorough) effective calls over small alphabets, from roots with 0..6 segments queued around the
     16-bit wrap, some already inside an episode or a timeout recovery; invariant Shape; every clause asserted on
     the specification's own answer to every call and must => reference => may (Consistent, BandOK).  TLC prints
     the transition graph and Obs of every state.
  2. spec -> impl: every transition becomes the case  canonical-history(from) ++ <<op>>  with the expected answer
     (is_recovering, recovery point, on_enter_recovery / on_recovered calls, first retransmission) and Obs(to);
     unit_recov replays each on fresh real objects (`Segments`, `Recovery`, `Cubic`); the answers must be EQUAL (what
     a recovery pass retransmits must lie within what the specification allows).  Cases that differ, and a sample of
     all cases, are re-run as scripts and judged by RecoveryTrace, which names the broken clauses.
  3. impl -> spec: unit_recov records long seeded random histories on the real objects (3 in 4 keep the
     dispatcher's discipline); RecoveryTrace steps Recovery.tla alongside and evaluates every rule on the recorded
     values.

`part(r, tier, seed, prefixes)` runs all of this and ADDS to an existing core.Result (models, cases, traces, coverage,
and the violations of the rules whose name starts with one of `prefixes`); `run` is the standalone check (property
id RECOV, all rules)."""
import hashlib, io, json, os, shutil, time
from concurrent.futures import ThreadPoolExecutor
from . import core
from .core import log

PID = "RECOV"
SCRATCH = os.path.join(core.OUT, "recov")
# the driver crate; VERIF_UNIT_DIR points the check at a scratch copy (mutation testing only)
UNIT = os.environ.get("VERIF_UNIT_DIR") or os.path.join(core.ROOT, "unit")
BIN = os.path.join(UNIT, "target", "debug", "unit_recov")

RULES = ["C06.FastRetxEnters", "C06.NoSpuriousEntry", "C06.NoEntryDuringRto", "C06.RecoveryPoint",
         "C06.ExitsOnFullAck", "C06.OnlyLostRetransmitted", "Recov.ObsAgrees", "Recov.NoPanic"]
# branches of the rules that a run must have exercised to count (vacuity guard)
MARKERS = ["C06.FastRetxEnters.dupacks", "C06.FastRetxEnters.sack", "C06.FastRetxEnters.baseExit",
           "C06.FastRetxEnters.baseIdle", "C06.FastRetxEnters.retransmits", "C06.NoSpuriousEntry.idleRepeat",
           "C06.NoSpuriousEntry.below", "C06.NoEntryDuringRto.evidence", "C06.NoEntryDuringRto.gated",
           "C06.ExitsOnFullAck.full",
           "C06.ExitsOnFullAck.partial", "C06.OnlyLostRetransmitted.some", "C06.OnlyLostRetransmitted.skipsDelivered"]
# observations (deviations from the strictest texts that the contract tolerates): counted, never required / violated
OBSERVATIONS = ["C06.NoSpuriousEntry.rawBitsOnly", "C06.ExitsOnFullAck.unaPastPoint",
                "C06.NoEntryDuringRto.entryAfterOpenTimeout", "C06.NoEntryDuringRto.pointNotRaised",
                "C06.RecoveryPoint.rewound"]
ALL_PREFIXES = ["C06.", "Recov."]
OPNAME = {"n": "new", "q": "enqueue", "d": "send", "a": "ack", "t": "rto", "x": "retx"}
SPEC_FILES = ("Recovery.tla", "MCRecovery.tla", "MCRecovery.cfg", "RecoveryTrace.tla", "RecoveryTrace.cfg", "SeqArith.tla")


def required(prefixes, r=None):
    """The rules / markers a caller that asked for `prefixes` should require to have been exercised (pass them to
    Result.finish as required_cov).  With `r`: nothing once r holds violations - a build that panics in the first
    calls exercises little, and that must come out as a violation, not as a vacuous run."""
    if r is not None and r.violations:
        return []
    return [x for x in RULES + MARKERS if any(x.startswith(p) for p in prefixes)]


def _dumps(v):
    return json.dumps(v, separators=(",", ":"))


def build():
    p = core.sh(["cargo", "build", "--offline", "--bin", "unit_recov"], cwd=UNIT, timeout=1800, check=False)
    if p.returncode != 0:
        raise core.ToolError("unit_recov build failed:\n" + p.stdout[-4000:])


def _bin(args, timeout=900):
    p = core.sh([BIN] + [str(a) for a in args], timeout=timeout, check=False)
    if p.returncode != 0:
        raise core.ToolError(f"unit_recov {args[0]} failed ({p.returncode}):\n{p.stdout[-2000:]}")
    return p.stdout


# ------------------------------------------------------------------------------------------ model -> cases
def graph_of(out):
    """(keys, obs, edges, roots, number of initial states) from the TLC output.  keys: the state keys (tuples, depth
    first) in sorted order - the index in it is the state's number; obs[n] = compact JSON of Obs(state n); edges =
    sorted [(from, op json, ans json, allow list, to)] by state number: sorted order is breadth first and does not
    depend on the number of TLC workers; roots = {state number: call history}.
    (The lines are cut with string operations: "T [[key],op,[ans],[allow],[key]]" - keys and ans hold integers only.)"""
    obs_of, raw, roots_raw, n_init = {}, [], {}, 0
    for line in io.StringIO(out):
        if line.startswith('"T '):
            b = line[4:line.rindex('"') - 1]                 # [key],op,[ans],[allow],[key]
            i = b.index("]")
            j = b.rindex("[")
            mid = b[i + 2:j - 1]                             # op,[ans],[allow]
            al = mid.rindex("[")
            an = mid.rindex("[", 0, al - 1)
            raw.append((b[1:i], mid[:an - 1].replace('\\"', '"'), mid[an:al - 1], mid[al:], b[j + 1:-1]))
        elif line.startswith('"S '):
            b = line[4:line.rindex('"') - 1]                 # [key],obs
            i = b.index("]")
            obs_of[b[1:i]] = b[i + 2:]
        elif line.startswith('"R '):
            key, hist = json.loads(line[3:line.rindex('"')].replace('\\"', '"'))
            k = ",".join(str(x) for x in key)
            n_init += 1
            if k not in roots_raw or _dumps(hist) < _dumps(roots_raw[k]):
                roots_raw[k] = hist
    tup = {k: tuple(int(x) for x in k.split(",")) for k in obs_of}
    order = sorted(obs_of, key=tup.__getitem__)
    keys = [tup[k] for k in order]
    num = {k: n for n, k in enumerate(order)}
    obs = [obs_of[k] for k in order]
    try:
        edges = [(num[f], op, ans, json.loads(allow) if allow != "[]" else [], num[t]) for f, op, ans, allow, t in raw]
        roots = {num[k]: h for k, h in roots_raw.items()}
    except KeyError as e:
        raise core.ToolError(f"transition from / into a state TLC did not print: {e}")
    edges.sort(key=lambda e: (e[0], e[1], e[4]))
    return keys, obs, edges, roots, n_init


def cases_of(keys, edges, roots):
    """One case per transition: the canonical history of the source state (a root's fixed history, else its first
    incoming transition in sorted breadth-first order) followed by the call.  cases[i] = (parent case index or -1,
    op json); answer[i] = (ans json or None, allow, state number or -1) the specification expects after it (None /
    -1: a call inside a root's history, not compared)."""
    cases, answer, canon = [], [], {}
    for n in sorted(roots):
        hist = roots[n]
        p = -1
        for j, op in enumerate(hist):
            cases.append((p, _dumps(op)))
            answer.append((None, [], n if j == len(hist) - 1 else -1))
            p = len(cases) - 1
        canon[n] = p
    nroot = len(cases)
    for frm, op, ans, allow, to in edges:
        p = canon.get(frm)
        if p is None:
            raise core.ToolError(f"transition from a state TLC never reached: {keys[frm]}")
        if to != frm:
            canon.setdefault(to, len(cases))
        cases.append((p, op))
        answer.append((ans, allow, to))
    return cases, answer, nroot


def chain_of(cases, i):
    ops = []
    while i >= 0:
        p, op = cases[i]
        ops.append(json.loads(op))
        i = p
    ops.reverse()
    return ops


def script_of_chain(ops):
    assert ops[0][0] == "n"
    return {"kind": "recov", "ops": ops}


def pretty(script):
    """Readable call sequence (for the evidence / the report)."""
    out = []
    for op in script["ops"]:
        k = op[0]
        if k == "n":
            out.append(f"fresh: snd_una={op[1]}, {op[2]} segments queued, the first {op[3]} transmitted")
        elif k == "q":
            out.append("enqueue")
        elif k == "d":
            out.append("transmit next segment")
        elif k == "t":
            out.append("retransmission timer fires (first segment resent, on_rto_timeout(last_sent), last_sent rewound)")
        elif k == "x":
            out.append("recovery pass of send_tx_queue")
        elif k == "a":
            bits = [8 * j + i for j, b in enumerate(op[3]) for i in range(8) if b >> i & 1]
            ty = {0: "ST_DATA", 1: "ST_FIN", 2: "ST_STATE"}.get(op[4], str(op[4]))
            out.append(f"{ty} ack_nr={op[1]} wnd={op[5]}" + (f" sack({len(op[3])} bytes, bits {bits})" if op[2] else ""))
    return out


# ------------------------------------------------------------------------------------------ traces
def run_scripts(scripts, tag):
    """Execute scripts (script mode) and let RecoveryTrace judge them.  Returns (verdict, first line of every script)."""
    os.makedirs(SCRATCH, exist_ok=True)
    sp = os.path.join(SCRATCH, f"{tag}.scripts.ndjson")
    tp = os.path.join(SCRATCH, f"{tag}.trace.ndjson")
    with open(sp, "w") as f:
        for s in scripts:
            f.write(_dumps({"ops": s["ops"]}) + "\n")
    _bin(["script", sp, tp])
    starts = []
    with open(tp) as f:
        for i, l in enumerate(f, 1):
            if '"op":["n",' in l:
                starts.append(i)
    v = core.tlc_trace(tp, spec="RecoveryTrace", tag=f"recov_{tag}", timeout=600)
    return v, starts


def script_of_line(trace_path, line):
    """The run (as a script) that contains the 1-based line of a recorded trace, cut after that line."""
    ops = []
    with open(trace_path) as f:
        for i, l in enumerate(f, 1):
            d = json.loads(l)
            if d["op"][0] == "n":
                ops = [d["op"]]
            else:
                ops.append(d["op"])
            if i >= line:
                break
    return {"kind": "recov", "ops": ops}


def _viols(v, script_for, out, seen, limit=40):
    """The violations of verdict v, one per rule@context: [violation, script, trace path]."""
    for x in sorted(v.get("viol", []), key=lambda x: (x["line"], x["rule"])):
        sig = core.signature(x)
        if sig in seen or len(seen) >= limit:
            continue
        seen.add(sig)
        out.append([{"line": x["line"], "rule": x["rule"], "ctx": x.get("ctx", ""), "ep": ""}, script_for(x["line"]), v["trace"]])


def _merge_cov(cov, v):
    for k, c in v.get("cov", {}).items():
        cov[k] = cov.get(k, 0) + c


def _agrees(line, ans, allow, ob):
    """Does the implementation's answer line equal the specification's?  ans None: a call inside a root's history
    (only the last one is compared, and only its Obs)."""
    if ans is None:
        if ob is None:
            return not line.startswith("{")
        try:
            got = json.loads(line)
        except ValueError:
            return False
        return isinstance(got, list) and _dumps(got[2]) == ob
    rec = ans[1]          # "[r,..": is_recovering
    if line == f"[{ans},[],{ob},[{rec},{rec}]]":
        return True
    try:
        got = json.loads(line)
    except ValueError:
        return False
    if not isinstance(got, list):
        return False
    g_ans, g_rtx, g_obs, g_aux = got
    return (_dumps(g_ans) == ans and _dumps(g_obs) == ob and g_aux == [g_ans[0], g_ans[0]]
            and set(g_rtx) <= set(allow) and (not g_rtx or g_ans[4] in (-1, g_rtx[0])))


# ------------------------------------------------------------------------------------------ the check
def _compute(tier, seed):
    """The whole component check.  Returns a JSON-serialisable summary (models, numbers, coverage, ALL violations
    with their scripts and traces) that `part` adds to a core.Result."""
    thorough = tier == "thorough"
    t_start = time.time()
    run_dir = os.path.join(SCRATCH, f"run_{tier}_{seed}")
    shutil.rmtree(run_dir, ignore_errors=True)
    os.makedirs(run_dir, exist_ok=True)
    seen, viols, cov = set(), [], {}
    traces = trace_lines = 0

    # ---- impl -> spec (in the background): recorded histories judged by RecoveryTrace
    nrec, per = (8, 30000) if thorough else (3, 5000)

    def rec(i):
        tp = os.path.join(run_dir, f"rec{i}.ndjson")
        _bin(["record", seed * 1000 + i, per, tp])
        return core.tlc_trace(tp, spec="RecoveryTrace", tag=f"recov_rec_{tier}_{seed}_{i}", timeout=1500, xmx="4g")
    pool = ThreadPoolExecutor(max_workers=4)
    rec_futs = [pool.submit(rec, i) for i in range(nrec)]

    # ---- 1. the bounded model
    workers = min(core.NCPU, 12) if thorough else max(2, min(core.NCPU, 12) - 2)
    res = core.tlc_model("MCRecovery", tag=f"mc_MCRecovery_{tier}_{seed}", timeout=2400 if thorough else 300,
                         workers=workers, env_extra={"RECOV_TIER": tier}, xmx="24g" if thorough else "8g")
    t0 = time.time()
    keys, obs, edges, roots, n_init = graph_of(res["out"])
    res["out"] = ""
    if res.get("transitions") is not None and len(edges) + n_init != res["transitions"]:
        raise core.ToolError(f"MCRecovery printed {len(edges)} transitions but generated {res['transitions']}")
    if res.get("states") is not None and len(obs) != res["states"]:
        raise core.ToolError(f"MCRecovery printed {len(obs)} states but found {res['states']}")
    by_op = {}
    for _f, op, _a, _al, _t in edges:
        by_op[op[2]] = by_op.get(op[2], 0) + 1
    by_op = {OPNAME[k]: c for k, c in sorted(by_op.items())}
    never = [o for o in ("enqueue", "send", "ack", "rto", "retx") if not by_op.get(o)]
    if never:
        raise core.ToolError(f"MCRecovery never took: {never}")
    cases, answer, nroot = cases_of(keys, edges, roots)
    log(f"[RECOV] MCRecovery: {res.get('states')} states, {len(edges)} transitions in {res['wall_s']:.1f}s; "
        f"{len(cases)} cases built in {time.time()-t0:.1f}s")

    # ---- 2. spec -> impl: exact-equality replay (every case from scratch on fresh objects; the shards share the
    # case file and answer the cases k, k + n, k + 2n, ...)
    cp = os.path.join(run_dir, "cases.ndjson")
    with open(cp, "w") as f:
        for p, op in cases:
            f.write(f"[{p},{op}]\n")
    t0 = time.time()
    nsh = 8 if thorough else 4
    with ThreadPoolExecutor(max_workers=nsh) as ex:
        list(ex.map(lambda k: _bin(["replay", cp, os.path.join(run_dir, f"answers{k}.ndjson"), k, nsh], timeout=3000), range(nsh)))
    differing = []
    n_ans = 0
    for k in range(nsh):
        with open(os.path.join(run_dir, f"answers{k}.ndjson")) as f:
            for j, a in enumerate(f):
                i = k + j * nsh
                n_ans += 1
                ans, allow, to = answer[i]
                if not _agrees(a.rstrip("\n"), ans, allow, obs[to] if to >= 0 else None):
                    differing.append(i)
    differing.sort()
    dset0 = set(differing)
    if n_ans != len(cases):
        raise core.ToolError(f"replay answered {n_ans} of {len(cases)} cases")
    log(f"[RECOV] replayed {len(cases)} cases in {time.time()-t0:.1f}s: {len(differing)} differ")
    # every case is a distinct (history, call); non-trivial: something is queued before the call, or the call
    # transmits / queues
    nontrivial = sum(1 for (p, op), (frm, _o, _a, _al, _t) in zip(cases[nroot:], edges)
                     if keys[frm][2] > 0 or op[2] in "dq")
    cov["Recov.ObsAgrees"] = len(cases)

    # cases judged clause by clause by RecoveryTrace: those whose answer differs (the shortest ones of every kind
    # of call), and a sample of all (every case whose expected answer begins or ends an episode up to a cap, and
    # evenly spaced ones)
    judged = 0
    picked = []
    if differing:
        # one group per (kind of call, mode and RTO mode of the specification's state before it, expected and actual
        # begin / end of an episode): the shortest histories of every group
        got = {}
        for k in range(nsh):
            with open(os.path.join(run_dir, f"answers{k}.ndjson")) as f:
                for j, a in enumerate(f):
                    if k + j * nsh in dset0:
                        f5 = a[2:a.index("]")].split(",") if a.startswith("[[") else []
                        got[k + j * nsh] = (f5[0], f5[2], f5[3]) if len(f5) == 5 else ("panic",)
        groups = {}
        for i in differing:
            frm = edges[i - nroot][0] if i >= nroot else 0
            exp = answer[i][0].split(",")[2:4] if answer[i][0] else []
            groups.setdefault((cases[i][1][2], keys[frm][7], keys[frm][6], tuple(exp), got.get(i, "")), []).append(i)
        for g in sorted(groups, key=str):
            picked += sorted(groups[g], key=lambda i: (len(chain_of(cases, i)), i))[:3]
        picked = sorted(picked, key=lambda i: (len(chain_of(cases, i)), i))[:240]
    ndiff_picked = len(picked)
    cap = 1200 if thorough else 400
    events = [i for i in range(nroot, len(cases)) if answer[i][0] is not None and answer[i][0][1:].split(",")[2:4] != ["0", "0"]]
    step = max(1, len(events) // (cap // 2))
    sample = events[::step][:cap // 2]
    rest = range(nroot, len(cases), max(1, (len(cases) - nroot) // (cap // 2)))
    dset = set(differing)
    sample = [i for i in list(sample) + list(rest) if i not in dset]
    picked += sample
    if picked:
        scripts = [script_of_chain(chain_of(cases, i)) for i in picked]
        v, starts = run_scripts(scripts, f"cases_{tier}_{seed}")
        judged = len(scripts)
        traces += len(scripts)
        trace_lines += v.get("lines", 0)
        _merge_cov(cov, v)

        def script_for(line, starts=starts, scripts=scripts):
            j = max(k for k, s in enumerate(starts) if s <= line)
            s = dict(scripts[j])
            s["ops"] = s["ops"][:line - starts[j] + 1]
            return s
        before = len(viols)
        _viols(v, script_for, viols, seen)
        if differing and len(viols) == before:    # answers differ but no clause fired: still a disagreement
            viols.append([{"line": starts[0] + len(scripts[0]["ops"]) - 1, "rule": "Recov.ObsAgrees", "ctx": "replay", "ep": ""},
                          scripts[0], v["trace"]])
        log(f"[RECOV] {len(differing)} cases differ; {judged} judged by RecoveryTrace ({ndiff_picked} of the differing), "
            f"{len(viols) - before} broken rule@context")

    # ---- 3. impl -> spec verdicts
    rec_lines = rec_runs = 0
    for v in [f.result() for f in rec_futs]:
        traces += v.get("runs", 0)
        trace_lines += v.get("lines", 0)
        rec_lines += v.get("lines", 0)
        rec_runs += v.get("runs", 0)
        _merge_cov(cov, v)
        _viols(v, lambda line, tp=v["trace"]: script_of_line(tp, line), viols, seen)
    pool.shutdown()

    # samples: two cases and the head of a recorded run
    samples = []
    for i in [j for j in (len(cases) // 2, len(cases) - 1) if nroot <= j < len(cases)][:2]:
        sc = script_of_chain(chain_of(cases, i))
        samples.append({"case": pretty(sc), "expected_ans": json.loads(answer[i][0]), "may_retransmit": answer[i][1],
                        "expected_obs": json.loads(obs[answer[i][2]]), "impl_equal": i not in dset})
    try:
        with open(os.path.join(run_dir, "rec0.ndjson")) as f:
            samples.append({"recorded": [json.loads(next(f)) for _ in range(4)]})
    except (OSError, StopIteration):
        pass
    info = {"states": res.get("states"), "transitions": len(edges), "cases": len(cases), "cases_nontrivial": nontrivial,
            "cases_differing": len(differing), "cases_judged_by_trace_spec": judged, "mc_calls_by_op": by_op,
            "roots": len(roots), "recorded_lines": rec_lines, "recorded_runs": rec_runs,
            "observations": {k: cov.get(k, 0) for k in OBSERVATIONS},
            "wall_s": round(time.time() - t_start, 1),
            "exhaustive": f"all call sequences to {8 if thorough else 6} effective calls over the alphabets of "
                          "MCRecovery.tla (folded by abstract state and depth) from its roots"}
    return {"model": {k: res.get(k) for k in ("spec", "cfg", "states", "transitions", "depth", "wall_s", "never", "timeout")},
            "cases": len(cases), "nontrivial": nontrivial, "rec_runs": rec_runs, "traces": traces,
            "trace_lines": trace_lines, "cov": cov, "violations": viols, "samples": samples, "info": info}


def _cache_key(tier, seed):
    """Everything the result depends on: the driver binary as built from the current tree (it contains the code
    under test), the specifications, this module, tier and seed."""
    h = hashlib.sha256()
    files = [BIN, os.path.abspath(__file__)] + [os.path.join(core.SPEC, f) for f in SPEC_FILES]
    for p in files:
        with open(p, "rb") as f:
            h.update(hashlib.sha256(f.read()).digest())
    h.update(f"{tier}/{seed}".encode())
    return h.hexdigest()


def part(r, tier, seed, prefixes, cache=True):
    """Run the whole component check and ADD its results to the core.Result `r`: the model, the cases (r.scripts /
    r.distinct), traces, rule coverage, and the violations of the rules whose name starts with one of `prefixes`
    (e.g. ["C06."]; "Recov." = agreement with the specification / panics).  Returns a dict of numbers (also put
    into r.notes["recovery_machine"]).
    The component check does not depend on the property that asks for it, so its summary is kept in
    out/recov/cache_<tier>_<seed>.json and re-used as long as the freshly built driver binary (hence the code under
    test), the specifications and this module are bit-identical (cache=False or RECOV_CACHE=0: always recompute)."""
    build()
    os.makedirs(SCRATCH, exist_ok=True)
    cpath = os.path.join(SCRATCH, f"cache_{tier}_{seed}.json")
    key = _cache_key(tier, seed)
    d = None
    if cache and os.environ.get("RECOV_CACHE", "1") != "0" and os.path.exists(cpath):
        try:
            c = json.load(open(cpath))
            if c.get("key") == key and all(os.path.exists(t) for _x, _s, t in c["summary"]["violations"]):
                d = c["summary"]
                log(f"[RECOV] same driver binary, specifications and seed as the run of {c.get('when')}: summary re-used")
        except (OSError, ValueError, KeyError):
            d = None
    if d is None:
        d = _compute(tier, seed)
        tmp = cpath + f".{os.getpid()}.tmp"
        with open(tmp, "w") as f:
            json.dump({"key": key, "when": time.strftime("%Y-%m-%d %H:%M:%S"), "summary": d}, f)
        os.replace(tmp, cpath)
    r.add_model(d["model"])
    r.scripts += d["cases"] + d["rec_runs"]
    r.distinct.update(("recov-case", j) for j in range(d["nontrivial"]))      # measured: every case is distinct
    r.distinct.update(("recov-rec", seed, j) for j in range(d["rec_runs"]))
    r.traces += d["traces"]
    r.trace_lines += d["trace_lines"]
    for k, c in d["cov"].items():
        r.cov[k] = r.cov.get(k, 0) + c
    n = 0
    for x, sc, tp in d["violations"]:
        if any(x["rule"].startswith(p) for p in prefixes) and n < 12:
            r.violations.append((x, sc, tp))
            n += 1
    r.samples.extend(d["samples"])
    r.notes["recovery_machine"] = d["info"]
    return d["info"]


RULE_TEXT = ("case = canonical call history (breadth-first, sorted) of a reachable state of MCRecovery + one call "
             "(packet: ack_nr stale / duplicate / partial / full / at the recovery point x no SACK / every pattern of "
             "the first 4 SACK bits / ST_DATA / window update; retransmission timer; transmit next; enqueue; recovery "
             "pass), answer (is_recovering, recovery point, on_enter_recovery / on_recovered calls, first "
             "retransmission, snd_una, queue, last_sent, RTO mode, delivered positions) compared for equality with the "
             "specification's, retransmitted set within the allowed one; distinct = distinct (history, call) with a "
             "non-empty queue or a transmission + seeded random recorded runs (40..240 calls each)")


def run(tier, seed):
    r = core.Result(PID, tier, seed)
    r.trusted = ["TLC", "unit/src/bin/unit_recov.rs (plays the dispatcher around Recovery: last_sent_seq_nr, RTO mode, the "
                 "recovery branch of send_tx_queue are transcriptions of src/stream_dispatch.rs)",
                 "guarded re-exports librqbit_utp::verif_api, Recovery::verif_on_rto_timeout"]
    r.assumptions = [
        "a packet never acknowledges (cumulatively) a sequence number that was not transmitted; selective-ACK bits may "
        "refer to anything",
        "one packet per poll: last_sent_seq_nr catches up with snd_una - 1 right after every packet (the dispatcher does "
        "it after the batch)",
        "no MTU probes, no FIN; sequence numbers compare by modular distance (C09), the antipode is not exercised",
        "a retransmission timeout outside an episode does not start an ignore period in the state machine (RFC 6675 5.1 "
        "read alone; RFC 6582 4 would): episodes that begin before the cumulative ACK reaches the highest sequence number "
        "transmitted at that timeout, their rewound recovery point, and ignore periods whose point a further timeout did "
        "not raise are COUNTED (notes: recovery_machine.observations) and tolerated - on the wire the dispatcher's RTO "
        "mode keeps fast retransmissions off while it lasts (C06.NoEntryDuringRto, wire clause); the cost is congestion "
        "state (on_enter_recovery right after on_retransmission_timeout, ssthresh of two segments after the next ACK)",
        "the evidence contract is a band: entering is obligatory on the strictest reading of the texts (RFC 5681 "
        "duplicate, >= 3 queued transmitted segments marked by the packet's bitmap) and permitted on the loosest (any "
        "3 non-advancing or SACK-carrying packets, >= 3 bits, >= 3 delivered segments); Recov.ObsAgrees pins the "
        "reference resolution inside it",
    ]
    part(r, tier, seed, ALL_PREFIXES, cache=False)
    r.exhaustive = True
    # a rule that was never exercised makes a HELD verdict vacuous; a run that dies early (panic in the first calls)
    # exercises little and is a violation, not a vacuous pass
    return r.finish(rule_text=RULE_TEXT, required_cov=required(ALL_PREFIXES, r))


def replay(path):
    """Re-run a recorded violation: the calls on the current implementation, judged by RecoveryTrace."""
    d = json.load(open(path))
    build()
    sc = d["script"]
    v, _starts = run_scripts([sc], "replay")
    pid = d.get("property", PID)
    want = d.get("violation", {}).get("rule")
    hits = [x for x in v["viol"] if pid == PID or x["rule"].startswith(pid + ".") or x["rule"] == want]
    for x in sorted(hits, key=lambda x: x["line"])[:10]:
        print("violation:", json.dumps(x), core.trace_line(v["trace"], x["line"])[:400])
    print("calls:", "; ".join(pretty(sc)))
    print("trace:", v["trace"])
    if hits:
        print(f"VIOLATION property={pid} replay={path}")
        return 1
    return 0
