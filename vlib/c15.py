"""C15 "CUBIC congestion window stays sane and reacts to loss".

  1. TLC on MCCubic (contract of spec/Cubic.tla): every call with every boundary argument from every
     reachable contract state to depth 4 (quick) / 6 (thorough); the rules must be jointly satisfiable
     (Assert) and the state-level consequences hold (Inv).  TLC prints the transition graph.
  2. spec -> impl: every transition becomes the case  canonical-history(from) ++ calls ; the cases are
     executed on the real `Cubic` (unit_cubic replay: a depth-first walk of the trie of cases, one line per
     call with window() / sshthresh() / uncapped window after it) and
  3. the recorded answers are judged by TLC with CubicTrace (same rule operators as the contract).
  4. impl -> spec: long seeded random call sequences (unit_cubic record), judged by CubicTrace.
A broken rule on a real answer is a VIOLATION; the replay file holds the call sequence that leads to it."""
import json, os, re, time, shutil, hashlib
from concurrent.futures import ThreadPoolExecutor
from . import core

PID = "C15"
# C15_UNIT_DIR: development self-test only (a scratch copy of the unit crate pointed at a mutated tree)
UNIT = os.environ.get("C15_UNIT_DIR") or os.path.join(core.ROOT, "unit")
BIN = os.path.join(UNIT, "target", "debug", "unit_cubic")
SCR = os.path.join(core.OUT, "c15")
RULES = ["C15.Clamp", "C15.Finite", "C15.InitialWindow", "C15.LossReaction", "C15.SlowStartGrowth", "C15.Rescale"]

# indices used by MCCubic: clock advance before the call / round-trip time sampled into a fresh estimator
DT = [[0, 0], [0, 1_000_000], [0, 50_000_000], [10, 0], [3600, 0]]
RTT = [[0, 0], [0, 1], [0, 50_000_000], [3600, 0]]
OBS_KEYS = ("d", "w", "s", "u", "smss", "nan", "panic", "rtt", "case")
OPNAME = {"n": "new", "m": "set_mss", "w": "set_rwnd", "a": "ack", "t": "rto", "e": "enter_recovery", "r": "recovered"}


def expand(t):
    k = t[0]
    if k == "n":
        return {"op": "new", "mss": t[1]}
    if k == "m":
        return {"op": "set_mss", "mss": t[1]}
    if k == "w":
        return {"op": "set_rwnd", "win": t[1]}
    if k == "a":
        return {"op": "ack", "dt": DT[t[1] - 1], "len": t[2], "fresh": True, "sample": RTT[t[3] - 1]}
    if k == "t":
        return {"op": "rto", "dt": DT[t[1] - 1]}
    if k == "e":
        return {"op": "enter_recovery", "dt": DT[t[1] - 1]}
    if k == "r":
        return {"op": "recovered", "cwnd": t[1], "ssthresh": t[2]}
    raise core.ToolError(f"unknown compact call {t}")


def build():
    p = core.sh(["cargo", "build", "--offline", "--bin", "unit_cubic"], cwd=UNIT, timeout=1800, check=False)
    if p.returncode != 0:
        raise core.ToolError("unit_cubic build failed:\n" + p.stdout[-4000:])


# ------------------------------------------------------------------------------------------ model -> cases
T_RE = re.compile(r'^<<"T", "(.*)">>$')


def graph_of(out):
    """Edges (depth_from, from_key, calls_json, to_key) printed by MCCubic, sorted (deterministic whatever the
    number of TLC workers)."""
    edges = []
    for line in out.splitlines():
        m = T_RE.match(line)
        if not m:
            continue
        frm, calls, to = json.loads(m.group(1).replace('\\"', '"'))
        d = -1 if frm[0] == "root" else frm[0]
        edges.append((d, tuple(frm[1:]) if d >= 0 else (), json.dumps(calls, separators=(",", ":")), tuple(to)))
    edges.sort()
    return edges


def cases_of(edges):
    """One case per (source state, calls): the canonical history of the source state (first incoming transition in
    sorted order) followed by the calls.  Returns (cases, sub, answers): cases[i] = (parent case index or None,
    calls), sub[i] = top-level subtree, answers[i] = the witness machine's answers (w, u, s) to the last call (more
    than one where the witness is nondeterministic: congestion avoidance)."""
    canon = {}     # (depth, key) -> index of the canonical case that ends there
    index = {}     # (parent, calls) -> case index
    cases, sub, answers = [], [], []
    for d, frm, calls, to in edges:
        if d < 0:
            p = None
        else:
            p = canon.get((d,) + frm)
            if p is None:
                raise core.ToolError(f"transition from a state TLC never reached: {(d,) + frm}")
        i = index.get((p, calls))
        if i is None:
            i = index[(p, calls)] = len(cases)
            cases.append((p, calls))
            sub.append(-1 if d < 0 else i if d == 0 else sub[p])
            answers.append([])
        answers[i].append(to[-3:])
        canon.setdefault(to, i)
    return cases, sub, answers


def full_case(cases, i):
    seq = []
    while i is not None:
        p, calls = cases[i]
        seq = [expand(t) for t in json.loads(calls)] + seq
        i = p
    return seq


def write_shards(cases, sub, nshards, prefix):
    """Split by top-level subtree (first call after `new`), balanced by size; every shard is closed under
    prefixes.  Returns [(path, case index of every line of the shard)]."""
    size = {}
    for s in sub:
        if s >= 0:
            size[s] = size.get(s, 0) + 1
    load = [0] * nshards
    where = {}
    for s, n in sorted(size.items(), key=lambda x: (-x[1], x[0])):
        k = load.index(min(load))
        where[s] = k
        load[k] += n
    files = [open(f"{prefix}{k}.cases.ndjson", "w") for k in range(nshards)]
    local = [dict() for _ in range(nshards)]     # global case index -> line number in the shard
    count = [0] * nshards
    for i, (p, calls) in enumerate(cases):
        exp = [expand(t) for t in json.loads(calls)]
        targets = range(nshards) if sub[i] < 0 else (where[sub[i]],)
        for k in targets:
            if p is None:
                files[k].write(json.dumps(exp) + "\n")
            else:
                files[k].write(json.dumps({"p": local[k][p], "c": exp}) + "\n")
            local[k][i] = count[k]
            count[k] += 1
    for f in files:
        f.close()
    glob = [sorted(local[k], key=local[k].get) for k in range(nshards)]   # line number in the shard -> case index
    return [(f"{prefix}{k}.cases.ndjson", glob[k]) for k in range(nshards) if load[k] > 0]


def drift(answers, shards):
    """spec -> impl comparison of answers: how often the real controller's (w, u, s) after the last call of a
    case equals (within 2 bytes) what the contract's witness machine answers.  A statistic, never a verdict:
    the contract is nondeterministic (congestion-avoidance growth, the value kept below the floor)."""
    agree = total = 0
    first = None
    for path, glob in shards:
        with open(path.replace(".cases.ndjson", ".answers.ndjson")) as f:
            for l in f:
                if '"case"' not in l:
                    continue
                r = json.loads(l)
                exp = answers[glob[r["case"]]]
                total += 1
                if any(all(abs(a - b) <= 2 for a, b in zip((r["w"], r["u"], r["s"]), to)) for to in exp):
                    agree += 1
                elif first is None:
                    first = {"witness_w_u_s": [list(t) for t in exp], "answer": {k: r[k] for k in ("op", "w", "u", "s")}}
    return {"cases_compared": total, "answers_equal_to_witness": agree, "first_difference": first}


# ------------------------------------------------------------------------------------------ traces
def script_of(trace_path, line):
    """The call sequence that leads to (and includes) the given 1-based line: walk back along the slots."""
    rows = []
    with open(trace_path) as f:
        for i, l in enumerate(f, 1):
            rows.append(l)
            if i >= line:
                break
    seq = []
    i = len(rows) - 1
    r = json.loads(rows[i])
    while True:
        seq.append({k: v for k, v in r.items() if k not in OBS_KEYS})
        if r["op"] == "new":
            break
        want = r["d"] - 1
        i -= 1
        while i >= 0:
            r = json.loads(rows[i])
            if (want < 0 and r["op"] == "new") or (want >= 0 and r["op"] != "new" and r["d"] == want):
                break
            i -= 1
        if i < 0:
            break
    seq.reverse()
    return seq


def run_hashes(trace_path):
    """One hash per recorded run (the calls between two `new` lines, arguments only)."""
    out, h = set(), None
    with open(trace_path) as f:
        for l in f:
            if '"op":"new"' in l:
                if h is not None:
                    out.add(h.hexdigest())
                h = hashlib.md5()
            r = json.loads(l)
            h.update(json.dumps({k: v for k, v in r.items() if k not in OBS_KEYS}, sort_keys=True).encode())
    if h is not None:
        out.add(h.hexdigest())
    return out


def validate(jobs, workers):
    """jobs: [(tag, fn() -> trace_path)].  Produce and validate in parallel; returns [(verdict, tag)]."""
    def one(job):
        tag, make = job
        tp = make()
        v = core.tlc_trace(tp, spec="CubicTrace", tag="c15_" + tag, timeout=1500, xmx="4g")
        return v, tag
    with ThreadPoolExecutor(max_workers=max(1, workers)) as ex:
        return list(ex.map(one, jobs))


def run_bin(args, timeout=900):
    p = core.sh([BIN] + args, timeout=timeout, check=False)
    if p.returncode != 0:
        raise core.ToolError(f"unit_cubic {' '.join(args[:1])} failed ({p.returncode}):\n{p.stdout[-2000:]}")
    return p.stdout


# ------------------------------------------------------------------------------------------ the check
def run(tier, seed):
    thorough = tier == "thorough"
    r = core.Result(PID, tier, seed)
    r.trusted = ["TLC", "unit/src/bin/unit_cubic.rs (driver: calls the trait methods, reads window()/sshthresh(), "
                 "saturates at 2^31-1)", "guarded re-exports librqbit_utp::verif_api"]
    r.assumptions = [
        "mss >= 1; arguments up to 2^30; integers saturate at 2^31-1 in the recorded lines and the saturated value is read as 'not finite'",
        "clamp and rescale are judged after set_mss; set_remote_window (the peer window re-applied under the current MSS); "
        "between a lone set_mss and the next set_remote_window only the rules that do not mention the peer window apply",
        "the congestion window proper (u) is read off a copy of the controller with a 2^40 peer window applied",
    ]
    build()
    shutil.rmtree(SCR + "/run", ignore_errors=True)
    os.makedirs(SCR + "/run", exist_ok=True)
    workers = min(core.NCPU, 12)

    # 1. the bounded model
    t0 = time.time()
    res = core.tlc_model("MCCubic", timeout=1500 if thorough else 240, workers=workers,
                         env_extra={"C15_TIER": tier}, xmx="8g")
    r.add_model(res)
    edges = graph_of(res["out"])
    res["out"] = ""
    if res.get("transitions") is not None and len(edges) != res["transitions"]:
        raise core.ToolError(f"MCCubic printed {len(edges)} transitions but generated {res['transitions']}")
    by_op = {}
    for _, _, calls, _ in edges:
        for t in json.loads(calls):
            by_op[OPNAME[t[0]]] = by_op.get(OPNAME[t[0]], 0) + 1
    missing_ops = [o for o in OPNAME.values() if by_op.get(o, 0) == 0]
    if missing_ops:
        raise core.ToolError(f"MCCubic never took: {missing_ops}")
    cases, sub, answers = cases_of(edges)
    core.log(f"[C15] MCCubic: {res.get('states')} states, {len(edges)} transitions, {len(cases)} cases in {time.time()-t0:.1f}s")

    # 2./3. spec -> impl -> spec
    nrec, per = (12, 120000) if thorough else (4, 25000)
    shards = write_shards(cases, sub, workers if thorough else max(2, workers - nrec), SCR + "/run/mc")
    jobs = []
    for path, _n in shards:
        ans = path.replace(".cases.ndjson", ".answers.ndjson")
        jobs.append(("mc" + os.path.basename(path).split(".")[0],
                     (lambda path=path, ans=ans: (run_bin(["replay", path, ans]), ans)[1])))
    # 4. impl -> spec
    for i in range(nrec):
        tp = f"{SCR}/run/rec{i}.ndjson"
        jobs.append((f"rec{i}", (lambda tp=tp, i=i: (run_bin(["record", str(seed * 1000 + i), str(per), tp]), tp)[1])))
    t0 = time.time()
    verdicts = validate(jobs, workers)
    core.log(f"[C15] {len(jobs)} traces validated in {time.time()-t0:.1f}s")

    seen_sig = set()
    mc_lines = rec_lines = rec_runs = 0
    for v, tag in verdicts:
        r.traces += 1
        r.trace_lines += v["lines"]
        if tag.startswith("mc"):
            mc_lines += v["lines"]
        else:
            rec_lines += v["lines"]
            rec_runs += v["runs"]
        for k, c in v.get("cov", {}).items():
            r.cov[k] = r.cov.get(k, 0) + c
        for x in sorted(v.get("viol", []), key=lambda x: x["line"]):
            sig = core.signature(x)
            if sig in seen_sig:
                continue
            seen_sig.add(sig)
            r.violations.append((x, script_of(v["trace"], x["line"]), v["trace"]))
    # evaluations = cases (one per transition of the model) + recorded runs; distinct = measured
    r.scripts = len(cases) + rec_runs
    r.distinct = set(cases)
    for i in range(nrec):
        r.distinct |= run_hashes(f"{SCR}/run/rec{i}.ndjson")
    pick = [i for i in (len(cases) // 3, 2 * len(cases) // 3, len(cases) - 1) if 0 <= i < len(cases)]
    r.samples = [full_case(cases, i) for i in pick[:2]]
    with open(f"{SCR}/run/rec0.ndjson") as f:
        r.samples.append({"recorded": [json.loads(next(f)) for _ in range(4)]})
    r.notes["witness_drift"] = drift(answers, shards)
    r.notes["mc_calls_by_op"] = by_op
    r.notes["replayed_prefixes"] = mc_lines
    r.notes["recorded_lines"] = rec_lines
    r.notes["recorded_runs"] = rec_runs
    r.exhaustive = True
    return r.finish(
        rule_text="case = canonical call history of a reachable contract state of MCCubic + one call (or the pair "
                  "set_mss; set_remote_window) with boundary arguments (acked 0/1/mss/10mss/2^30, rwnd 0/1/mss-1/2mss/2^30, "
                  "mss 1/5/528/1452/9000, clock advance 0..1h, rtt 0/1ns/50ms/1h); distinct = distinct (history, call) "
                  "cases + distinct seeded random recorded runs (40..400 calls each)",
        required_cov=RULES)


def replay(path):
    d = json.load(open(path))
    build()
    os.makedirs(SCR + "/replay", exist_ok=True)
    cp = SCR + "/replay/case.ndjson"
    ap = SCR + "/replay/answers.ndjson"
    with open(cp, "w") as f:
        f.write(json.dumps(d["script"]) + "\n")
    run_bin(["replay", cp, ap])
    v = core.tlc_trace(ap, spec="CubicTrace", tag="c15_replay", timeout=300)
    hits = [x for x in v["viol"] if x["rule"].startswith(PID + ".")]
    for x in hits:
        print("violation:", json.dumps(x), core.trace_line(ap, x["line"])[:300])
    print("trace:", ap)
    if hits:
        print(f"VIOLATION property={PID} replay={path}")
        return 1
    return 0
