pub mod driver;
pub mod env;
pub mod net;
pub mod peer;
pub mod script;
pub mod stream;
pub mod trace;
