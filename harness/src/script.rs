//! Script language: what TLC (or a scenario generator) emits and the drivers execute.

use serde::Deserialize;
use serde_json::Value;

use crate::net::{DirCfg, Rule};

#[derive(Debug, Clone, Deserialize, Default)]
#[serde(default)]
pub struct SockOpts {
    pub link_mtu: Option<usize>,
    pub rx_buf: Option<usize>,
    pub tx_init: Option<usize>,
    pub tx_max: Option<usize>,
    pub nagle: Option<bool>,
    pub max_retx: Option<usize>,
    pub inactivity_ms: Option<u64>,
    pub limit: Option<usize>,
    pub wait_last_ack: Option<bool>,
    pub probe_retx: Option<usize>,
}

#[derive(Debug, Clone, Deserialize)]
pub struct SockCfg {
    pub name: String,
    pub addr: String,
    #[serde(default)]
    pub rand: Vec<u16>,
    #[serde(default)]
    pub opts: SockOpts,
    /// raw scripted peer instead of a library socket
    #[serde(default)]
    pub raw: bool,
}

#[derive(Debug, Clone, Deserialize, Default)]
#[serde(default)]
pub struct Cfg {
    pub name: String,
    pub seed: u64,
    pub net: DirCfg,
    pub socks: Vec<SockCfg>,
    /// hook event kinds not to record
    pub mute: Vec<String>,
    /// free-form information copied into the trace header (schedule class, family, ...)
    pub info: Value,
}

#[derive(Debug, Clone, Deserialize)]
pub struct Script {
    pub cfg: Cfg,
    pub steps: Vec<Step>,
}

#[derive(Debug, Clone, Deserialize)]
#[serde(tag = "op", rename_all = "snake_case")]
pub enum Step {
    Connect {
        sock: String,
        to: String,
        ep: String,
    },
    Accept {
        sock: String,
        ep: String,
    },
    Write {
        ep: String,
        n: u64,
        #[serde(default)]
        chunk: Option<usize>,
    },
    Read {
        ep: String,
        #[serde(default)]
        n: Option<u64>,
        #[serde(default)]
        chunk: Option<usize>,
    },
    Flush {
        ep: String,
    },
    Shutdown {
        ep: String,
    },
    DropR {
        ep: String,
    },
    DropW {
        ep: String,
    },
    Drop {
        ep: String,
    },
    /// drop a pending connect/accept future
    Abandon {
        ep: String,
    },
    /// an accept call that is polled ONCE (it registers with the dispatcher) and then just held - like the losing
    /// branch of a `select!` or a call under a timeout; `accept_held_drop` lets go of it without polling it again
    AcceptHeld {
        sock: String,
        ep: String,
    },
    AcceptHeldDrop {
        ep: String,
    },
    /// marker: the NEXT step is executed without letting the other tasks run first, so that what the two steps
    /// produce (a datagram in the socket's queue and a registered accept call, say) is seen by the dispatcher task
    /// in one and the same poll
    Together {},
    Cancel {
        sock: String,
    },
    Sleep {
        us: u64,
    },
    /// wait (advancing virtual time) until the named operations have returned
    Wait {
        #[serde(default)]
        ep: Option<String>,
        #[serde(default)]
        what: Option<String>,
        timeout_us: u64,
    },
    NetSet {
        from: String,
        to: String,
        #[serde(flatten)]
        set: Value,
    },
    Rule(Rule),
    ClearRules {},
    Rand {
        sock: String,
        v: Vec<u16>,
    },
    /// scripted raw peer intent (D-peer)
    Peer {
        name: String,
        #[serde(flatten)]
        intent: Value,
    },
    /// marker copied to the trace
    Mark {
        #[serde(default)]
        label: String,
    },
}
