//! utpsim run <scripts.json|-> <out.ndjson>
//!   scripts.json: one script object, or an array of scripts, or ND-JSON (one script per line).
use std::io::{Read, Write};

use utp_verif_harness::{driver::run_script, script::Script, trace::Tracer};

fn load(path: &str) -> Vec<Script> {
    let mut s = String::new();
    if path == "-" {
        std::io::stdin().read_to_string(&mut s).unwrap();
    } else {
        s = std::fs::read_to_string(path).unwrap_or_else(|e| panic!("read {path}: {e}"));
    }
    let t = s.trim_start();
    if t.starts_with('[') {
        serde_json::from_str(t).expect("parse script array")
    } else {
        // one object, or ND-JSON
        let mut out = Vec::new();
        let de = serde_json::Deserializer::from_str(t).into_iter::<Script>();
        for sc in de {
            out.push(sc.expect("parse script"));
        }
        out
    }
}

fn main() {
    let args: Vec<String> = std::env::args().collect();
    if args.len() < 4 || args[1] != "run" {
        eprintln!("usage: utpsim run <scripts> <out.ndjson>");
        std::process::exit(2);
    }
    let scripts = load(&args[2]);
    let tracer = Tracer::new();
    {
        // panics in library tasks are caught by tokio; record them as trace events
        let t = tracer.clone();
        std::panic::set_hook(Box::new(move |info| {
            let msg = info
                .payload()
                .downcast_ref::<String>()
                .cloned()
                .or_else(|| info.payload().downcast_ref::<&str>().map(|s| s.to_string()))
                .unwrap_or_else(|| "panic".into());
            let loc = info
                .location()
                .map(|l| format!("{}:{}", l.file(), l.line()))
                .unwrap_or_default();
            utp_verif_harness::ev!(t, "panic", "task": "lib", "msg": msg, "loc": loc);
        }));
    }
    let mut out = std::io::BufWriter::new(std::fs::File::create(&args[3]).expect("create out"));
    let mut total = 0usize;
    for sc in &scripts {
        for m in &sc.cfg.mute {
            let k: &'static str = Box::leak(m.clone().into_boxed_str());
            tracer.mute(k);
        }
        // a panic inside the library under test is data, not a harness crash
        let r = std::panic::catch_unwind(std::panic::AssertUnwindSafe(|| run_script(sc, &tracer)));
        if let Err(e) = r {
            let msg = e
                .downcast_ref::<String>()
                .cloned()
                .or_else(|| e.downcast_ref::<&str>().map(|s| s.to_string()))
                .unwrap_or_else(|| "panic".into());
            utp_verif_harness::ev!(tracer, "panic", "task": "driver", "msg": msg);
        }
        for l in tracer.take_lines() {
            total += 1;
            writeln!(out, "{l}").unwrap();
        }
    }
    out.flush().unwrap();
    eprintln!("scripts={} lines={}", scripts.len(), total);
}
