//! Scripted raw-datagram peer (D-peer). Filled in below.

use std::{collections::HashMap, net::SocketAddr};

use serde_json::Value;
use tokio::sync::mpsc::UnboundedReceiver;

use crate::{net::{Dgram, SimNet}, trace::Tracer};

pub struct RawPeer {
    pub name: String,
    pub addr: SocketAddr,
    pub net: SimNet,
    pub tracer: Tracer,
    pub rx: UnboundedReceiver<Dgram>,
}

impl RawPeer {
    pub fn new(name: &str, addr: SocketAddr, net: SimNet, tracer: Tracer, rx: UnboundedReceiver<Dgram>) -> Self {
        RawPeer { name: name.to_string(), addr, net, tracer, rx }
    }

    pub async fn exec(&mut self, _intent: &Value, _names: &HashMap<String, SocketAddr>, _default: Option<SocketAddr>) {}
}
