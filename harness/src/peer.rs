//! Scripted raw-datagram peer (D-peer): a state-aware interpreter of *intents*. Sequence and
//! acknowledgement numbers are resolved against what the endpoint under test has actually sent,
//! so a script stays meaningful whatever the endpoint's exact packetisation is.
//!
//! Everything the peer emits goes through the simulated network like any other datagram and is
//! logged as a `tx` line marked `raw` (the specification holds only library sockets to its rules).

use std::{
    collections::{BTreeSet, HashMap},
    net::SocketAddr,
};

use serde_json::Value;
use tokio::sync::mpsc::UnboundedReceiver;

use crate::{
    ev,
    net::{Dgram, SimNet, peek, stream_key},
    stream::fill,
    trace::Tracer,
};

#[derive(Clone, Debug)]
struct Got {
    ty: u8,
    cid: u16,
    seq: u16,
    #[allow(dead_code)]
    ack: u16,
    #[allow(dead_code)]
    wnd: u32,
    #[allow(dead_code)]
    plen: usize,
}

pub struct RawPeer {
    pub name: String,
    pub addr: SocketAddr,
    pub net: SimNet,
    pub tracer: Tracer,
    pub rx: UnboundedReceiver<Dgram>,

    target: Option<SocketAddr>,
    // connection ids: what we put into packets we send / what arrives in packets we receive
    cid_tx: u16,
    #[allow(dead_code)]
    cid_rx: u16,
    // our sequence space
    seq_nr: u16, // next seq to use for DATA / FIN
    // what we received from the endpoint under test
    got: Vec<Got>,
    have: BTreeSet<u16>, // DATA/FIN seqs received (wire values)
    in_order: u16,       // highest in-order seq received (ack_nr we would send)
    have_base: bool,
    wnd: u32,
    // our data stream
    sent_off: u64,
    chunks: Vec<(u16, u64, usize)>, // (seq, off, len) of DATA we sent
    ahead_sent: HashMap<u16, usize>, // seq -> len of chunks sent ahead of the in-order point
    syn: Option<Got>,
}

fn dist(a: u16, b: u16) -> i32 {
    let d = a.wrapping_sub(b) as i32;
    if d >= 32768 { d - 65536 } else { d }
}

impl RawPeer {
    pub fn new(
        name: &str,
        addr: SocketAddr,
        net: SimNet,
        tracer: Tracer,
        rx: UnboundedReceiver<Dgram>,
    ) -> Self {
        RawPeer {
            name: name.to_string(),
            addr,
            net,
            tracer,
            rx,
            target: None,
            cid_tx: 0,
            cid_rx: 0,
            seq_nr: 1,
            got: Vec::new(),
            have: BTreeSet::new(),
            in_order: 0,
            have_base: false,
            wnd: 1 << 20,
            sent_off: 0,
            chunks: Vec::new(),
            ahead_sent: HashMap::new(),
            syn: None,
        }
    }

    fn drain(&mut self) {
        while let Ok((from, data)) = self.rx.try_recv() {
            if self.target.is_none() {
                self.target = Some(from);
            }
            let Some(h) = peek(&data) else { continue };
            let g = Got {
                ty: h.ty,
                cid: h.cid,
                seq: h.seq,
                ack: h.ack,
                wnd: h.wnd,
                plen: data.len() - h.hlen,
            };
            if h.ty == 4 {
                // SYN from the endpoint under test: it will send with cid+1 and receive on cid
                self.syn = Some(g.clone());
                self.cid_tx = h.cid;
                self.cid_rx = h.cid.wrapping_add(1);
                self.in_order = h.seq;
                self.have_base = true;
            } else if h.ty == 0 || h.ty == 1 {
                if !self.have_base {
                    self.in_order = h.seq.wrapping_sub(1);
                    self.have_base = true;
                }
                if dist(h.seq, self.in_order) > 0 {
                    self.have.insert(h.seq);
                }
                while self.have.remove(&self.in_order.wrapping_add(1)) {
                    self.in_order = self.in_order.wrapping_add(1);
                }
            } else if !self.have_base {
                // first packet of an accepted connection (SYN-ACK): its seq_nr is the next one it will use
                self.in_order = h.seq.wrapping_sub(1);
                self.have_base = true;
            }
            self.got.push(g);
        }
    }

    /// Move our in-order send point over chunks that were already sent ahead.
    fn skip_ahead(&mut self) {
        while let Some(l) = self.ahead_sent.remove(&self.seq_nr) {
            self.seq_nr = self.seq_nr.wrapping_add(1);
            self.sent_off += l as u64;
        }
    }

    fn header(&self, ty: u8, seq: u16, ack: u16, wnd: u32, sack: Option<Vec<u8>>) -> Vec<u8> {
        let mut b = vec![0u8; 20];
        b[0] = (ty << 4) | 1;
        b[1] = if sack.is_some() { 1 } else { 0 };
        b[2..4].copy_from_slice(&self.cid_tx.to_be_bytes());
        let ts = self.tracer.now_us() as u32;
        b[4..8].copy_from_slice(&ts.to_be_bytes());
        b[12..16].copy_from_slice(&wnd.to_be_bytes());
        b[16..18].copy_from_slice(&seq.to_be_bytes());
        b[18..20].copy_from_slice(&ack.to_be_bytes());
        if let Some(s) = sack {
            b.push(0);
            b.push(s.len() as u8);
            b.extend_from_slice(&s);
        }
        b
    }

    fn emit(&self, to: SocketAddr, data: &[u8]) {
        let _ = self.net.send(None, self.addr, to, data);
    }

    /// SACK bytes for what we hold out of order relative to `ack` (or explicit offsets).
    fn sack_for(&self, ack: u16, explicit: Option<&Vec<Value>>, len: usize) -> Option<Vec<u8>> {
        let mut bytes = vec![0u8; len];
        let mut any = false;
        match explicit {
            Some(offs) => {
                for o in offs {
                    if let Some(o) = o.as_u64() {
                        let o = o as usize;
                        if o / 8 < len {
                            bytes[o / 8] |= 1 << (o % 8);
                            any = true;
                        }
                    }
                }
                if offs.is_empty() {
                    any = true; // explicit empty SACK
                }
            }
            None => {
                for s in &self.have {
                    let o = dist(*s, ack.wrapping_add(2));
                    if o >= 0 && (o as usize) / 8 < len {
                        bytes[o as usize / 8] |= 1 << (o as usize % 8);
                        any = true;
                    }
                }
            }
        }
        if any { Some(bytes) } else { None }
    }

    pub async fn exec(
        &mut self,
        intent: &Value,
        names: &HashMap<String, SocketAddr>,
        default: Option<SocketAddr>,
    ) {
        self.drain();
        let kind = intent.get("intent").and_then(|v| v.as_str()).unwrap_or("");
        if let Some(t) = intent.get("to").and_then(|v| v.as_str()) {
            self.target = names.get(t).copied().or(self.target);
        }
        let to = match self.target.or(default) {
            Some(t) => t,
            None => return,
        };
        self.target = Some(to);
        if let Some(w) = intent.get("wnd").and_then(|v| v.as_u64()) {
            self.wnd = w as u32;
        }
        let geti = |k: &str, d: i64| intent.get(k).and_then(|v| v.as_i64()).unwrap_or(d);
        ev!(self.tracer, "peer", "name": &self.name, "intent": intent.clone(),
            "in_order": self.in_order, "held": self.have.len(), "seq_nr": self.seq_nr);
        match kind {
            "syn" => {
                // we initiate: the endpoint under test receives on cid+1 and sends with cid
                let cid = geti("cid", 100) as u16;
                let seq = geti("seq", 1) as u16;
                self.cid_rx = cid;
                let save = self.cid_tx;
                self.cid_tx = cid;
                let b = self.header(4, seq, 0, 0, None);
                self.cid_tx = save;
                self.emit(to, &b);
                self.cid_tx = cid.wrapping_add(1);
                self.seq_nr = seq.wrapping_add(1);
            }
            "synack" => {
                if let Some(s) = self.syn.clone() {
                    let isn = geti("seq", 1000) as u16;
                    self.seq_nr = isn;
                    self.cid_tx = s.cid;
                    let b = self.header(2, isn, s.seq, self.wnd, None);
                    self.emit(to, &b);
                }
            }
            "ack" => {
                let rel = geti("rel", 0);
                let ack = (self.in_order as i64 + rel) as u16;
                let n = geti("n", 1).max(1);
                let sack_len = geti("sack_len", 8) as usize;
                let sack = if intent.get("nosack").and_then(|v| v.as_bool()).unwrap_or(false) {
                    None
                } else {
                    self.sack_for(ack, intent.get("sack").and_then(|v| v.as_array()), sack_len)
                };
                let ty = geti("type", 2) as u8;
                for _ in 0..n {
                    let b = self.header(ty, self.seq_nr, ack, self.wnd, sack.clone());
                    self.emit(to, &b);
                }
            }
            "data" => {
                self.skip_ahead();
                let len = geti("len", 100) as usize;
                let ahead = geti("ahead", 0);
                let again = intent.get("again").and_then(|v| v.as_u64());
                let key = stream_key(self.net.seed(), self.addr, to, self.cid_tx);
                let (seq, off, len) = match again {
                    Some(i) if (i as usize) < self.chunks.len() => self.chunks[i as usize],
                    _ => {
                        let seq = (self.seq_nr as i64 + ahead) as u16;
                        let off = self.sent_off + (ahead.max(0) as u64) * len as u64;
                        (seq, off, len)
                    }
                };
                let mut b = self.header(0, seq, self.in_order, self.wnd, None);
                let mut p = vec![0u8; len];
                fill(key, off, &mut p);
                b.extend_from_slice(&p);
                if again.is_none() {
                    self.chunks.push((seq, off, len));
                    if ahead == 0 {
                        self.seq_nr = self.seq_nr.wrapping_add(1);
                        self.sent_off += len as u64;
                        self.net
                            .stream_written(self.addr, to, self.cid_tx, len as u64);
                    } else {
                        if ahead > 0 {
                            self.ahead_sent.insert(seq, len);
                        }
                        // out-of-order chunk: account the stream as written up to its end
                        self.net.stream_written(
                            self.addr,
                            to,
                            self.cid_tx,
                            (off + len as u64).saturating_sub(self.sent_off),
                        );
                    }
                }
                self.emit(to, &b);
            }
            "fill" => {
                // send the chunks skipped by earlier "ahead" sends, in order, up to `upto` ahead
                let len = geti("len", 100) as usize;
                let count = geti("count", 1);
                let key = stream_key(self.net.seed(), self.addr, to, self.cid_tx);
                for _ in 0..count {
                    self.skip_ahead();
                    let seq = self.seq_nr;
                    let off = self.sent_off;
                    let mut b = self.header(0, seq, self.in_order, self.wnd, None);
                    let mut p = vec![0u8; len];
                    fill(key, off, &mut p);
                    b.extend_from_slice(&p);
                    self.chunks.push((seq, off, len));
                    self.seq_nr = self.seq_nr.wrapping_add(1);
                    self.sent_off += len as u64;
                    self.emit(to, &b);
                }
            }
            "fin" => {
                self.skip_ahead();
                let ahead = geti("ahead", 0);
                let seq = (self.seq_nr as i64 + ahead) as u16;
                let b = self.header(1, seq, self.in_order, self.wnd, None);
                if ahead == 0 {
                    self.seq_nr = self.seq_nr.wrapping_add(1);
                }
                self.emit(to, &b);
            }
            "reset" => {
                let rel = geti("rel", 0);
                let b = self.header(3, self.seq_nr, (self.in_order as i64 + rel) as u16, 0, None);
                self.emit(to, &b);
            }
            "state_as_fin" => {
                // some clients answer a FIN with ST_STATE carrying seq_nr + 1
                let b = self.header(2, self.seq_nr, self.in_order, self.wnd, None);
                self.emit(to, &b);
            }
            "raw" => {
                if let Some(a) = intent.get("bytes").and_then(|v| v.as_array()) {
                    let mut b: Vec<u8> = a.iter().map(|x| x.as_u64().unwrap_or(0) as u8).collect();
                    // optional patching of the connection id / seq / ack so that hostile packets hit the live connection
                    if intent.get("patch_cid").and_then(|v| v.as_bool()).unwrap_or(false) && b.len() >= 4 {
                        b[2..4].copy_from_slice(&self.cid_tx.to_be_bytes());
                    }
                    if intent.get("patch_seq").and_then(|v| v.as_bool()).unwrap_or(false) && b.len() >= 20 {
                        let s = (self.seq_nr as i64 + geti("seq_rel", 0)) as u16;
                        let a = (self.in_order as i64 + geti("ack_rel", 0)) as u16;
                        b[16..18].copy_from_slice(&s.to_be_bytes());
                        b[18..20].copy_from_slice(&a.to_be_bytes());
                    }
                    self.emit(to, &b);
                }
            }
            "hdr" => {
                // a well-formed header with arbitrary field values relative to the live connection
                let ty = geti("type", 2) as u8;
                let seq = (self.seq_nr as i64 + geti("seq_rel", 0)) as u16;
                let ack = (self.in_order as i64 + geti("ack_rel", 0)) as u16;
                let sack = intent.get("sack_bytes").and_then(|v| v.as_array()).map(|a| {
                    a.iter().map(|x| x.as_u64().unwrap_or(0) as u8).collect::<Vec<u8>>()
                });
                let save = self.cid_tx;
                if let Some(c) = intent.get("cid_rel").and_then(|v| v.as_i64()) {
                    self.cid_tx = (self.cid_tx as i64 + c) as u16;
                }
                let mut b = self.header(ty, seq, ack, self.wnd, sack);
                self.cid_tx = save;
                let plen = geti("plen", 0) as usize;
                if plen > 0 {
                    b.extend(std::iter::repeat(0xEEu8).take(plen));
                }
                self.emit(to, &b);
                // (a packet that was in sequence uses its number up)
                if intent.get("advance").and_then(|v| v.as_bool()).unwrap_or(false) {
                    self.seq_nr = self.seq_nr.wrapping_add(1);
                }
            }
            "drain" | "" => {}
            _ => {}
        }
    }
}
