//! The environment handed to the library: virtual clock tied to tokio's paused time,
//! scripted/seeded random_u16, and the verification event sink.

use std::{collections::VecDeque, sync::Arc, time::Instant};

use librqbit_utp::{UtpEnvironment, verif::Event, verif::Val};
use parking_lot::Mutex;
use serde_json::{Map, Value, json};

use crate::trace::{Tracer, sat};

struct RandSrc {
    scripted: VecDeque<u16>,
    state: u64,
}

#[derive(Clone)]
pub struct SimEnv {
    pub tracer: Tracer,
    pub sock: Arc<str>,
    rng: Arc<Mutex<RandSrc>>,
}

impl SimEnv {
    pub fn new(tracer: Tracer, sock: &str, scripted: Vec<u16>, seed: u64) -> Self {
        SimEnv {
            tracer,
            sock: sock.into(),
            rng: Arc::new(Mutex::new(RandSrc {
                scripted: scripted.into(),
                state: seed ^ 0x9E37_79B9_7F4A_7C15,
            })),
        }
    }

    /// Push values to be returned by the next random_u16 calls (before the seeded stream).
    pub fn push_random(&self, v: &[u16]) {
        self.rng.lock().scripted.extend(v.iter().copied());
    }
}

fn val_json(v: Val) -> Value {
    match v {
        Val::I(i) => json!(sat(i)),
        Val::S(s) => json!(s),
        Val::B(b) => Value::Array(b.into_iter().map(|x| json!(x)).collect()),
        Val::Bool(b) => json!(b),
    }
}

impl UtpEnvironment for SimEnv {
    fn now(&self) -> Instant {
        tokio::time::Instant::now().into_std()
    }

    fn copy(&self) -> Self {
        self.clone()
    }

    fn random_u16(&self) -> u16 {
        let mut g = self.rng.lock();
        let v = if let Some(v) = g.scripted.pop_front() {
            v
        } else {
            // splitmix64
            g.state = g.state.wrapping_add(0x9E37_79B9_7F4A_7C15);
            let mut z = g.state;
            z = (z ^ (z >> 30)).wrapping_mul(0xBF58_476D_1CE4_E5B9);
            z = (z ^ (z >> 27)).wrapping_mul(0x94D0_49BB_1331_11EB);
            (z ^ (z >> 31)) as u16
        };
        drop(g);
        let mut m = Map::new();
        m.insert("sock".into(), json!(&*self.sock));
        m.insert("v".into(), json!(v));
        self.tracer.emit("rand", m);
        v
    }

    fn verif_event(&self, ev: Event) {
        let mut m = Map::new();
        m.insert("sock".into(), json!(&*self.sock));
        for (k, v) in ev.fields {
            m.insert(k.to_string(), val_json(v));
        }
        // convenience keys for the trace specification: "local|remote" and its reverse
        if let (Some(Value::String(l)), Some(Value::String(r))) = (m.get("local"), m.get("remote")) {
            let lr = format!("{l}|{r}");
            let rl = format!("{r}|{l}");
            let v6 = l.starts_with('[');
            m.insert("lr".into(), json!(lr));
            m.insert("rl".into(), json!(rl));
            m.insert("v6".into(), json!(v6));
        }
        self.tracer.emit(ev.kind, m);
    }
}
