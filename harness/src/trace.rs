//! ND-JSON tracer. One event per line; total order = order of emission (the harness is
//! single-threaded: current-thread tokio runtime with paused virtual time).
//! A `tick` line is inserted mechanically whenever the virtual time stamp changes.
//! Integers are saturated at 2^31-1 because TLC integers are 32-bit.

use parking_lot::Mutex;
use serde_json::{Map, Value, json};
use std::sync::Arc;

pub const TLC_MAX: i64 = i32::MAX as i64;

pub fn sat(v: i64) -> i64 {
    v.clamp(-TLC_MAX, TLC_MAX)
}

struct Inner {
    lines: Vec<String>,
    n: u64,
    last_now: i64,
    epoch: Option<tokio::time::Instant>,
    // If set, hook events of these kinds are not recorded (volume control).
    mute: Vec<&'static str>,
}

#[derive(Clone)]
pub struct Tracer {
    inner: Arc<Mutex<Inner>>,
}

impl Default for Tracer {
    fn default() -> Self {
        Self::new()
    }
}

impl Tracer {
    pub fn new() -> Self {
        Tracer {
            inner: Arc::new(Mutex::new(Inner {
                lines: Vec::new(),
                n: 0,
                last_now: -1,
                epoch: None,
                mute: Vec::new(),
            })),
        }
    }

    pub fn mute(&self, kind: &'static str) {
        self.inner.lock().mute.push(kind);
    }

    /// Start (or restart) a run inside the same trace: resets the clock epoch.
    pub fn start_run(&self, cfg: Value) {
        let mut g = self.inner.lock();
        g.epoch = Some(tokio::time::Instant::now());
        g.last_now = 0;
        g.n += 1;
        let mut m = Map::new();
        m.insert("ev".into(), json!("reset"));
        m.insert("cfg".into(), cfg);
        g.lines.push(Value::Object(m).to_string());
    }

    pub fn now_us(&self) -> i64 {
        let g = self.inner.lock();
        match g.epoch {
            Some(e) => (tokio::time::Instant::now() - e).as_micros() as i64,
            None => 0,
        }
    }

    pub fn emit(&self, kind: &str, mut fields: Map<String, Value>) {
        let mut g = self.inner.lock();
        if g.mute.iter().any(|k| *k == kind) {
            return;
        }
        let now = match g.epoch {
            Some(e) => (tokio::time::Instant::now() - e).as_micros() as i64,
            None => 0,
        };
        if now != g.last_now {
            g.last_now = now;
            g.n += 1;
            g.lines
                .push(json!({"ev":"tick","now":sat(now)}).to_string());
        }
        g.n += 1;
        let mut m = Map::new();
        m.insert("ev".into(), json!(kind));
        m.append(&mut fields);
        g.lines.push(Value::Object(m).to_string());
    }

    pub fn take_lines(&self) -> Vec<String> {
        std::mem::take(&mut self.inner.lock().lines)
    }

    pub fn len(&self) -> usize {
        self.inner.lock().lines.len()
    }
}

#[macro_export]
macro_rules! ev {
    ($tr:expr, $kind:expr $(, $k:literal : $v:expr)* $(,)?) => {{
        #[allow(unused_mut)]
        let mut m = serde_json::Map::new();
        $( m.insert($k.to_string(), serde_json::json!($v)); )*
        $tr.emit($kind, m);
    }};
}

pub fn bytes_json(b: &[u8]) -> Value {
    Value::Array(b.iter().map(|x| json!(*x)).collect())
}
