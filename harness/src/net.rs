//! Simulated datagram network implementing the library's `Transport`.
//!
//! Per datagram the network applies the schedule's decision: deliver after the direction's
//! latency plus an optional per-datagram serialisation spacing, drop, duplicate, delay
//! (re-order), black-hole above a size, EMSGSIZE above a size, Poll::Pending.
//! Decisions are *content predicates* (type, index of the sequence number among the distinct
//! ones seen, transmission ordinal of that identity, ...), so a schedule stays meaningful if
//! the endpoint's exact packetisation changes.

use std::{
    collections::{BTreeMap, HashMap},
    net::SocketAddr,
    sync::Arc,
    task::{Context, Poll, Waker},
    time::Duration,
};

use librqbit_dualstack_sockets::PollSendToVectored;
use librqbit_utp::Transport;
use parking_lot::Mutex;
use serde::Deserialize;
use serde_json::{Map, Value, json};
use tokio::sync::{
    Notify,
    mpsc::{UnboundedReceiver, UnboundedSender, unbounded_channel},
};

use crate::{
    stream::project,
    trace::{Tracer, bytes_json, sat},
};

pub type Dgram = (SocketAddr, Vec<u8>);

#[derive(Debug, Clone, Deserialize, Default)]
#[serde(default)]
pub struct DirCfg {
    pub latency_us: u64,
    /// minimum spacing between two deliveries in this direction (serialisation delay)
    pub spacing_us: u64,
    /// datagrams (UDP payload length) above this are silently discarded
    pub blackhole_above: Option<usize>,
    /// datagrams above this fail with EMSGSIZE at send time
    pub emsgsize_above: Option<usize>,
    pub cut: bool,
    pub pending: bool,
    /// random faults (seeded), in 1/1000
    pub loss_pm: u32,
    pub dup_pm: u32,
    pub reorder_pm: u32,
    pub reorder_delay_us: u64,
    /// fair-lossy budget: an identity is never dropped by random loss more than this often
    pub loss_budget: u32,
}

#[derive(Debug, Clone, Deserialize, Default)]
#[serde(default)]
pub struct Rule {
    pub from: Option<String>,
    pub to: Option<String>,
    /// data | fin | state | syn | reset | any
    #[serde(rename = "type")]
    pub ty: Option<String>,
    /// index (0-based) of this packet's seq_nr among the distinct seq_nrs of that type seen
    /// in that direction on that connection id
    pub seq_idx: Option<u32>,
    /// transmission ordinal (1-based) of this identity (type, seq_nr) in that direction
    pub nth: Option<u32>,
    /// index (0-based) among all packets of that type in that direction
    pub pkt_idx: Option<u32>,
    /// ST_STATE with wnd > 0 whose predecessor in that direction had wnd = 0
    pub wnd_reopen: bool,
    pub min_len: Option<usize>,
    pub max_len: Option<usize>,
    /// drop | dup | delay
    pub act: String,
    pub delay_us: u64,
    /// how many times the rule may fire (0 = unlimited)
    pub times: u32,
    #[serde(skip)]
    pub fired: u32,
}

#[derive(Default)]
struct DirState {
    cfg: DirCfg,
    last_due: u64,
    last_wnd: Option<u32>,
    // (cid, type) -> distinct seq list; (cid, type, seq) -> transmission count
    distinct: HashMap<(u16, u8), Vec<u16>>,
    sent: HashMap<(u16, u8, u16), u32>,
    dropped: HashMap<(u16, u8, u16), u32>,
    type_count: HashMap<u8, u32>,
    pending_wakers: Vec<Waker>,
}

/// Per (from, to, wire connection id): the application stream carried by ST_DATA packets.
#[derive(Default)]
pub struct StreamInfo {
    pub written: u64,
    pub first_off: HashMap<u16, u64>,
    pub next_off: HashMap<u16, u64>, // seq -> offset expected for seq (end of predecessor)
}

struct Inflight {
    to: SocketAddr,
    from: SocketAddr,
    data: Vec<u8>,
}

struct Inner {
    socks: HashMap<SocketAddr, UnboundedSender<Dgram>>,
    names: HashMap<SocketAddr, String>,
    raws: std::collections::HashSet<SocketAddr>,
    dirs: HashMap<(SocketAddr, SocketAddr), DirState>,
    default_dir: DirCfg,
    rules: Vec<Rule>,
    queue: BTreeMap<(u64, u64), Inflight>, // (due, id)
    next_id: u64,
    rng: u64,
    seed: u64,
    streams: HashMap<(SocketAddr, SocketAddr, u16), StreamInfo>,
    epoch: tokio::time::Instant,
    stopped: bool,
}

#[derive(Clone)]
pub struct SimNet {
    inner: Arc<Mutex<Inner>>,
    notify: Arc<Notify>,
    pub tracer: Tracer,
}

pub fn stream_key(seed: u64, from: SocketAddr, to: SocketAddr, cid: u16) -> u32 {
    // FNV-1a over the identifying tuple
    let mut h: u64 = 0xcbf29ce484222325 ^ seed;
    let s = format!("{from}>{to}#{cid}");
    for b in s.bytes() {
        h ^= b as u64;
        h = h.wrapping_mul(0x100000001b3);
    }
    (h ^ (h >> 32)) as u32
}

pub struct Hdr {
    pub ty: u8,
    pub ver: u8,
    pub cid: u16,
    pub wnd: u32,
    pub seq: u16,
    pub ack: u16,
    pub hlen: usize,
}

/// Minimal header reader used only for fault-rule matching and locating the payload; the
/// parser of record for every rule of the specification is Wire.tla (the trace carries the raw
/// header bytes).
pub fn peek(b: &[u8]) -> Option<Hdr> {
    if b.len() < 20 {
        return None;
    }
    let mut hlen = 20;
    let mut ext = b[1];
    while ext != 0 {
        if b.len() < hlen + 2 {
            return None;
        }
        ext = b[hlen];
        let l = b[hlen + 1] as usize;
        hlen += 2 + l;
        if b.len() < hlen {
            return None;
        }
    }
    Some(Hdr {
        ty: b[0] >> 4,
        ver: b[0] & 0xf,
        cid: u16::from_be_bytes([b[2], b[3]]),
        wnd: u32::from_be_bytes([b[12], b[13], b[14], b[15]]),
        seq: u16::from_be_bytes([b[16], b[17]]),
        ack: u16::from_be_bytes([b[18], b[19]]),
        hlen,
    })
}

fn type_name(t: u8) -> &'static str {
    match t {
        0 => "data",
        1 => "fin",
        2 => "state",
        3 => "reset",
        4 => "syn",
        _ => "other",
    }
}

pub enum SendOutcome {
    Ok,
    EMsgSize,
    Pending,
}

impl SimNet {
    pub fn new(tracer: Tracer, seed: u64, default_dir: DirCfg) -> Self {
        SimNet {
            inner: Arc::new(Mutex::new(Inner {
                socks: HashMap::new(),
                names: HashMap::new(),
                raws: Default::default(),
                dirs: HashMap::new(),
                default_dir,
                rules: Vec::new(),
                queue: BTreeMap::new(),
                next_id: 1,
                rng: seed.wrapping_mul(0x2545F4914F6CDD1D) | 1,
                seed,
                streams: HashMap::new(),
                epoch: tokio::time::Instant::now(),
                stopped: false,
            })),
            notify: Arc::new(Notify::new()),
            tracer,
        }
    }

    pub fn seed(&self) -> u64 {
        self.inner.lock().seed
    }

    fn now_us(g: &Inner) -> u64 {
        (tokio::time::Instant::now() - g.epoch).as_micros() as u64
    }

    pub fn register(&self, addr: SocketAddr, name: &str) -> SimTransport {
        let (tx, rx) = unbounded_channel();
        let mut g = self.inner.lock();
        g.socks.insert(addr, tx);
        g.names.insert(addr, name.to_string());
        SimTransport {
            addr,
            net: self.clone(),
            rx: Arc::new(Mutex::new(rx)),
        }
    }

    /// Raw endpoint for the scripted peer: returns the receiver directly.
    pub fn register_raw(&self, addr: SocketAddr, name: &str) -> UnboundedReceiver<Dgram> {
        let (tx, rx) = unbounded_channel();
        let mut g = self.inner.lock();
        g.socks.insert(addr, tx);
        g.names.insert(addr, name.to_string());
        g.raws.insert(addr);
        rx
    }

    pub fn unregister(&self, addr: SocketAddr) {
        self.inner.lock().socks.remove(&addr);
    }

    pub fn add_rule(&self, r: Rule) {
        self.inner.lock().rules.push(r);
    }

    pub fn clear_rules(&self) {
        self.inner.lock().rules.clear();
    }

    pub fn set_dir(&self, from: SocketAddr, to: SocketAddr, f: impl FnOnce(&mut DirCfg)) {
        let mut g = self.inner.lock();
        let def = g.default_dir.clone();
        let d = g.dirs.entry((from, to)).or_insert_with(|| DirState {
            cfg: def,
            ..Default::default()
        });
        let was_pending = d.cfg.pending;
        f(&mut d.cfg);
        if was_pending && !d.cfg.pending {
            for w in d.pending_wakers.drain(..) {
                w.wake();
            }
        }
    }

    pub fn stream_written(&self, from: SocketAddr, to: SocketAddr, cid: u16, n: u64) {
        let mut g = self.inner.lock();
        g.streams.entry((from, to, cid)).or_default().written += n;
    }

    pub fn in_flight(&self) -> usize {
        self.inner.lock().queue.len()
    }

    pub fn stop(&self) {
        self.inner.lock().stopped = true;
        self.notify.notify_one();
    }

    fn rand(g: &mut Inner) -> u32 {
        // xorshift64*
        g.rng ^= g.rng >> 12;
        g.rng ^= g.rng << 25;
        g.rng ^= g.rng >> 27;
        (g.rng.wrapping_mul(0x2545F4914F6CDD1D) >> 33) as u32
    }

    /// The single entry point for every datagram handed to the network.
    pub fn send(
        &self,
        cx: Option<&mut Context<'_>>,
        from: SocketAddr,
        to: SocketAddr,
        data: &[u8],
    ) -> SendOutcome {
        let mut g = self.inner.lock();
        let g = &mut *g;
        let now = Self::now_us(g);
        let def = g.default_dir.clone();
        let seed = g.seed;
        let hdr = peek(data);

        // standing properties of the direction
        let d = g.dirs.entry((from, to)).or_insert_with(|| DirState {
            cfg: def,
            ..Default::default()
        });
        let cfg = d.cfg.clone();
        if cfg.pending {
            if let Some(cx) = cx {
                d.pending_wakers.push(cx.waker().clone());
            }
            let mut m = Map::new();
            m.insert("from".into(), json!(from.to_string()));
            m.insert("to".into(), json!(to.to_string()));
            m.insert("len".into(), json!(data.len()));
            m.insert("res".into(), json!("pending"));
            self.tracer.emit("txfail", m);
            return SendOutcome::Pending;
        }

        // identity bookkeeping
        let (ty, cid, seq) = match &hdr {
            Some(h) => (h.ty, h.cid, h.seq),
            None => (255, 0, 0),
        };
        let seq_idx = {
            let v = d.distinct.entry((cid, ty)).or_default();
            match v.iter().position(|s| *s == seq) {
                Some(i) => i as u32,
                None => {
                    v.push(seq);
                    (v.len() - 1) as u32
                }
            }
        };
        let nth = {
            let c = d.sent.entry((cid, ty, seq)).or_insert(0);
            *c += 1;
            *c
        };
        let pkt_idx = {
            let c = d.type_count.entry(ty).or_insert(0);
            *c += 1;
            *c - 1
        };
        let wnd_reopen = match &hdr {
            Some(h) if h.ty == 2 => h.wnd > 0 && d.last_wnd == Some(0),
            _ => false,
        };
        if let Some(h) = &hdr {
            d.last_wnd = Some(h.wnd);
        }

        // payload projection for ST_DATA
        let mut runs_json = Value::Array(vec![]);
        let mut alts_json = Value::Array(vec![]);
        let mut amb = false;
        let plen = hdr.as_ref().map(|h| data.len() - h.hlen).unwrap_or(0);
        if let Some(h) = &hdr {
            if h.ty == 0 && plen > 0 {
                let key = stream_key(seed, from, to, h.cid);
                let si = g.streams.entry((from, to, h.cid)).or_default();
                let expected = si
                    .first_off
                    .get(&h.seq)
                    .copied()
                    .or_else(|| si.next_off.get(&h.seq).copied())
                    .or(if si.first_off.is_empty() { Some(0) } else { None });
                let p = project(key, &data[h.hlen..], expected, si.written);
                if let [(pos, len)] = p.runs[..] {
                    if pos >= 0 {
                        si.first_off.entry(h.seq).or_insert(pos as u64);
                        si.next_off
                            .insert(h.seq.wrapping_add(1), pos as u64 + len);
                    }
                }
                runs_json = Value::Array(
                    p.runs
                        .iter()
                        .map(|(a, b)| json!([sat(*a), sat(*b as i64)]))
                        .collect(),
                );
                alts_json = Value::Array(p.alts.iter().map(|a| json!(sat(*a as i64))).collect());
                amb = p.ambiguous;
            }
        }

        let mut m = Map::new();
        let id = g.next_id;
        g.next_id += 1;
        m.insert("id".into(), json!(id));
        m.insert("from".into(), json!(from.to_string()));
        m.insert("to".into(), json!(to.to_string()));
        m.insert("ft".into(), json!(format!("{from}|{to}")));
        m.insert("tf".into(), json!(format!("{to}|{from}")));
        m.insert("len".into(), json!(data.len()));
        let hl = hdr.as_ref().map(|h| h.hlen).unwrap_or(data.len().min(64));
        m.insert("hdr".into(), bytes_json(&data[..hl]));
        m.insert("plen".into(), json!(plen));
        m.insert("runs".into(), runs_json);
        m.insert("alts".into(), alts_json);
        m.insert("amb".into(), json!(amb));
        m.insert("nth".into(), json!(nth));
        if g.raws.contains(&from) {
            m.insert("raw".into(), json!(true));
        }

        let _d = g.dirs.get_mut(&(from, to)).unwrap();

        if let Some(lim) = cfg.emsgsize_above {
            if data.len() > lim {
                m.insert("res".into(), json!("emsgsize"));
                m.insert("fate".into(), json!("emsgsize"));
                self.tracer.emit("tx", m);
                return SendOutcome::EMsgSize;
            }
        }
        m.insert("res".into(), json!("ok"));

        // fate
        let mut fate = "deliver";
        let mut extra_delay = 0u64;
        let mut dup = false;
        if cfg.cut {
            fate = "cut";
        } else if cfg.blackhole_above.is_some_and(|l| data.len() > l) {
            fate = "blackhole";
        } else {
            let tname = type_name(ty);
            let names = &g.names;
            let fname = names.get(&from).cloned().unwrap_or_default();
            let tnm = names.get(&to).cloned().unwrap_or_default();
            let mut hit: Option<usize> = None;
            for (i, r) in g.rules.iter().enumerate() {
                if r.times != 0 && r.fired >= r.times {
                    continue;
                }
                if r.from.as_ref().is_some_and(|f| *f != fname) {
                    continue;
                }
                if r.to.as_ref().is_some_and(|t| *t != tnm) {
                    continue;
                }
                if r.ty.as_ref().is_some_and(|t| t != "any" && t != tname) {
                    continue;
                }
                if r.seq_idx.is_some_and(|k| k != seq_idx) {
                    continue;
                }
                if r.nth.is_some_and(|k| k != nth) {
                    continue;
                }
                if r.pkt_idx.is_some_and(|k| k != pkt_idx) {
                    continue;
                }
                if r.wnd_reopen && !wnd_reopen {
                    continue;
                }
                if r.min_len.is_some_and(|l| data.len() < l) {
                    continue;
                }
                if r.max_len.is_some_and(|l| data.len() > l) {
                    continue;
                }
                hit = Some(i);
                break;
            }
            if let Some(i) = hit {
                let r = &mut g.rules[i];
                r.fired += 1;
                match r.act.as_str() {
                    "drop" => fate = "drop",
                    "dup" => dup = true,
                    "delay" => extra_delay = r.delay_us,
                    _ => {}
                }
                m.insert("rule".into(), json!(i));
            } else if (cfg.loss_pm > 0 || cfg.dup_pm > 0 || cfg.reorder_pm > 0) && ty != 4 {
                // random faults never hit the SYN: the library does not retransmit SYNs and the
                // properties are about established connections (scripted rules can still drop it)
                let r1 = Self::rand(g) % 1000;
                let r2 = Self::rand(g) % 1000;
                let r3 = Self::rand(g) % 1000;
                let d = g.dirs.get_mut(&(from, to)).unwrap();
                let dropped = d.dropped.entry((cid, ty, seq)).or_insert(0);
                // a window-reopening ACK is never hit by *random* loss: losing it stalls the
                // connection (known finding, exercised by a dedicated scenario)
                if r1 < cfg.loss_pm
                    && !wnd_reopen
                    && (cfg.loss_budget == 0 || *dropped < cfg.loss_budget)
                {
                    *dropped += 1;
                    fate = "drop";
                } else if r2 < cfg.dup_pm {
                    dup = true;
                } else if r3 < cfg.reorder_pm {
                    extra_delay = cfg.reorder_delay_us.max(1);
                }
            }
        }
        let d = g.dirs.get_mut(&(from, to)).unwrap();

        if fate == "deliver" {
            let mut due = now + cfg.latency_us + extra_delay;
            if extra_delay == 0 {
                // FIFO with serialisation spacing
                if cfg.spacing_us > 0 || due < d.last_due {
                    due = due.max(d.last_due + cfg.spacing_us);
                }
                d.last_due = due;
            }
            m.insert("due".into(), json!(sat(due as i64)));
            if dup {
                fate = "dup";
            }
            m.insert("fate".into(), json!(fate));
            self.tracer.emit("tx", m);
            g.queue.insert(
                (due, id),
                Inflight {
                    to,
                    from,
                    data: data.to_vec(),
                },
            );
            if dup {
                let id2 = g.next_id;
                g.next_id += 1;
                let due2 = due + cfg.spacing_us.max(1);
                let d = g.dirs.get_mut(&(from, to)).unwrap();
                d.last_due = d.last_due.max(due2);
                g.queue.insert(
                    (due2, id2),
                    Inflight {
                        to,
                        from,
                        data: data.to_vec(),
                    },
                );
                let mut m2 = Map::new();
                m2.insert("id".into(), json!(id2));
                m2.insert("of".into(), json!(id));
                m2.insert("due".into(), json!(sat(due2 as i64)));
                self.tracer.emit("dup", m2);
            }
            self.notify.notify_one();
        } else {
            m.insert("fate".into(), json!(fate));
            self.tracer.emit("tx", m);
        }
        SendOutcome::Ok
    }

    /// The delivery task: moves due datagrams into the destination socket's queue.
    pub async fn run(self) {
        loop {
            let next = {
                let g = self.inner.lock();
                if g.stopped {
                    return;
                }
                g.queue.keys().next().copied().map(|(due, _)| (due, g.epoch))
            };
            match next {
                None => self.notify.notified().await,
                Some((due, epoch)) => {
                    let at = epoch + Duration::from_micros(due);
                    tokio::select! {
                        biased;
                        _ = tokio::time::sleep_until(at) => {
                            loop {
                                let mut g = self.inner.lock();
                                let now = Self::now_us(&g);
                                let k = match g.queue.keys().next().copied() {
                                    Some(k) if k.0 <= now => k,
                                    _ => break,
                                };
                                let inf = g.queue.remove(&k).unwrap();
                                let ok = match g.socks.get(&inf.to) {
                                    Some(tx) => tx.send((inf.from, inf.data)).is_ok(),
                                    None => false,
                                };
                                drop(g);
                                let mut m = Map::new();
                                m.insert("id".into(), json!(k.1));
                                m.insert("to".into(), json!(inf.to.to_string()));
                                m.insert("ok".into(), json!(ok));
                                self.tracer.emit("deliver", m);
                            }
                        }
                        _ = self.notify.notified() => {}
                    }
                }
            }
        }
    }
}

#[derive(Clone)]
pub struct SimTransport {
    pub addr: SocketAddr,
    pub net: SimNet,
    rx: Arc<Mutex<UnboundedReceiver<Dgram>>>,
}

impl SimTransport {
    fn do_send(
        &self,
        cx: Option<&mut Context<'_>>,
        buf: &[u8],
        target: SocketAddr,
    ) -> Poll<std::io::Result<usize>> {
        match self.net.send(cx, self.addr, target, buf) {
            SendOutcome::Ok => Poll::Ready(Ok(buf.len())),
            SendOutcome::EMsgSize => {
                Poll::Ready(Err(std::io::Error::from_raw_os_error(libc::EMSGSIZE)))
            }
            SendOutcome::Pending => Poll::Pending,
        }
    }
}

impl Transport for SimTransport {
    async fn recv_from<'a>(&'a self, buf: &'a mut [u8]) -> std::io::Result<(usize, SocketAddr)> {
        let f = std::future::poll_fn(|cx| self.rx.lock().poll_recv(cx));
        match f.await {
            Some((addr, data)) => {
                let n = data.len().min(buf.len());
                buf[..n].copy_from_slice(&data[..n]);
                Ok((n, addr))
            }
            None => std::future::pending().await,
        }
    }

    async fn send_to<'a>(&'a self, buf: &'a [u8], target: SocketAddr) -> std::io::Result<usize> {
        std::future::poll_fn(|cx| self.do_send(Some(cx), buf, target)).await
    }

    fn poll_send_to(
        &self,
        cx: &mut Context<'_>,
        buf: &[u8],
        target: SocketAddr,
    ) -> Poll<std::io::Result<usize>> {
        self.do_send(Some(cx), buf, target)
    }

    fn bind_addr(&self) -> SocketAddr {
        self.addr
    }
}

impl PollSendToVectored for SimTransport {
    fn poll_send_to_vectored(
        &self,
        cx: &mut Context<'_>,
        bufs: &[std::io::IoSlice<'_>],
        target: SocketAddr,
    ) -> Poll<std::io::Result<usize>> {
        let mut buf = Vec::new();
        bufs.iter().for_each(|b| buf.extend_from_slice(b.as_ref()));
        self.do_send(Some(cx), &buf, target)
    }
}
