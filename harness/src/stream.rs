//! Application byte streams and the payload projection (part of the trusted base).
//!
//! Each direction of each connection carries a known byte sequence determined by a 32-bit key:
//! the stream is the concatenation of 4-byte big-endian words w(i) = i * MUL + key (mod 2^32).
//! MUL is odd, so i -> w(i) is a bijection and any 7 consecutive bytes contain a full aligned
//! word from which the position can be decoded.
//!
//! `project` turns a concrete payload into run-length runs [[pos, len], ...] over that stream;
//! pos = -1 marks bytes that match nowhere ("garbage"). The specification then states integrity
//! as arithmetic on positions.

const MUL: u32 = 0x9E37_79B1;
const MUL_INV: u32 = {
    // modular inverse of MUL mod 2^32 by Newton iteration
    let mut x: u32 = MUL;
    let mut i = 0;
    while i < 5 {
        x = x.wrapping_mul(2u32.wrapping_sub(MUL.wrapping_mul(x)));
        i += 1;
    }
    x
};

#[inline]
pub fn stream_byte(key: u32, pos: u64) -> u8 {
    let w = ((pos / 4) as u32).wrapping_mul(MUL).wrapping_add(key);
    w.to_be_bytes()[(pos % 4) as usize]
}

pub fn fill(key: u32, pos: u64, buf: &mut [u8]) {
    for (i, b) in buf.iter_mut().enumerate() {
        *b = stream_byte(key, pos + i as u64);
    }
}

fn matches_at(key: u32, payload: &[u8], pos: u64) -> usize {
    // length of the prefix of payload equal to stream[pos..]
    let mut n = 0;
    for (i, b) in payload.iter().enumerate() {
        if *b != stream_byte(key, pos + i as u64) {
            break;
        }
        n = i + 1;
    }
    n
}

/// Decode a position from the first full word at alignment `a` (payload[a..a+4] is word i,
/// so payload[0] is at position 4*i - a).
fn locate(key: u32, payload: &[u8], limit: u64) -> Option<u64> {
    if payload.len() < 7 {
        return None;
    }
    let mut best: Option<(usize, u64)> = None;
    for a in 0..4usize {
        let w = u32::from_be_bytes(payload[a..a + 4].try_into().unwrap());
        let i = w.wrapping_sub(key).wrapping_mul(MUL_INV) as u64;
        let p = (4 * i).checked_sub(a as u64);
        if let Some(p) = p {
            if p > limit {
                continue;
            }
            let n = matches_at(key, payload, p);
            if n >= 7 && best.is_none_or(|(bn, _)| n > bn) {
                best = Some((n, p));
            }
        }
    }
    best.map(|(_, p)| p)
}

/// Candidate positions for a short payload (< 7 bytes): every position below `limit` where the
/// payload matches, at most `max` of them; second value is true if the list was cut.
pub fn short_candidates(key: u32, payload: &[u8], limit: u64, max: usize) -> (Vec<u64>, bool) {
    let mut out = Vec::new();
    let mut p = 0u64;
    while p + payload.len() as u64 <= limit {
        if matches_at(key, payload, p) == payload.len() {
            if out.len() == max {
                return (out, true);
            }
            out.push(p);
        }
        p += 1;
    }
    (out, false)
}

#[derive(Debug, Clone, PartialEq)]
pub struct Projection {
    /// [[pos, len], ...]; pos = -1 for unlocatable bytes
    pub runs: Vec<(i64, u64)>,
    /// for a short single-run payload: other positions where the same bytes occur
    pub alts: Vec<u64>,
    /// alts was cut (too many candidates): the payload is too short to be located
    pub ambiguous: bool,
}

/// `expected`: the position the observer expects (bytes read so far; the offset first seen for
/// this sequence number, ...). It is only a tie-breaker and a fast path: a run is reported at
/// `expected` only if the bytes really are stream[expected..expected+len].
/// `limit`: bytes written so far on that stream (positions at or above cannot legitimately occur).
pub fn project(key: u32, payload: &[u8], expected: Option<u64>, limit: u64) -> Projection {
    let mut runs: Vec<(i64, u64)> = Vec::new();
    let mut alts = Vec::new();
    let mut ambiguous = false;
    if payload.is_empty() {
        return Projection { runs, alts, ambiguous };
    }
    if let Some(e) = expected {
        if matches_at(key, payload, e) == payload.len() {
            runs.push((e as i64, payload.len() as u64));
            return Projection { runs, alts, ambiguous };
        }
    }
    if payload.len() < 7 {
        let (c, cut) = short_candidates(key, payload, limit, 32);
        if c.is_empty() {
            runs.push((-1, payload.len() as u64));
        } else {
            runs.push((c[0] as i64, payload.len() as u64));
            alts = c[1..].to_vec();
            ambiguous = cut;
        }
        return Projection { runs, alts, ambiguous };
    }
    let mut rest = payload;
    let mut exp = expected;
    while !rest.is_empty() {
        let mut found: Option<u64> = None;
        if let Some(e) = exp {
            if matches_at(key, rest, e) >= rest.len().min(7) {
                found = Some(e);
            }
        }
        if found.is_none() {
            found = locate(key, rest, limit);
        }
        match found {
            Some(p) => {
                let n = matches_at(key, rest, p);
                runs.push((p as i64, n as u64));
                rest = &rest[n..];
                exp = Some(p + n as u64);
            }
            None => {
                // skip one byte of garbage, merge with previous garbage run
                match runs.last_mut() {
                    Some((-1, l)) => *l += 1,
                    _ => runs.push((-1, 1)),
                }
                rest = &rest[1..];
                exp = None;
            }
        }
        if runs.len() > 16 {
            runs.push((-1, rest.len() as u64));
            break;
        }
    }
    Projection { runs, alts, ambiguous }
}

#[cfg(test)]
mod tests {
    use super::*;

    #[test]
    fn inverse() {
        assert_eq!(MUL.wrapping_mul(MUL_INV), 1);
    }

    #[test]
    fn roundtrip_and_corruption() {
        let key = 0xdead_beef;
        let mut buf = vec![0u8; 3000];
        fill(key, 1234, &mut buf);
        // exact, with and without hint
        assert_eq!(project(key, &buf, Some(1234), 10000).runs, vec![(1234, 3000)]);
        assert_eq!(project(key, &buf, None, 10000).runs, vec![(1234, 3000)]);
        // wrong hint: still located at the true position
        assert_eq!(project(key, &buf, Some(1000), 10000).runs, vec![(1234, 3000)]);
        // one corrupted byte splits the run and is reported as garbage
        let mut c = buf.clone();
        c[100] ^= 0x55;
        let p = project(key, &c, Some(1234), 10000);
        assert_eq!(p.runs[0], (1234, 100));
        assert!(p.runs.iter().any(|r| r.0 == -1));
        assert_eq!(p.runs.last().unwrap().0 + p.runs.last().unwrap().1 as i64, 1234 + 3000);
        // shifted content (the D1 failure shape): reported at its true position, not the hint
        let mut s = vec![0u8; 500];
        fill(key, 2222, &mut s);
        assert_eq!(project(key, &s, Some(1000), 10000).runs, vec![(2222, 500)]);
        // different key: garbage
        let p = project(key ^ 1, &buf[..64], Some(1234), 10000);
        assert!(p.runs.iter().all(|r| r.0 == -1) || p.runs[0].0 != 1234);
    }

    #[test]
    fn short_payloads() {
        let key = 7;
        let mut b = [0u8; 3];
        fill(key, 41, &mut b);
        let p = project(key, &b, Some(41), 1000);
        assert_eq!(p.runs, vec![(41, 3)]);
        let p = project(key, &b, Some(40), 1000);
        assert!(p.runs[0].0 == 41 || p.alts.contains(&41));
    }
}
