//! Script interpreter: real `UtpSocket`s (and optionally raw scripted peers) over the simulated
//! network, on one current-thread tokio runtime with paused virtual time. A run is a
//! deterministic function of (script, seed).

use std::{
    collections::HashMap,
    net::SocketAddr,
    num::NonZeroUsize,
    pin::Pin,
    sync::Arc,
    task::Poll,
    time::Duration,
};

use librqbit_utp::{SocketOpts, UtpSocket, UtpStream, UtpStreamReadHalf, UtpStreamWriteHalf};
use parking_lot::Mutex;
use serde_json::{Value, json};
use tokio::{
    io::{AsyncRead, AsyncWrite, ReadBuf},
    sync::{
        Notify,
        mpsc::{UnboundedReceiver, UnboundedSender, unbounded_channel},
    },
    task::JoinHandle,
};
use tokio_util::sync::CancellationToken;

use crate::{
    env::SimEnv,
    ev,
    net::{SimNet, SimTransport, stream_key},
    peer::RawPeer,
    script::{Script, SockCfg, Step},
    stream::{fill, project},
    trace::{Tracer, sat},
};

pub type Sock = UtpSocket<SimTransport, SimEnv>;

struct SockH {
    addr: SocketAddr,
    sock: Option<Arc<Sock>>,
    env: Option<SimEnv>,
    cancel: CancellationToken,
}

#[derive(Default)]
struct EpStatus {
    // outstanding commands by kind
    out: HashMap<&'static str, u32>,
}

#[derive(Clone)]
struct EpShared {
    status: Arc<Mutex<EpStatus>>,
    changed: Arc<Notify>,
}

impl EpShared {
    fn inc(&self, k: &'static str) {
        *self.status.lock().out.entry(k).or_insert(0) += 1;
    }
    fn dec(&self, k: &'static str) {
        {
            let mut g = self.status.lock();
            let c = g.out.entry(k).or_insert(0);
            *c = c.saturating_sub(1);
        }
        self.changed.notify_waiters();
    }
    fn outstanding(&self, what: Option<&str>) -> u32 {
        let g = self.status.lock();
        match what {
            None | Some("all") => g.out.values().sum(),
            Some(w) => g.out.iter().filter(|(k, _)| **k == w).map(|(_, v)| *v).sum(),
        }
    }
    fn describe(&self) -> Vec<String> {
        let g = self.status.lock();
        let mut v: Vec<String> = g
            .out
            .iter()
            .filter(|(_, c)| **c > 0)
            .map(|(k, c)| format!("{k}:{c}"))
            .collect();
        v.sort();
        v
    }
}

enum RCmd {
    Read { n: Option<u64>, chunk: usize },
    Drop,
}

enum WCmd {
    Write { n: u64, chunk: usize },
    Flush,
    Shutdown,
    Drop,
}

struct EpH {
    dead: Arc<std::sync::atomic::AtomicBool>,
    sock_addr: String,
    conn_task: Option<JoinHandle<()>>,
    conn_kind: &'static str,
    rd_tx: UnboundedSender<RCmd>,
    wr_tx: UnboundedSender<WCmd>,
    shared: EpShared,
    abort_r: Arc<Notify>,
    abort_w: Arc<Notify>,
}

#[derive(Clone)]
struct EpCtx {
    name: Arc<str>,
    tracer: Tracer,
    net: SimNet,
    shared: EpShared,
}

pub struct World {
    pub tracer: Tracer,
    pub net: SimNet,
    seed: u64,
    socks: HashMap<String, SockH>,
    peers: HashMap<String, RawPeer>,
    eps: HashMap<String, EpH>,
    changed: Arc<Notify>,
    /// accept calls polled once and held (name -> (future, socket address))
    held: HashMap<String, (std::pin::Pin<Box<dyn std::future::Future<Output = ()>>>, String)>,
}

/// Run the runtime to quiescence without advancing the virtual clock: on the current-thread
/// runtime a yield defers this task until every other runnable task has run to its next await.
pub async fn quiesce() {
    let h = tokio::runtime::Handle::current();
    let m = h.metrics();
    for _ in 0..100_000 {
        tokio::task::yield_now().await;
        if m.global_queue_depth() == 0 && m.worker_local_queue_depth(0) == 0 {
            // one more round: a task polled in this round may have been the last runnable one
            tokio::task::yield_now().await;
            if m.global_queue_depth() == 0 && m.worker_local_queue_depth(0) == 0 {
                return;
            }
        }
    }
}

fn nz(v: Option<usize>) -> Option<NonZeroUsize> {
    v.and_then(NonZeroUsize::new)
}

enum Once<T> {
    Val(T),
    Aborted,
}

/// Poll `f` to completion, logging the first Pending as a `pend` event; abortable.
async fn run_op<T>(
    ctx: &EpCtx,
    op: &'static str,
    abort: &Notify,
    mut f: impl FnMut(&mut std::task::Context<'_>) -> Poll<T>,
) -> Once<T> {
    let mut logged = false;
    let fut = std::future::poll_fn(|cx| {
        let r = f(cx);
        if r.is_pending() && !logged {
            logged = true;
            ev!(ctx.tracer, "pend", "ep": &*ctx.name, "op": op);
        }
        r
    });
    tokio::select! {
        biased;
        _ = abort.notified() => Once::Aborted,
        v = fut => Once::Val(v),
    }
}

async fn reader_worker(
    mut r: UtpStreamReadHalf,
    mut rx: UnboundedReceiver<RCmd>,
    ctx: EpCtx,
    abort: Arc<Notify>,
    key: u32,
    from: SocketAddr,
    to: SocketAddr,
    cid: u16,
) {
    let mut pos: u64 = 0;
    let _ = (from, to, cid);
    while let Some(cmd) = rx.recv().await {
        match cmd {
            RCmd::Read { n, chunk } => {
                ev!(ctx.tracer, "call", "ep": &*ctx.name, "op": "read", "arg": sat(n.map(|x| x as i64).unwrap_or(-1)), "chunk": chunk);
                let mut got: u64 = 0;
                let mut buf = vec![0u8; chunk.max(1)];
                loop {
                    let want = match n {
                        Some(n) if got >= n => break,
                        Some(n) => ((n - got) as usize).min(buf.len()),
                        None => buf.len(),
                    };
                    let res = run_op(&ctx, "read", &abort, |cx| {
                        let mut rb = ReadBuf::new(&mut buf[..want]);
                        match Pin::new(&mut r).poll_read(cx, &mut rb) {
                            Poll::Ready(Ok(())) => Poll::Ready(Ok(rb.filled().len())),
                            Poll::Ready(Err(e)) => Poll::Ready(Err(e)),
                            Poll::Pending => Poll::Pending,
                        }
                    })
                    .await;
                    match res {
                        Once::Aborted => {
                            ev!(ctx.tracer, "ret", "ep": &*ctx.name, "op": "read", "res": "aborted", "n": 0, "pos": sat(pos as i64));
                            break;
                        }
                        Once::Val(Ok(0)) => {
                            ev!(ctx.tracer, "ret", "ep": &*ctx.name, "op": "read", "res": "eof", "n": 0, "pos": sat(pos as i64));
                            break;
                        }
                        Once::Val(Ok(k)) => {
                            let p = project(key, &buf[..k], Some(pos), u64::MAX / 8);
                            let runs: Vec<Value> = p
                                .runs
                                .iter()
                                .map(|(a, b)| json!([sat(*a), sat(*b as i64)]))
                                .collect();
                            ev!(ctx.tracer, "ret", "ep": &*ctx.name, "op": "read", "res": "ok", "n": k, "pos": sat(pos as i64), "want": want, "runs": runs);
                            pos += k as u64;
                            got += k as u64;
                        }
                        Once::Val(Err(e)) => {
                            ev!(ctx.tracer, "ret", "ep": &*ctx.name, "op": "read", "res": "err", "n": 0, "pos": sat(pos as i64), "err": e.to_string());
                            break;
                        }
                    }
                }
                ev!(ctx.tracer, "done", "ep": &*ctx.name, "op": "read", "total": sat(got as i64));
                ctx.shared.dec("read");
            }
            RCmd::Drop => {
                drop(r);
                ev!(ctx.tracer, "ret", "ep": &*ctx.name, "op": "drop_r", "res": "ok", "n": 0);
                ctx.shared.dec("drop_r");
                // remaining commands cannot run
                while let Ok(c) = rx.try_recv() {
                    match c {
                        RCmd::Read { .. } => ctx.shared.dec("read"),
                        RCmd::Drop => ctx.shared.dec("drop_r"),
                    }
                }
                return;
            }
        }
    }
}

async fn writer_worker(
    mut w: UtpStreamWriteHalf,
    mut rx: UnboundedReceiver<WCmd>,
    ctx: EpCtx,
    abort: Arc<Notify>,
    key: u32,
    from: SocketAddr,
    to: SocketAddr,
    cid: u16,
) {
    let mut pos: u64 = 0;
    while let Some(cmd) = rx.recv().await {
        match cmd {
            WCmd::Write { n, chunk } => {
                ev!(ctx.tracer, "call", "ep": &*ctx.name, "op": "write", "arg": sat(n as i64), "chunk": chunk);
                let mut done: u64 = 0;
                let mut buf = vec![0u8; chunk.max(1)];
                while done < n {
                    let want = ((n - done) as usize).min(buf.len());
                    fill(key, pos, &mut buf[..want]);
                    let res = run_op(&ctx, "write", &abort, |cx| {
                        Pin::new(&mut w).poll_write(cx, &buf[..want])
                    })
                    .await;
                    match res {
                        Once::Aborted => {
                            ev!(ctx.tracer, "ret", "ep": &*ctx.name, "op": "write", "res": "aborted", "n": 0, "pos": sat(pos as i64));
                            break;
                        }
                        Once::Val(Ok(k)) => {
                            ctx.net.stream_written(from, to, cid, k as u64);
                            ev!(ctx.tracer, "ret", "ep": &*ctx.name, "op": "write", "res": "ok", "n": k, "pos": sat(pos as i64), "want": want);
                            pos += k as u64;
                            done += k as u64;
                            if k == 0 {
                                break;
                            }
                        }
                        Once::Val(Err(e)) => {
                            ev!(ctx.tracer, "ret", "ep": &*ctx.name, "op": "write", "res": "err", "n": 0, "pos": sat(pos as i64), "err": e.to_string());
                            break;
                        }
                    }
                }
                ev!(ctx.tracer, "done", "ep": &*ctx.name, "op": "write", "total": sat(done as i64));
                ctx.shared.dec("write");
            }
            WCmd::Flush | WCmd::Shutdown => {
                let (op, is_flush): (&'static str, bool) = match cmd {
                    WCmd::Flush => ("flush", true),
                    _ => ("shutdown", false),
                };
                ev!(ctx.tracer, "call", "ep": &*ctx.name, "op": op, "arg": sat(pos as i64));
                let res = run_op(&ctx, op, &abort, |cx| {
                    if is_flush {
                        Pin::new(&mut w).poll_flush(cx)
                    } else {
                        Pin::new(&mut w).poll_shutdown(cx)
                    }
                })
                .await;
                match res {
                    Once::Aborted => {
                        ev!(ctx.tracer, "ret", "ep": &*ctx.name, "op": op, "res": "aborted", "n": 0, "pos": sat(pos as i64))
                    }
                    Once::Val(Ok(())) => {
                        ev!(ctx.tracer, "ret", "ep": &*ctx.name, "op": op, "res": "ok", "n": 0, "pos": sat(pos as i64))
                    }
                    Once::Val(Err(e)) => {
                        ev!(ctx.tracer, "ret", "ep": &*ctx.name, "op": op, "res": "err", "n": 0, "pos": sat(pos as i64), "err": e.to_string())
                    }
                }
                ctx.shared.dec(op);
            }
            WCmd::Drop => {
                drop(w);
                ev!(ctx.tracer, "ret", "ep": &*ctx.name, "op": "drop_w", "res": "ok", "n": 0);
                ctx.shared.dec("drop_w");
                while let Ok(c) = rx.try_recv() {
                    match c {
                        WCmd::Write { .. } => ctx.shared.dec("write"),
                        WCmd::Flush => ctx.shared.dec("flush"),
                        WCmd::Shutdown => ctx.shared.dec("shutdown"),
                        WCmd::Drop => ctx.shared.dec("drop_w"),
                    }
                }
                return;
            }
        }
    }
}

#[allow(clippy::too_many_arguments)]
fn start_workers(
    stream: UtpStream,
    incoming: bool,
    local: SocketAddr,
    ctx: EpCtx,
    rd_rx: UnboundedReceiver<RCmd>,
    wr_rx: UnboundedReceiver<WCmd>,
    abort_r: Arc<Notify>,
    abort_w: Arc<Notify>,
    seed: u64,
) {
    let remote = stream.remote_addr();
    let cid_recv = stream.verif_cid();
    let cid_send = if incoming {
        cid_recv.wrapping_sub(1)
    } else {
        cid_recv.wrapping_add(1)
    };
    let (r, w) = stream.split();
    let rkey = stream_key(seed, remote, local, cid_recv);
    let wkey = stream_key(seed, local, remote, cid_send);
    tokio::spawn(reader_worker(
        r,
        rd_rx,
        ctx.clone(),
        abort_r,
        rkey,
        remote,
        local,
        cid_recv,
    ));
    tokio::spawn(writer_worker(
        w, wr_rx, ctx, abort_w, wkey, local, remote, cid_send,
    ));
}

impl World {
    pub fn new(tracer: Tracer, script: &Script) -> World {
        let seed = script.cfg.seed;
        let net = SimNet::new(tracer.clone(), seed, script.cfg.net.clone());
        World {
            tracer,
            net,
            seed,
            socks: HashMap::new(),
            peers: HashMap::new(),
            eps: HashMap::new(),
            held: HashMap::new(),
            changed: Arc::new(Notify::new()),
        }
    }

    fn addr_of(&self, name: &str) -> SocketAddr {
        if let Some(s) = self.socks.get(name) {
            return s.addr;
        }
        if let Some(p) = self.peers.get(name) {
            return p.addr;
        }
        name.parse().unwrap_or_else(|_| panic!("unknown socket {name}"))
    }

    fn create_sock(&mut self, c: &SockCfg, idx: usize) {
        let addr: SocketAddr = c.addr.parse().expect("bad addr");
        if c.raw {
            let rx = self.net.register_raw(addr, &c.name);
            let peer = RawPeer::new(&c.name, addr, self.net.clone(), self.tracer.clone(), rx);
            self.peers.insert(c.name.clone(), peer);
            return;
        }
        let transport = self.net.register(addr, &c.name);
        let env = SimEnv::new(
            self.tracer.clone(),
            &c.addr,
            c.rand.clone(),
            self.seed.wrapping_mul(1000003).wrapping_add(idx as u64),
        );
        let cancel = CancellationToken::new();
        let o = &c.opts;
        let opts = SocketOpts {
            link_mtu: nz(o.link_mtu),
            vsock_rx_bufsize_bytes: nz(o.rx_buf),
            vsock_tx_bufsize_bytes_initial: nz(o.tx_init),
            vsock_tx_bufsize_bytes_max: nz(o.tx_max),
            disable_nagle: !o.nagle.unwrap_or(true),
            max_retransmissions: nz(o.max_retx),
            remote_inactivity_timeout: o.inactivity_ms.map(Duration::from_millis),
            max_live_vsocks: nz(o.limit),
            dont_wait_for_lastack: !o.wait_last_ack.unwrap_or(true),
            mtu_probe_max_retransmissions: o.probe_retx,
            cancellation_token: cancel.clone(),
            ..Default::default()
        };
        match UtpSocket::new_with_opts(transport, env.clone(), opts) {
            Ok(sock) => {
                ev!(self.tracer, "sock_new", "sock": &c.addr, "name": &c.name, "res": "ok");
                self.socks.insert(
                    c.name.clone(),
                    SockH {
                        addr,
                        sock: Some(sock),
                        env: Some(env),
                        cancel,
                    },
                );
            }
            Err(e) => {
                ev!(self.tracer, "sock_new", "sock": &c.addr, "name": &c.name, "res": "err", "err": e.to_string());
                self.socks.insert(
                    c.name.clone(),
                    SockH {
                        addr,
                        sock: None,
                        env: None,
                        cancel,
                    },
                );
            }
        }
    }

    fn new_ep(&mut self, ep: &str, sock: &str, to: Option<SocketAddr>) {
        let (rd_tx, rd_rx) = unbounded_channel();
        let (wr_tx, wr_rx) = unbounded_channel();
        let shared = EpShared {
            status: Default::default(),
            changed: self.changed.clone(),
        };
        let abort_r = Arc::new(Notify::new());
        let abort_w = Arc::new(Notify::new());
        let ctx = EpCtx {
            name: ep.into(),
            tracer: self.tracer.clone(),
            net: self.net.clone(),
            shared: shared.clone(),
        };
        let sh = self.socks.get(sock).expect("unknown sock");
        let s = sh.sock.clone();
        let local = sh.addr;
        let seed = self.seed;
        let kind: &'static str = if to.is_some() { "connect" } else { "accept" };
        shared.inc(kind);
        let dead = Arc::new(std::sync::atomic::AtomicBool::new(false));
        let dead2 = dead.clone();
        let (ar, aw) = (abort_r.clone(), abort_w.clone());
        let tracer = self.tracer.clone();
        let epn: Arc<str> = ep.into();
        let task = tokio::spawn(async move {
            let Some(s) = s else {
                ev!(tracer, "ret", "ep": &*epn, "op": kind, "res": "err", "err": "no socket");
                ctx.shared.dec(kind);
                return;
            };
            ev!(tracer, "call", "ep": &*epn, "op": kind, "sock": local.to_string(),
                "to": to.map(|t| t.to_string()).unwrap_or_default());
            let res = match to {
                Some(t) => s.connect(t).await,
                None => s.accept().await,
            };
            match res {
                Ok(stream) => {
                    ev!(tracer, "ret", "ep": &*epn, "op": kind, "res": "ok",
                        "local": local.to_string(), "remote": stream.remote_addr().to_string(),
                        "lr": format!("{}|{}", local, stream.remote_addr()),
                        "rl": format!("{}|{}", stream.remote_addr(), local),
                        "cid": stream.verif_cid(), "incoming": to.is_none());
                    start_workers(stream, to.is_none(), local, ctx.clone(), rd_rx, wr_rx, ar, aw, seed);
                }
                Err(e) => {
                    dead2.store(true, std::sync::atomic::Ordering::SeqCst);
                    ev!(tracer, "ret", "ep": &*epn, "op": kind, "res": "err", "err": e.to_string(),
                        "local": local.to_string());
                }
            }
            ctx.shared.dec(kind);
        });
        self.eps.insert(
            ep.to_string(),
            EpH {
                dead,
                sock_addr: local.to_string(),
                conn_task: Some(task),
                conn_kind: kind,
                rd_tx,
                wr_tx,
                shared,
                abort_r,
                abort_w,
            },
        );
    }

    fn ep(&self, name: &str) -> &EpH {
        self.eps.get(name).unwrap_or_else(|| panic!("unknown ep {name}"))
    }

    async fn wait(&self, ep: Option<&str>, what: Option<&str>, timeout_us: u64) {
        let deadline = tokio::time::Instant::now() + Duration::from_micros(timeout_us);
        loop {
            let outstanding: u32 = match ep {
                Some(e) => self.ep(e).shared.outstanding(what),
                None => self.eps.values().map(|e| e.shared.outstanding(what)).sum(),
            };
            if outstanding == 0 {
                return;
            }
            let n = self.changed.notified();
            tokio::select! {
                biased;
                _ = n => {}
                _ = tokio::time::sleep_until(deadline) => {
                    let mut pend: Vec<String> = Vec::new();
                    // (structured for the trace specification: endpoints with a read waiting, everything else)
                    let mut reads: Vec<String> = Vec::new();
                    let mut others: Vec<String> = Vec::new();
                    for (k, e) in &self.eps {
                        if ep.is_some_and(|x| x != k) { continue; }
                        for d in e.shared.describe() {
                            if d.starts_with("read") { reads.push(k.to_string()); } else { others.push(format!("{k}.{d}")); }
                            pend.push(format!("{k}.{d}"));
                        }
                    }
                    pend.sort();
                    reads.sort();
                    others.sort();
                    ev!(self.tracer, "wait_timeout", "ep": ep.unwrap_or(""), "what": what.unwrap_or("all"), "pending": pend,
                        "reads": reads, "others": others);
                    return;
                }
            }
        }
    }

    pub async fn step(&mut self, st: &Step) {
        // operations on an endpoint whose connect/accept failed or was abandoned cannot run
        let target: Option<(&String, &'static str)> = match st {
            Step::Write { ep, .. } => Some((ep, "write")),
            Step::Read { ep, .. } => Some((ep, "read")),
            Step::Flush { ep } => Some((ep, "flush")),
            Step::Shutdown { ep } => Some((ep, "shutdown")),
            Step::DropR { ep } => Some((ep, "drop_r")),
            Step::DropW { ep } => Some((ep, "drop_w")),
            Step::Drop { ep } => Some((ep, "drop")),
            _ => None,
        };
        if let Some((ep, op)) = target {
            if let Some(e) = self.eps.get(ep) {
                if e.dead.load(std::sync::atomic::Ordering::SeqCst) {
                    ev!(self.tracer, "ret", "ep": ep, "op": op, "res": "noconn", "n": 0);
                    return;
                }
            }
        }
        match st {
            Step::Connect { sock, to, ep } => {
                let t = self.addr_of(to);
                self.new_ep(ep, sock, Some(t));
            }
            Step::Accept { sock, ep } => self.new_ep(ep, sock, None),
            Step::Write { ep, n, chunk } => {
                let e = self.ep(ep);
                e.shared.inc("write");
                if e.wr_tx.send(WCmd::Write {
                    n: *n,
                    chunk: chunk.unwrap_or(65536),
                }).is_err() {
                    e.shared.dec("write");
                }
            }
            Step::Read { ep, n, chunk } => {
                let e = self.ep(ep);
                e.shared.inc("read");
                if e.rd_tx.send(RCmd::Read {
                    n: *n,
                    chunk: chunk.unwrap_or(65536),
                }).is_err() {
                    e.shared.dec("read");
                }
            }
            Step::Flush { ep } => {
                let e = self.ep(ep);
                e.shared.inc("flush");
                if e.wr_tx.send(WCmd::Flush).is_err() {
                    e.shared.dec("flush");
                }
            }
            Step::Shutdown { ep } => {
                let e = self.ep(ep);
                e.shared.inc("shutdown");
                if e.wr_tx.send(WCmd::Shutdown).is_err() {
                    e.shared.dec("shutdown");
                }
            }
            Step::DropR { ep } => {
                let e = self.ep(ep);
                e.shared.inc("drop_r");
                if e.rd_tx.send(RCmd::Drop).is_err() {
                    e.shared.dec("drop_r");
                }
                e.abort_r.notify_one();
            }
            Step::DropW { ep } => {
                let e = self.ep(ep);
                e.shared.inc("drop_w");
                if e.wr_tx.send(WCmd::Drop).is_err() {
                    e.shared.dec("drop_w");
                }
                e.abort_w.notify_one();
            }
            Step::Drop { ep } => {
                let e = self.ep(ep);
                e.shared.inc("drop_r");
                e.shared.inc("drop_w");
                if e.rd_tx.send(RCmd::Drop).is_err() {
                    e.shared.dec("drop_r");
                }
                if e.wr_tx.send(WCmd::Drop).is_err() {
                    e.shared.dec("drop_w");
                }
                e.abort_r.notify_one();
                e.abort_w.notify_one();
            }
            Step::AcceptHeld { sock, ep } => {
                let sh = self.socks.get(sock).expect("unknown sock");
                let local = sh.addr;
                if let Some(s) = sh.sock.clone() {
                    ev!(self.tracer, "call", "ep": ep.as_str(), "op": "accept", "sock": local.to_string(), "to": "");
                    let mut fut: std::pin::Pin<Box<dyn std::future::Future<Output = ()>>> =
                        Box::pin(async move { let _ = s.accept().await; });
                    // exactly one poll: the acceptor is now queued with the dispatcher
                    std::future::poll_fn(|cx| {
                        let _ = fut.as_mut().poll(cx);
                        std::task::Poll::Ready(())
                    })
                    .await;
                    self.held.insert(ep.clone(), (fut, local.to_string()));
                }
            }
            Step::AcceptHeldDrop { ep } => {
                if let Some((fut, local)) = self.held.remove(ep) {
                    drop(fut);
                    ev!(self.tracer, "ret", "ep": ep.as_str(), "op": "accept", "res": "abandoned", "sock": local);
                }
            }
            Step::Abandon { ep } => {
                let e = self.eps.get_mut(ep).expect("unknown ep");
                if let Some(t) = e.conn_task.take() {
                    if !t.is_finished() {
                        e.dead.store(true, std::sync::atomic::Ordering::SeqCst);
                        t.abort();
                        ev!(self.tracer, "ret", "ep": ep, "op": e.conn_kind, "res": "abandoned", "sock": e.sock_addr.clone());
                        e.shared.dec(e.conn_kind);
                    }
                }
            }
            Step::Cancel { sock } => {
                let s = self.socks.get(sock).expect("unknown sock");
                ev!(self.tracer, "call", "ep": "", "op": "cancel", "sock": s.addr.to_string());
                s.cancel.cancel();
            }
            Step::Together {} => {}
            Step::Sleep { us } => {
                tokio::time::sleep(Duration::from_micros(*us)).await;
            }
            Step::Wait {
                ep,
                what,
                timeout_us,
            } => {
                self.wait(ep.as_deref(), what.as_deref(), *timeout_us).await;
            }
            Step::NetSet { from, to, set } => {
                let f = self.addr_of(from);
                let t = self.addr_of(to);
                let set = set.clone();
                self.net.set_dir(f, t, |c| {
                    if let Some(o) = set.as_object() {
                        for (k, v) in o {
                            match k.as_str() {
                                "latency_us" => c.latency_us = v.as_u64().unwrap_or(0),
                                "spacing_us" => c.spacing_us = v.as_u64().unwrap_or(0),
                                "blackhole_above" => {
                                    c.blackhole_above = v.as_u64().map(|x| x as usize)
                                }
                                "emsgsize_above" => {
                                    c.emsgsize_above = v.as_u64().map(|x| x as usize)
                                }
                                "cut" => c.cut = v.as_bool().unwrap_or(false),
                                "pending" => c.pending = v.as_bool().unwrap_or(false),
                                "loss_pm" => c.loss_pm = v.as_u64().unwrap_or(0) as u32,
                                "dup_pm" => c.dup_pm = v.as_u64().unwrap_or(0) as u32,
                                "reorder_pm" => c.reorder_pm = v.as_u64().unwrap_or(0) as u32,
                                "reorder_delay_us" => c.reorder_delay_us = v.as_u64().unwrap_or(0),
                                "loss_budget" => c.loss_budget = v.as_u64().unwrap_or(0) as u32,
                                _ => {}
                            }
                        }
                    }
                });
                ev!(self.tracer, "net_set", "from": f.to_string(), "to": t.to_string(), "set": set);
            }
            Step::Rule(r) => self.net.add_rule(r.clone()),
            Step::ClearRules {} => self.net.clear_rules(),
            Step::Rand { sock, v } => {
                if let Some(e) = self.socks.get(sock).and_then(|s| s.env.as_ref()) {
                    e.push_random(v);
                }
            }
            Step::Peer { name, intent } => {
                let target_default = self.socks.values().next().map(|s| s.addr);
                let names: HashMap<String, SocketAddr> = self
                    .socks
                    .iter()
                    .map(|(k, v)| (k.clone(), v.addr))
                    .collect();
                let p = self.peers.get_mut(name).expect("unknown peer");
                p.exec(intent, &names, target_default).await;
            }
            Step::Mark { label } => {
                ev!(self.tracer, "mark", "label": label);
            }
        }
    }
}

/// Execute one script in a fresh runtime; events are appended to `tracer`.
pub fn run_script(script: &Script, tracer: &Tracer) {
    let rt = tokio::runtime::Builder::new_current_thread()
        .enable_time()
        .start_paused(true)
        .rng_seed(tokio::runtime::RngSeed::from_bytes(
            &script.cfg.seed.to_le_bytes(),
        ))
        .build()
        .expect("runtime");
    let script = script.clone();
    let tracer = tracer.clone();
    rt.block_on(async move {
        let cfg_json = json!({
            "name": script.cfg.name,
            "seed": sat(script.cfg.seed as i64),
            "latency_us": script.cfg.net.latency_us,
            "spacing_us": script.cfg.net.spacing_us,
            "info": if script.cfg.info.is_null() { json!("") } else { script.cfg.info.clone() },
        });
        tracer.start_run(cfg_json);
        let mut w = World::new(tracer.clone(), &script);
        let net_task = tokio::spawn(w.net.clone().run());
        for (i, c) in script.cfg.socks.iter().enumerate() {
            w.create_sock(c, i);
        }
        quiesce().await;
        let mut together = false;
        for st in &script.steps {
            if matches!(st, Step::Together {}) {
                together = true;
                continue;
            }
            w.step(st).await;
            if together {
                together = false;
            } else {
                quiesce().await;
            }
        }
        // end of run: what is still outstanding
        let mut pend: Vec<String> = Vec::new();
        for (k, e) in &w.eps {
            for d in e.shared.describe() {
                pend.push(format!("{k}.{d}"));
            }
        }
        pend.sort();
        ev!(tracer, "end_run", "pending": pend, "in_flight": w.net.in_flight());
        w.net.stop();
        net_task.abort();
    });
    drop(rt);
}
