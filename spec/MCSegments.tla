----------------------------- MODULE MCSegments -----------------------------
(***************************************************************************)
(* Bounded instance of Segments.tla.                                       *)
(*                                                                         *)
(* TLC enumerates, breadth first, EVERY sequence of calls up to Depth      *)
(* effective calls (a call that leaves the abstract queue unchanged does   *)
(* not count) over the small value sets below, from the empty queue with   *)
(* snd_una = 3 and snd_una = 65534 (two calls before the wrap).  Call      *)
(* sequences are folded by (abstract state, depth).  The environment is    *)
(* the dispatcher's discipline: nothing is enqueued behind an outstanding  *)
(* probe (MayEnqueue).  For every transition TLC                           *)
(*   - asserts that the specification's own answer breaks no clause        *)
(*     (Rules of Segments.tla: the clauses hold of the abstract queue),    *)
(*   - checks the state invariants (Inv),                                  *)
(*   - prints  "T [from, op, ret, to]"   (from / to: state keys)           *)
(* and for every distinct state  "S [key, Obs, NextEnq]".  vlib/segs.py    *)
(* rebuilds the graph, picks the canonical (first in sorted breadth-first  *)
(* order) call history of every state and turns every transition into the  *)
(* case   history(from) ++ <<op>>   expecting   ret, Obs(to), NextEnq(to)  *)
(* (NextEnq: what one more enqueue would show - it exposes the hidden end  *)
(* of the segmented bytes, which two histories folded into one abstract    *)
(* state could otherwise disagree on unnoticed); unit_segs replays the     *)
(* cases on the real `Segments`, each on a fresh object.                   *)
(*                                                                         *)
(* Key of a state: <<depth, una, removed, c_1, .., c_n>>, c_i = len +      *)
(* 4 * probe + 8 * delivered + 16 * sent of q[i] (the offsets follow from  *)
(* Tiling, which is an invariant).                                         *)
(*                                                                         *)
(* Value sets (SEGS_TIER = quick | thorough; Depth = 6 | 8):               *)
(*   enqueue  len in {1, 2, 3}, probe in {0, 1}, at most MaxQ = 5 queued   *)
(*   send     start in {None, una - 1, una + 1, una + n - 1}; on_sent on   *)
(*            one yielded item (each position) or on all of them; a        *)
(*            segment is sent at most MaxSent = 3 times                    *)
(*   ack      ack_nr in una - 4 .. una + n + 1; no SACK, or a SACK of one  *)
(*            byte (thorough: bits 0..3 in all combinations; quick: bits   *)
(*            0..2 in all combinations, {3}, {0,3}) or of eight bytes with *)
(*            the far bit 63 (alone, with bit 0, with bit 1)               *)
(*   pop      seq in {last - 1, last, last + 1}                            *)
(*   popx     timed_out in {0, 1}, max_retx in {0, 1, 2}                   *)
(* These full alphabets are offered for the first FullDepth = 3 calls.     *)
(* Later calls draw from smaller ones so that the last levels stay         *)
(* affordable (Lvl): "reduced" (calls 4, 5), "small" (quick: call 6;       *)
(* thorough: calls 6, 7) and, thorough only, eight fixed calls as call 8.  *)
(* SEGS_DEPTH / SEGS_FULL / SEGS_LAST override Depth / FullDepth / the     *)
(* number of "small" levels.                                               *)
(***************************************************************************)
EXTENDS Segments, TLC, Json, IOUtils

EnvInt(name, default) == IF name \in DOMAIN IOEnv THEN atoi(IOEnv[name]) ELSE default
Thorough  == "SEGS_TIER" \in DOMAIN IOEnv /\ IOEnv.SEGS_TIER = "thorough"
Depth     == EnvInt("SEGS_DEPTH", IF Thorough THEN 8 ELSE 6)
FullDepth == EnvInt("SEGS_FULL", 3)
LastLevels == EnvInt("SEGS_LAST", IF Thorough THEN 3 ELSE 1)
MaxQ      == 5
MaxSent   == 3
Lens      == {1, 2, 3}
Starts0   == {3, 65534}

VARIABLES st, depth,
          ob        \* Obs(st): carried along so that it is computed once per state
vars == <<st, depth, ob>>

(* 0: full alphabets; 1: reduced (from FullDepth calls on); 2: small (the last LastLevels calls); 3: the
   very last call of the thorough instance (quick: its last call is of kind 2) *)
Lvl == IF Thorough /\ depth >= Depth - 1 THEN 3
       ELSE IF depth >= Depth - LastLevels THEN 2 ELSE IF depth >= FullDepth THEN 1 ELSE 0
Pick4(a, b, c, d) == IF Lvl = 0 THEN a ELSE IF Lvl = 1 THEN b ELSE IF Lvl = 2 THEN c ELSE d
Pick(a, b, c) == Pick4(a, b, c, c)

Code(g) == g.len + 4 * B(g.probe) + 8 * B(g.dlv) + 16 * g.sent
Key(s, d) == <<d, s.una, s.removed>> \o [i \in 1..NQ(s) |-> Code(s.q[i])]

---------------------------------------------------------------------------
(* The calls offered in state s.                                           *)
EnqOps(s) ==
    IF NQ(s) < MaxQ /\ MayEnqueue(s)
    THEN Pick4({ <<"e", l, p>> : l \in Lens, p \in {0, 1} },
               { <<"e", l, p>> : l \in {1, 3}, p \in {0, 1} },
               { <<"e", 2, 0>>, <<"e", 3, 1>> },
               { <<"e", 2, 0>> })
    ELSE {}

SendStarts(s) ==
    Pick({-1, SeqSubK(s.una, 1, M), Add(s.una, 1, M), Add(s.una, NQ(s) + M - 1, M)},
         {-1, Add(s.una, 1, M)},
         {-1})
SendMasks(s, start) ==
    LET y == Yield(s, start)
        m == Len(y)
        one == IF Lvl = 3 THEN {} ELSE { 2 ^ (k - 1) : k \in { j \in 1..m : s.q[y[j]].sent < MaxSent } }
        all == IF m >= (IF Lvl = 3 THEN 1 ELSE 2) /\ \A j \in 1..m : s.q[y[j]].sent < MaxSent THEN {2 ^ m - 1} ELSE {}
    IN one \cup all
SendOps(s) == { <<"s", x[1], x[2]>> : x \in UNION { { <<b, mk>> : mk \in SendMasks(s, b) } : b \in SendStarts(s) } }

LowSets  == Pick4(IF Thorough THEN 0..15 ELSE (0..7) \cup {8, 9}, IF Thorough THEN {1, 2, 5, 7} ELSE {1, 2, 5}, {1, 6}, {})
FarBytes == Pick({ <<b, 0, 0, 0, 0, 0, 0, 128>> : b \in {0, 1, 2} }, { <<0, 0, 0, 0, 0, 0, 0, 128>> }, {})
Sacks    == { <<0, << >> >> } \cup { <<1, <<b>> >> : b \in LowSets } \cup { <<1, f>> : f \in FarBytes }
(* the very last call: a cumulative ACK of the first segment, an old ACK with bit 0 / with bits 1 and 2 *)
FinalAcks(s) == { <<"a", s.una, 0, << >> >>, <<"a", SeqSubK(s.una, 1, M), 1, <<1>> >>, <<"a", SeqSubK(s.una, 3, M), 1, <<6>> >> }
AckRel(s) == Pick((-4)..(NQ(s) + 1),
                  IF Thorough THEN {-3, -2, -1, 0, 1, NQ(s) - 1, NQ(s)} ELSE {-3, -2, -1, 0, NQ(s) - 1},
                  {-3, -1, 0, NQ(s) - 2})
AckNrs(s) == { Add(s.una, k + M, M) : k \in AckRel(s) }
AckOps(s) == IF Lvl = 3 THEN FinalAcks(s) ELSE { <<"a", a, k[1], k[2]>> : a \in AckNrs(s), k \in Sacks }

PopOps(s)  == { <<"p", Add(s.una, NQ(s) + M - 1 + k, M)>> : k \in Pick({-1, 0, 1}, {-1, 0}, {0}) }
PopxOps(s) == { <<"x", x[1], x[2]>> : x \in Pick({0, 1} \X {0, 1, 2}, {<<1, 0>>, <<1, 1>>, <<1, 2>>, <<0, 0>>}, {<<1, 0>>, <<1, 1>>}) }

Ops(s) == EnqOps(s) \cup SendOps(s) \cup AckOps(s) \cup PopOps(s) \cup PopxOps(s)

---------------------------------------------------------------------------
Init ==
    /\ depth = 0
    /\ st \in { StNew(u) : u \in Starts0 }
    /\ ob = Obs(st)

(* The clauses hold of the specification's own answer (r = Apply(s, op), e = Obs(r.st)). *)
Consistent(s, op, r, e) ==
    LET b == Broken(RulesX(s, [prev |-> ob, hole |-> -1, disc |-> TRUE], op,
                           [ret |-> r.ret, obs |-> e, panic |-> ""], r, e))
    IN  Assert(b = {}, <<"the abstract queue breaks a clause", b, s, op>>)

Step(op) ==
    /\ depth < Depth
    /\ \E r \in {Apply(st, op)} : \E e \in {Obs(r.st)} : \E d1 \in {IF r.st = st THEN depth ELSE depth + 1} :
          /\ Consistent(st, op, r, e)
          /\ st' = r.st
          /\ depth' = d1
          /\ ob' = e
          /\ PrintT("T " \o ToJson(<<Key(st, depth), op, r.ret, Key(r.st, d1)>>))

EnqueueA == \E op \in EnqOps(st) : Step(op)
SendA    == \E op \in SendOps(st) : Step(op)
AckA     == \E op \in AckOps(st) : Step(op)
PopA     == \E op \in PopOps(st) : Step(op)
PopxA    == \E op \in PopxOps(st) : Step(op)

Next == EnqueueA \/ SendA \/ AckA \/ PopA \/ PopxA
Spec == Init /\ [][Next]_vars

---------------------------------------------------------------------------
TypeOK ==
    /\ depth \in 0..Depth
    /\ st.una \in 0..(M - 1) /\ st.removed >= 0 /\ st.offset >= st.removed
    /\ NQ(st) <= MaxQ
    /\ \A i \in 1..NQ(st) : st.q[i].len \in Lens /\ st.q[i].sent \in 0..MaxSent

Inv ==
    /\ Tiling(st)                    \* C01
    /\ FrontUndelivered(st)          \* C06
    /\ ProbeIsNewest(st)             \* C14 (under MayEnqueue)
    /\ \A b \in SendStarts(st) \cup {-1} : IterSound(st, b)      \* C06

(* One line per distinct state: what the real API must show in it.         *)
EmitS == PrintT("S " \o ToJson(<<Key(st, depth), ob, NextEnq(st)>>))
=============================================================================
