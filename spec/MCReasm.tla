------------------------------ MODULE MCReasm ------------------------------
(***************************************************************************)
(* Bounded instance of Reasm.tla.                                          *)
(*                                                                         *)
(* TLC enumerates, breadth first to depth REASM_DEPTH, EVERY sequence of   *)
(* calls over small value sets from the fresh receiver:                    *)
(*   arrive(offset 0..slots and 4, payload of 1 or 2 bytes | ST_FIN), flush,*)
(*   flush_all_before_close, read(buffer of 1, 2, 8 bytes), drop of the    *)
(*   read half, enqueue_error (at most two), mark_vsock_closed,            *)
(*   register_dispatcher_waker                                             *)
(* with a receive buffer of REASM_CAP bytes and REASM_SLOTS reassembly     *)
(* slots (capacity / largest payload).  Histories that leave the receiver  *)
(* in the same state (ghost `acc` included) at the same depth are          *)
(* continued once (VIEW); `hist` is the witnessing history.                *)
(*                                                                         *)
(* In every reachable state: StateInv (Reasm.tla) and the stream           *)
(* invariants below.  On every transition: no rule of Reasm.tla is broken  *)
(* by the specification's own answer (the clauses, written independently   *)
(* of the operators, are consequences of them) and the read returns the    *)
(* next bytes of the stream (ReadIsNextOfStream, EofOnlyAtTheEnd).         *)
(*                                                                         *)
(* Every transition is printed as a CASE                                   *)
(*   <<"C", ToJson(<<history, call, expected answer>>)>>                   *)
(* calls compactly: <<"a", offset, len>> (len 0: ST_FIN)  <<"f">> flush    *)
(* <<"F">> flush_all  <<"r", buflen>>  <<"d">> drop reader  <<"e">> error  *)
(* <<"c">> close  <<"w">> register waker; the expected answer is           *)
(*   <<res, n, bytes, errid, runs, rwake, dwake,                           *)
(*     ub, pb, pk, win, aempty, sack_some, sack, rdrop>>                   *)
(* vlib/ooq.py replays history ++ call on the real objects (unit_ooq) and  *)
(* compares the answer to the last call with exact equality.               *)
(***************************************************************************)
EXTENDS Reasm, TLC, Json, IOUtils

EnvInt(name, dflt) == IF name \in DOMAIN IOEnv THEN atoi(IOEnv[name]) ELSE dflt
CapV   == EnvInt("REASM_CAP", 4)
MaxPV  == EnvInt("REASM_MAXP", 2)
SlotsV == EnvInt("REASM_SLOTS", 2)
Depth  == EnvInt("REASM_DEPTH", 4)
(* steps 1..FullDepth use the full alphabet, later ones (thorough tier) the reduced one *)
FullDepth == EnvInt("REASM_FULL", 99)

VARIABLES st, acc, depth, hist
vars == <<st, acc, depth, hist>>
View == <<st, acc, depth>>

Deep == depth >= FullDepth
(* every slot, the first offset beyond them, and (one payload length only) offset 4, far beyond *)
Offsets == IF Deep THEN {0, 1, SlotsV} ELSE 0..SlotsV
Far     == IF Deep THEN {} ELSE {4} \ Offsets
Lens    == {1, 2}
Bufs    == IF Deep THEN {1, 8} ELSE {1, 2, 8}

Call(op, a, b, fin) == [op |-> op, a |-> a, b |-> b, fin |-> fin]

Compact(c) ==
    CASE c.op = "arrive"      -> <<"a", c.a, IF c.fin THEN 0 ELSE c.b>>
      [] c.op = "flush"       -> <<"f">>
      [] c.op = "flush_all"   -> <<"F">>
      [] c.op = "read"        -> <<"r", c.a>>
      [] c.op = "drop_reader" -> <<"d">>
      [] c.op = "error"       -> <<"e">>
      [] c.op = "close"       -> <<"c">>
      [] c.op = "regwaker"    -> <<"w">>

ExpTuple(e) == <<e.res, e.n, e.bytes, e.errid, e.runs, e.rwake, e.dwake,
                 e.ub, e.pb, e.pk, e.win, e.aempty, e.sack_some, e.sack, e.rdrop>>

---------------------------------------------------------------------------
(* The stream: "the in-order concatenation of the payloads of sequence      *)
(* numbers 1, 2, 3, ... (each exactly once)" up to the ST_FIN, as pairs     *)
(* <<sequence number, position>>.  acc[s] = [len, fin] of sequence number s,*)
(* for every s acknowledged (consumed in order) so far.                     *)
RECURSIVE StreamFrom(_, _)
StreamFrom(a, s) ==
    IF s > Len(a) \/ a[s].fin THEN <<>>
    ELSE [p \in 1..a[s].len |-> <<s, p - 1>>] \o StreamFrom(a, s + 1)
Stream(a) == StreamFrom(a, 1)
HasFin(a) == \E s \in 1..Len(a) : a[s].fin

RECURSIVE Expand(_)
Expand(ps) ==
    IF ps = <<>> THEN <<>>
    ELSE LET p == Head(ps) IN [i \in 1..p[3] |-> <<p[1], p[2] + i - 1>>] \o Expand(Tail(ps))

(* C01: "the byte sequence returned by poll_read is the in-order concatenation of the payloads of sequence
   numbers 1, 2, 3, ... (each exactly once), for every read buffer size" *)
ReadIsNextOfStream(s0, a, c, x) ==
    c.op = "read" /\ x.res = "ok" => Expand(x.pieces) = SubSeq(Stream(a), s0.rbytes + 1, s0.rbytes + x.n)

(* C03: "EOF is returned only after all data consumed before the FIN" *)
EofOnlyAtTheEnd(s0, a, c, x) ==
    c.op = "read" /\ x.res = "eof" => HasFin(a) /\ s0.rbytes = Len(Stream(a))

(* C03: an error is returned only with nothing copied, and is an error that was enqueued or the
   closed connection *)
ErrorIsQueued(s0, a, c, x) ==
    c.op = "read" /\ x.res = "err" => x.n = 0 /\ (x.errid = DeadId \/ x.errid \in 1..s0.nerr)

(* "nothing consumed is ever lost: the reader eventually reads exactly the concatenation of consumed
   payloads in sequence order (given enough reads), then EOF if an ST_FIN was consumed, or the enqueued
   error": close the connection down (flush_all_before_close; mark closed) and read until nothing comes. *)
RECURSIVE Drain(_, _, _)
Drain(s0, got, errs) ==
    LET x == Read(s0, Big) IN
    IF x.res = "ok" THEN Drain(x.st, got \o Expand(x.pieces), errs)
    ELSE IF x.res = "err" /\ x.errid # DeadId THEN Drain(x.st, got, Append(errs, x.errid))
    ELSE [got |-> got, errs |-> errs, last |-> x.res, errid |-> x.errid]

Drains ==
    ~st.rdrop =>
        LET d == Drain(MarkClosed(FlushAll(st).st).st, <<>>, <<>>)
            errsQueued == LET q == SelectSeq(st.uq, LAMBDA it : it.k = "err") IN [i \in 1..Len(q) |-> q[i].s]
        IN  /\ d.got = SubSeq(Stream(acc), st.rbytes + 1, Len(Stream(acc)))
            /\ (HasFin(acc) => d.last = "eof")
            /\ (~HasFin(acc) => d.last = "err" /\ d.errid = DeadId /\ d.errs = errsQueued)

---------------------------------------------------------------------------
Init ==
    /\ st = StNew(CapV, MaxPV, SlotsV)
    /\ acc = <<>> /\ depth = 0 /\ hist = <<>>

Step(c) ==
    LET x  == Apply(st, c)
        e  == Expected(x)
        g  == [cons |-> x.st.cbytes, read |-> x.st.rbytes]
        rs == Rules(st, c, x, e, e, g)
    IN  /\ depth < Depth
        /\ Assert(Broken(rs) = {}, <<"a rule is broken by the specification's own answer", c, Broken(rs), st>>)
        /\ Assert(ReadIsNextOfStream(st, acc, c, x), <<"ReadIsNextOfStream", c, st, acc>>)
        /\ Assert(EofOnlyAtTheEnd(st, acc, c, x), <<"EofOnlyAtTheEnd", c, st, acc>>)
        /\ Assert(ErrorIsQueued(st, acc, c, x), <<"ErrorIsQueued", c, st, acc>>)
        /\ st' = x.st
        /\ acc' = acc \o [i \in 1..Len(x.taken) |-> [len |-> x.taken[i].len, fin |-> x.taken[i].fin]]
        /\ depth' = depth + 1
        /\ hist' = Append(hist, Compact(c))
        /\ PrintT(<<"C", ToJson(<<hist, Compact(c), ExpTuple(e)>>)>>)

(* flush_all_before_close is the dispatcher's last act on a connection that is going away: no packet is
   processed and nothing is flushed after it (reads, the error, the closing still happen) *)
Alive      == ~st.fall
ArriveData == /\ Alive
              /\ \/ \E o \in Offsets : \E n \in Lens : Step(Call("arrive", o, n, FALSE))
                 \/ \E o \in Far : Step(Call("arrive", o, 1, FALSE))
ArriveFin  == Alive /\ \E o \in Offsets \cup Far : Step(Call("arrive", o, 0, TRUE))
DoFlush    == Alive /\ Step(Call("flush", 0, 0, FALSE))
DoFlushAll == Step(Call("flush_all", 0, 0, FALSE))
DoRead     == ~st.rdrop /\ \E b \in Bufs : Step(Call("read", b, 0, FALSE))
DoDrop     == ~st.rdrop /\ Step(Call("drop_reader", 0, 0, FALSE))
DoError    == st.nerr < (IF Deep THEN 1 ELSE 2) /\ Step(Call("error", 0, 0, FALSE))
DoClose    == ~st.closed /\ Step(Call("close", 0, 0, FALSE))
DoReg      == ~Deep /\ ~st.dreg /\ Step(Call("regwaker", 0, 0, FALSE))

Next == ArriveData \/ ArriveFin \/ DoFlush \/ DoFlushAll \/ DoRead \/ DoDrop \/ DoError \/ DoClose \/ DoReg
Spec == Init /\ [][Next]_vars

---------------------------------------------------------------------------
Inv == StateInv(st)

(* the acknowledged sequence numbers are exactly 1 .. base + ff, and the reader never got ahead of them *)
StreamInv ==
    /\ Len(acc) = st.base + st.ff
    /\ st.rbytes <= Len(Stream(acc))
    /\ st.eof => HasFin(acc) /\ st.rbytes = Len(Stream(acc))
=============================================================================
