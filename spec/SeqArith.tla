----------------------------- MODULE SeqArith -----------------------------
(***************************************************************************)
(* 16-bit (in general: modulo M) sequence-number arithmetic.               *)
(*                                                                         *)
(* Offset(new, old, M, W) is a transcription of `seq_nr_offset` (the       *)
(* implementation's distance function, which only looks for a wrap within  *)
(* a tolerance W).  Dist(a, b, M) is the ideal signed modular distance.    *)
(* The lemma OffsetAgrees (checked exhaustively by MCSeq for the real      *)
(* constants and discharged symbolically by Apalache) says the two agree   *)
(* whenever the true distance is within the tolerance.                     *)
(*                                                                         *)
(* Every rule of the contract compares sequence numbers with Dist; the     *)
(* implementation is bound to Offset (C09).                                *)
(***************************************************************************)
EXTENDS Integers

Offset(new, old, M, W) ==
    IF new < old
      THEN (IF (new - old) % M <= W THEN (new - old) % M ELSE -(old - new))
      ELSE IF new = old THEN 0
      ELSE (IF (old - new) % M <= W THEN -((old - new) % M) ELSE new - old)

(* signed distance a - b in [-M/2, M/2) *)
Dist(a, b, M) ==
    LET d == (a - b) % M IN IF d >= M \div 2 THEN d - M ELSE d

Abs(x) == IF x < 0 THEN -x ELSE x

OffsetAgreesAt(a, b, M, W) ==
    Abs(Dist(a, b, M)) <= W => Offset(a, b, M, W) = Dist(a, b, M)

(* Offset depends on (a - b) mod M and on the order of a and b only *)
Add(a, k, M) == (a + k) % M
=============================================================================
