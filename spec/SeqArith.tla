----------------------------- MODULE SeqArith -----------------------------
(***************************************************************************)
(* 16-bit (in general: modulo M) sequence-number arithmetic.               *)
(*                                                                         *)
(* Offset(new, old, M, W) is a transcription of `seq_nr_offset` (the       *)
(* implementation's distance function, which only looks for a wrap within  *)
(* a tolerance W).  Dist(a, b, M) is the ideal signed modular distance.    *)
(* The lemma OffsetAgrees (checked exhaustively by MCSeq for the real      *)
(* constants and discharged symbolically by Apalache) says the two agree   *)
(* whenever the true distance is within the tolerance.                     *)
(*                                                                         *)
(* Every rule of the contract compares sequence numbers with Dist; the     *)
(* implementation is bound to Offset (C09).                                *)
(***************************************************************************)
EXTENDS Integers

Offset(new, old, M, W) ==
    IF new < old
      THEN (IF (new - old) % M <= W THEN (new - old) % M ELSE -(old - new))
      ELSE IF new = old THEN 0
      ELSE (IF (old - new) % M <= W THEN -((old - new) % M) ELSE new - old)

(* signed distance a - b in [-M/2, M/2) *)
Dist(a, b, M) ==
    LET d == (a - b) % M IN IF d >= M \div 2 THEN d - M ELSE d

Abs(x) == IF x < 0 THEN -x ELSE x

OffsetAgreesAt(a, b, M, W) ==
    Abs(Dist(a, b, M)) <= W => Offset(a, b, M, W) = Dist(a, b, M)

(* Offset depends on (a - b) mod M and on the order of a and b only *)
Add(a, k, M) == (a + k) % M

(***************************************************************************)
(* ---- appended for C09 (MCSeq.tla, SeqTrace.tla); nothing above is       *)
(* changed.  Per-pair lemmas about Offset; MCSeq quantifies them.          *)
(*                                                                         *)
(* C09: "Ordering and distance of two sequence numbers agree with true     *)
(* modular distance for every distance the configured windows allow."      *)
(*                                                                         *)
(* The tolerance W must therefore be at least the largest window, in       *)
(* packets, that the configuration allows (receive slots, segments in      *)
(* flight, SACK reach).  The lemmas need 2 * W < M, so W = M/2 - 1 = 32767  *)
(* is the largest tolerance 16-bit arithmetic admits; with it the only     *)
(* distance beyond the tolerance is the antipode |Dist| = M/2 = 32768,     *)
(* whose modular order is ambiguous anyway.  The former value W = 1024 was *)
(* the defect D8 (the default receive buffer alone allows 1985 packets):   *)
(* beyond the tolerance Offset is the plain integer difference, i.e. the   *)
(* wrong order across the wrap (smallest witness for W = 1024:             *)
(* a = 0, b = 64511: b is 1025 behind a, Offset says a < b).               *)
(***************************************************************************)
SeqSign(x) == IF x < 0 THEN -1 ELSE IF x > 0 THEN 1 ELSE 0

(* the implementation's order (Ord for SeqNr): sign of the offset *)
SeqCmp(a, b, M, W) == SeqSign(Offset(a, b, M, W))
SeqSubK(a, k, M) == (a - k) % M

(* Offset as a function of d = (a - b) % M and lt = (a < b) only: the value *)
(* at the representative pair (d, 0) resp. (0, M - d).  (d = 0 with lt is   *)
(* impossible; padded with 0.)                                              *)
OffsetRep(d, lt, M, W) ==
    IF lt THEN (IF d = 0 THEN 0 ELSE Offset(0, M - d, M, W))
          ELSE Offset(d, 0, M, W)

(* The lemmas are stated on VALUES first (o = Offset(a, b), o2 = Offset(b, a), *)
(* t = Dist(a, b), r = OffsetRep(..)) so that MCSeq can evaluate each function *)
(* once per pair; the ...At forms below are the same bodies on a pair.         *)

(* OffsetAgreesAt (above) on values *)
L_OffsetAgrees(o, t, W) == Abs(t) <= W => o = t

(* structural lemma: Offset depends on (a - b) mod M and on a < b only *)
L_DependsOnDLt(o, r) == o = r

(* What Offset is, everywhere (needs 2 * W < M): the modular distance when   *)
(* that is within the tolerance, and otherwise the PLAIN INTEGER difference  *)
(* a - b - which is the modular distance only if no wrap lies between a and  *)
(* b (|a - b| < M/2), and is off by +-M (wrong sign!) if one does.           *)
L_ClosedForm(a, b, o, t, W) == o = (IF Abs(t) <= W THEN t ELSE a - b)

(* properties the code relies on *)
L_Antisym(o, o2) == o = -o2 /\ SeqSign(o) = -SeqSign(o2)
L_ZeroIffEqual(a, b, o) == (o = 0) <=> (a = b)
(* within the tolerance the implementation's "<" is the modular "<" *)
L_OrdAgrees(o, t, W) == Abs(t) <= W => SeqSign(o) = SeqSign(t)

(* the NEGATIVE fact: beyond the tolerance the order is the plain integer   *)
(* order of the two 16-bit values ...                                       *)
L_OrdIsPlainBeyond(a, b, o, t, W) ==
    Abs(t) > W => (o = a - b /\ SeqSign(o) = SeqSign(a - b))
(* ... which is the WRONG order whenever the wrap lies between them          *)
L_OrdInvertedAcrossWrap(a, b, o, t, M, W) ==
    (Abs(t) > W /\ 2 * Abs(a - b) > M) =>
        (o = t + (IF a > b THEN M ELSE -M) /\ SeqSign(o) = -SeqSign(t))

OffsetDependsOnDLtAt(a, b, M, W) ==
    L_DependsOnDLt(Offset(a, b, M, W), OffsetRep((a - b) % M, a < b, M, W))
OffsetClosedFormAt(a, b, M, W) == L_ClosedForm(a, b, Offset(a, b, M, W), Dist(a, b, M), W)
OffsetAntisymAt(a, b, M, W) == L_Antisym(Offset(a, b, M, W), Offset(b, a, M, W))
OffsetZeroIffEqualAt(a, b, M, W) == L_ZeroIffEqual(a, b, Offset(a, b, M, W))
OrdAgreesAt(a, b, M, W) == L_OrdAgrees(Offset(a, b, M, W), Dist(a, b, M), W)
OrdIsPlainBeyondAt(a, b, M, W) == L_OrdIsPlainBeyond(a, b, Offset(a, b, M, W), Dist(a, b, M), W)
OrdInvertedAcrossWrapAt(a, b, M, W) ==
    L_OrdInvertedAcrossWrap(a, b, Offset(a, b, M, W), Dist(a, b, M), M, W)

(* a pair on which the implementation's order contradicts the modular order *)
OrdWrongAt(a, b, M, W) ==
    /\ 2 * Abs(Dist(a, b, M)) < M
    /\ SeqCmp(a, b, M, W) # SeqSign(Dist(a, b, M))

(* every two numbers of one window [base, base + W] compare like their       *)
(* positions in the window (this is what a protocol window needs; it implies *)
(* transitivity of the order inside a window).  NB: "pairwise within W" is    *)
(* NOT enough for transitivity once 3 * W >= M (cyclic order).                *)
WindowOrderAt(base, x, y, M, W) ==
    (x \in 0..W /\ y \in 0..W) =>
        /\ Offset(Add(base, x, M), Add(base, y, M), M, W) = x - y
        /\ SeqCmp(Add(base, x, M), Add(base, y, M), M, W) = SeqSign(x - y)

(* the walk of SeqTrace: k steps forward/backward and the offset to where   *)
(* it started is k again as long as k is within the tolerance               *)
AddThenOffsetAt(a, k, M, W) ==
    k <= W => /\ Offset(Add(a, k, M), a, M, W) = k
              /\ Offset(SeqSubK(a, k, M), a, M, W) = -k
=============================================================================
