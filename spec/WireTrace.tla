----------------------------- MODULE WireTrace -----------------------------
(***************************************************************************)
(* Trace specification for property C11 (component level, impl -> spec).   *)
(* Each line of the trace is one call on the real codec, recorded by       *)
(* unit/src/bin/unit_wire.rs (record mode):                                *)
(*                                                                         *)
(*  op = "parse": b (bytes); hp/hok/h : panic / accepted / header and      *)
(*      consumed length answered by UtpHeader::deserialize; mp/mok/m : the *)
(*      same for UtpMessage::deserialize (m.pl = payload bytes); when the  *)
(*      header was accepted, rs = that header serialised by the real code  *)
(*      (b) and parsed again (ok2, h2, eq = Rust `==` of the two headers). *)
(*  op = "ser":   a (a header value built through the public API); p/sok/b *)
(*      the serialisation; ok2/h2/eq the parse of those bytes.             *)
(*                                                                         *)
(* Every line is judged against Wire.tla through the operators of          *)
(* WireCases.tla (the same ones MCWire checks); rules are evaluated, not   *)
(* used as guards, so one pass reports every broken rule.                  *)
(*   viol : set of <<line, rule, ctx>>      cov : rule -> times applicable *)
(***************************************************************************)
EXTENDS WireCases, TLC, TLCExt, Json, IOUtils

Rec == ndJsonDeserialize(IOEnv.TRACE)
N == Len(Rec)

VARIABLES l, viol, cov
vars == <<l, viol, cov>>

RuleNames == { "C11.NoPanic", "C11.ParseAgrees", "C11.MessageAgrees", "C11.UnknownSkipped",
               "C11.SerializeAgrees", "C11.RoundTrip", "C11.RoundTrip.sack-len",
               "C11.SerializeAgrees.both-ext", "C11.RoundTrip.both-ext",
               "C11.n.accepted", "C11.n.rejected", "C11.n.message-accepted", "C11.n.serialised" }
MaxPerRule == 8

Init == l = 1 /\ viol = {} /\ cov = [r \in RuleNames |-> 0]

(* rs: set of <<rule, ctx, applicable, holds>> *)
CovKey(x) == IF x[2] = "" THEN x[1] ELSE x[1] \o "." \o x[2]
Judge(rs) ==
    LET broken  == { x \in rs : x[3] /\ ~x[4] }
        covered == { CovKey(x) : x \in { y \in rs : y[3] } }
        room(x) == Cardinality({ v \in viol : v[2] = x[1] /\ v[3] = x[2] }) < MaxPerRule
    IN  /\ viol' = viol \cup { <<l, x[1], x[2]>> : x \in { y \in broken : room(y) } }
        /\ cov' = [r \in RuleNames |-> cov[r] + IF r \in covered THEN 1 ELSE 0]
Count(name, cond) == <<name, "", cond, TRUE>>

---------------------------------------------------------------------------
(* Does the header x answered by the implementation agree with the parse s  *)
(* of record?  Fields exactly; the selective ACK within its first 64 bits  *)
(* (one of the chain's, when several); the close reason as far as the      *)
(* grammar pins it down (WireCases: CrStrict).                             *)
SackAgrees(x, s) ==
    LET ss == Sacks(s) IN
    IF ss = << >> THEN ~x.hs
    ELSE x.hs /\ \E i \in 1 .. Len(ss) : x.sack = ss[i]
CrAgrees(x, s) ==
    IF CrExts(s) = << >> THEN ~x.hc
    ELSE IF CrStrict(s) THEN x.hc /\ \E i \in 1 .. Len(CrVals(s)) : x.cr = CrVals(s)[i]
    ELSE TRUE
HdrAgrees(x, s) == ApiFields(x) = Fields(s) /\ SackAgrees(x, s) /\ CrAgrees(x, s)

(* two header values as the API presents them, `len` of the selective ACK aside *)
SameHeader(x, y) ==
    /\ ApiFields(x) = ApiFields(y)
    /\ x.hs = y.hs /\ x.sack = y.sack
    /\ x.hc = y.hc /\ x.cr = y.cr

(* serialise a header value a, then parse: what the record q (sok, b, ok2, h2, eq, p) must show *)
\* C11 "well-formed output": BEP-29 fixes the bytes of a header value (up to the order of the two
\* extensions), and the independent parser reads the same value back from them
SerOk(a, q) == q.sok /\ q.b \in SerAlts(a) /\ Presents(ParseHeader(q.b), a)
\* C11 "serialising any header and parsing it back yields the same header and length"
\* (the `len` attribute of the selective ACK is judged under its own context "sack-len", so that a
\* regression there is attributable; it must hold like every other rule)
RtOk(a, q) == /\ q.sok /\ q.ok2
              /\ q.h2.hlen = Len(q.b)
              /\ SameHeader(q.h2, a)
              /\ (q.eq \/ a.sl # q.h2.sl)
RtLenApplicable(a, q) == q.sok /\ q.ok2 /\ a.hs /\ q.h2.hs
RtLenOk(a, q) == RtLenApplicable(a, q) => a.sl = q.h2.sl    \* total: q has no h2 after a panic
(* Header values that carry both extensions are judged under their own     *)
(* context, so that a finding there cannot hide one elsewhere.             *)
ExtCtx(a) == IF a.hs /\ a.hc THEN "both-ext" ELSE ""

Parse(r) ==
    LET b == r.b
        s == ParseHeader(b)
        m == Message(b)
        both == r.hok /\ s.ok
    IN  Judge({
        \* C11 "Parsing never panics"
        <<"C11.NoPanic", "", TRUE, ~r.hp /\ ~r.mp /\ (r.hok => ~r.rs.p)>>,
        \* C11 "accepts exactly version-1 packets of a known type whose extension chain fits in the datagram"
        \* + the fields, and the consumed length (the payload boundary)
        <<"C11.ParseAgrees", "", TRUE,
            /\ r.hok = s.ok
            /\ (both => (HdrAgrees(r.h, s) /\ r.h.hlen = s.hlen))>>,
        \* C11 "with payload present exactly for data packets"
        <<"C11.MessageAgrees", "", TRUE,
            /\ r.mok = m.ok
            /\ ((r.mok /\ m.ok) => (HdrAgrees(r.m, s) /\ r.m.pl = Payload(b, s)))>>,
        \* C11 "unknown extensions are skipped without shifting the payload boundary"
        <<"C11.UnknownSkipped", "", s.ok /\ Unknowns(s) # << >>,
            /\ r.hok
            /\ (both => (r.h.hlen = s.hlen /\ HdrAgrees(r.h, s)))
            /\ (m.ok => (r.mok /\ r.m.pl = Payload(b, s)))>>,
        <<"C11.SerializeAgrees", IF r.hok THEN ExtCtx(r.h) ELSE "", r.hok, r.hok => SerOk(r.h, r.rs)>>,
        <<"C11.RoundTrip", IF r.hok THEN ExtCtx(r.h) ELSE "", r.hok, r.hok => RtOk(r.h, r.rs)>>,
        <<"C11.RoundTrip", "sack-len", r.hok /\ RtLenApplicable(r.h, r.rs), r.hok => RtLenOk(r.h, r.rs)>>,
        Count("C11.n.accepted", s.ok), Count("C11.n.rejected", ~s.ok),
        Count("C11.n.message-accepted", m.ok) })

Ser(r) ==
    Judge({
        <<"C11.NoPanic", "", TRUE, ~r.p>>,
        <<"C11.SerializeAgrees", ExtCtx(r.a), TRUE, SerOk(r.a, r)>>,
        <<"C11.RoundTrip", ExtCtx(r.a), TRUE, RtOk(r.a, r)>>,
        <<"C11.RoundTrip", "sack-len", RtLenApplicable(r.a, r), RtLenOk(r.a, r)>>,
        Count("C11.n.serialised", TRUE) })

Next ==
    /\ l <= N
    /\ l' = l + 1
    /\ LET r == Rec[l] IN
       CASE r.op = "parse" -> Parse(r)
         [] r.op = "ser"   -> Ser(r)

Spec == Init /\ [][Next]_vars

---------------------------------------------------------------------------
Report ==
    (l = N + 1) =>
        PrintT(<<"VERDICT", ToJson([lines |-> N, runs |-> 1,
                                    viol |-> { [line |-> v[1], rule |-> v[2], ep |-> "", ctx |-> v[3]] : v \in viol },
                                    cov |-> cov])>>)

TraceAccepted ==
    LET d == TLCGet("stats").diameter IN
    IF d - 1 = N THEN TRUE
    ELSE Print(<<"TRACE NOT ACCEPTED: consumed", d - 1, "of", N>>, FALSE)
=============================================================================
