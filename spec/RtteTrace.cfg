SPECIFICATION TraceSpec
CONSTANT InitialRto <- TraceInitialRto
CONSTANT Samples <- TraceSamples
INVARIANT Report
POSTCONDITION TraceAccepted
CHECK_DEADLOCK FALSE
