SPECIFICATION MCSpec
CONSTANT InitialRto <- MCInitialRto
CONSTANT Samples <- MCSamples
VIEW View
INVARIANT TypeOK
INVARIANT RtoBounds
INVARIANT RtoFormula
INVARIANT Doubling
INVARIANT SrttBetween
INVARIANT VarBounded
INVARIANT Emit
PROPERTY DoublingStep
CHECK_DEADLOCK FALSE
