SPECIFICATION MCSpec
CONSTANT InitialRto <- MCInitialRto
CONSTANT Samples <- MCSamples
VIEW View
CONSTRAINT LeafCut
INVARIANT TypeOK
INVARIANT RtoBounds
INVARIANT RtoFormula
INVARIANT Doubling
INVARIANT SrttBetween
INVARIANT VarBounded
INVARIANT Emit
PROPERTY DoublingStep
CHECK_DEADLOCK FALSE
