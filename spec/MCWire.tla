------------------------------- MODULE MCWire -------------------------------
(***************************************************************************)
(* Bounded instance for property C11 (component level).  TLC enumerates    *)
(* the structural space of datagrams and of header values, checks the      *)
(* grammar's own theorems on every one of them, and emits each as a CASE   *)
(* line with the answer Wire.tla demands; the cases are replayed on the    *)
(* real UtpHeader::{deserialize, serialize} / UtpMessage::deserialize.     *)
(*                                                                         *)
(* State graph: root -> group -> leaf.  The groups spread the enumeration  *)
(* over TLC's workers; a leaf is a byte string (k = "P") or an API header  *)
(* value (k = "S").  TLC's fingerprint set removes duplicate byte strings. *)
(*                                                                         *)
(* Environment: C11_TIER = quick | thorough, C11_SEED = salt of the filler *)
(* bytes (extension data, payload tail).                                   *)
(***************************************************************************)
EXTENDS WireCases, TLC, Json, IOUtils

Tier == IF "C11_TIER" \in DOMAIN IOEnv THEN IOEnv.C11_TIER ELSE "quick"
Salt == IF "C11_SEED" \in DOMAIN IOEnv THEN atoi(IOEnv.C11_SEED) % 23 ELSE 1
Thorough == Tier = "thorough"

VARIABLES ph, c
vars == <<ph, c>>

---------------------------------------------------------------------------
(* value sets                                                              *)
ExtIds   == {1, 2, 3, 255}
LensFull == {0, 1, 4, 8, 9, 36}
LensLite == {0, 4, 9}
ExtFull  == ExtIds \X LensFull
ExtLite  == ExtIds \X LensLite

P0 == << >>
P1 == << 0 >>
P7 == << 0, 3, 170, 187, 204, 221, (238 + Salt) % 256 >>      \* read as an extension: next 0, len 3, then 2 bytes
Payloads == << P0, P1, P7 >>
(* payloads behind a dangling chain (last `next` # 0): the payload bytes are read as an extension *)
Dangling == { P0, P1, P7,
              << 2, 5, 1, 2, 3, 4, 5 >>,        \* fits exactly, then the chain dangles again
              << 0, 5, 1, 2, 3, 4, 5 >>,        \* fits exactly, nothing left (DATA without payload)
              << 0, 6, 1, 2, 3, 4, 5 >> }       \* overruns by one
DanglingQuick == { P0, P7, << 0, 5, 1, 2, 3, 4, 5 >>, << 0, 6, 1, 2, 3, 4, 5 >> }

FirstData  == 1        \* ST_DATA,  version 1
FirstState == 33       \* ST_STATE, version 1

(* the chains of a group: they start with extension e1 *)
Chains1(e1) == { << e1 >> }
Chains2(e1, S) == { << e1, e2 >> : e2 \in S }
Chains3(e1, S) == { << e1, e2, e3 >> : e2 \in S, e3 \in S }

ChainsNormal(e1) ==
    Chains1(e1) \cup Chains2(e1, ExtFull)
    \cup (IF Thorough THEN Chains3(e1, ExtFull)
          ELSE IF e1 \in ExtLite THEN Chains3(e1, ExtLite) ELSE {})
ChainsFaulty(e1) ==
    Chains1(e1) \cup Chains2(e1, IF Thorough THEN ExtFull ELSE ExtLite)
    \cup (IF Thorough /\ e1 \in ExtLite THEN Chains3(e1, ExtLite) ELSE {})

RealLen(chain) == chain[Len(chain)][2]
(* declared length of the last extension: exceeds the datagram by one / by many, *)
(* takes one payload byte, takes the whole payload                               *)
Overrides(chain, p) ==
    { RealLen(chain) + Len(p) + 1, 255 }
    \cup (IF Len(p) >= 1 THEN { RealLen(chain) + 1, RealLen(chain) + Len(p) } ELSE {})

---------------------------------------------------------------------------
(* groups                                                                  *)
GroupsA == { [f |-> "A", ty |-> t] : t \in 0 .. 15 }
GroupsB == { [f |-> "B", first |-> x, p |-> p, e1 |-> e] :
                x \in {FirstData, FirstState}, p \in 1 .. 3, e \in ExtFull }
GroupsB0 == { [f |-> "B0"] }
GroupsT == { [f |-> "T", i |-> i] : i \in 1 .. 8 }
GroupsD == { [f |-> "D", ty |-> t] : t \in 0 .. 4 }

SackPats == { <<0, 0, 0, 0, 0, 0, 0, 0>>, <<1, 0, 0, 0, 0, 0, 0, 0>>, <<0, 0, 0, 0, 0, 0, 0, 128>>,
              <<129, 0, 0, 0, 0, 0, 0, 129>>, <<85, 170, 85, 170, 85, 170, 85, 170>>,
              <<255, 255, 255, 255, 255, 255, 255, 255>>,
              [j \in 1 .. 8 |-> (j * 53 + Salt * 29 + 7) % 256] }
SackFew == { <<1, 0, 0, 0, 0, 0, 0, 0>>, <<129, 0, 0, 0, 0, 0, 0, 129>>,
             [j \in 1 .. 8 |-> (j * 53 + Salt * 29 + 7) % 256] }
CrSet == {0, 1, 15, 255, 256, 288, 65535}
CrFew == {0, 288, 65535}
NoSack == << >>
(* extension options of a header value: <<hs, sack, hc, cr>> *)
ExtOpts ==
    { <<FALSE, NoSack, FALSE, 0>> }
    \cup { <<TRUE, s, FALSE, 0>> : s \in SackPats }
    \cup { <<FALSE, NoSack, TRUE, v>> : v \in CrSet }
    \cup { <<TRUE, s, TRUE, v>> : s \in SackFew, v \in CrFew }
GroupsS == { [f |-> "S", ty |-> t, x |-> x] : t \in 0 .. 4, x \in ExtOpts }

(* sweep of the 16-bit halves: every value (thorough) / every 97th (quick) in every field position *)
GroupsW == { [f |-> "W", i |-> i] : i \in 0 .. 15 }

Groups == GroupsA \cup GroupsB \cup GroupsB0 \cup GroupsT \cup GroupsD \cup GroupsS \cup GroupsW

---------------------------------------------------------------------------
(* leaves                                                                  *)
Dg(first, chain, lastNext, lastDecl, payload) ==
    Datagram(first, DefF9, chain, lastNext, lastDecl, payload, Salt)

(* A: every first byte (type nibble x version nibble) on a few shapes *)
ShapesA == { << << >>, P0 >>, << << >>, P1 >>, << << <<1, 4>> >>, P0 >>, << << <<1, 4>> >>, P7 >>,
             << << <<2, 1>>, <<3, 4>> >>, P0 >> }
LeavesA(g) == { Dg(g.ty * 16 + v, s[1], 0, NoOverride, s[2]) : v \in 0 .. 15, s \in ShapesA }

(* B: extension chains of 1-3 extensions; well-formed, overrunning, dangling *)
LeavesB(g) ==
    LET p == Payloads[g.p] IN
    { Dg(g.first, ch, 0, NoOverride, p) : ch \in ChainsNormal(g.e1) }
    \cup UNION { { Dg(g.first, ch, 0, d, p) : d \in Overrides(ch, p) } : ch \in ChainsFaulty(g.e1) }
    \cup (IF g.p = 1
          THEN UNION { { Dg(g.first, ch, n, NoOverride, q) : n \in {1, 2},
                                                               q \in IF Thorough THEN Dangling ELSE DanglingQuick }
                       : ch \in ChainsFaulty(g.e1) }
          ELSE {})
    \cup (IF Thorough \/ g.e1[2] \in LensLite
          THEN { Dg(x, ch, 0, NoOverride, p) : x \in {17, 49, 65}, ch \in Chains1(g.e1) \cup Chains2(g.e1, ExtLite) }
          ELSE {})

(* B0: no extension at all, every valid type, every payload; dangling with no extension *)
LeavesB0 ==
    { Dg(t * 16 + 1, << >>, 0, NoOverride, Payloads[p]) : t \in 0 .. 4, p \in 1 .. 3 }
    \cup { Dg(t * 16 + 1, << >>, n, NoOverride, q) : t \in {0, 2}, n \in {1, 2, 3, 255}, q \in Dangling }

(* T: truncation at every prefix length of a few base datagrams *)
Bases == <<
    Dg(FirstData, << <<1, 4>>, <<2, 1>>, <<3, 4>> >>, 0, NoOverride, P7),
    Dg(FirstState, << <<1, 8>> >>, 0, NoOverride, P0),
    Dg(FirstState, << >>, 0, NoOverride, P0),
    Dg(17, << <<3, 4>> >>, 0, NoOverride, P0),
    Dg(65, << >>, 0, NoOverride, P0),
    Dg(FirstData, << <<1, 36>> >>, 0, NoOverride, P1),
    Dg(FirstState, << <<255, 0>>, <<1, 1>> >>, 0, NoOverride, P0),
    Dg(FirstState, << <<3, 4>>, <<1, 9>>, <<2, 36>> >>, 0, NoOverride, P0) >>
LeavesT(g) == Prefixes(Bases[g.i])

(* D: header field values from the boundary set, read by the parser *)
F9Set == F9Single \cup F9Same \cup (IF Thorough THEN F9Pairs ELSE {})
LeavesD(g) ==
    LET p == IF g.ty = 0 THEN P1 ELSE P0 IN
    { Datagram(g.ty * 16 + 1, f, ch, 0, NoOverride, p, Salt) :
        f \in F9Set, ch \in { << >>, << <<1, 8>>, <<3, 4>> >> } }

(* S: header values the public API can build, for the serialiser *)
LeavesS(g) ==
    LET fs == IF Thorough /\ (~g.x[1] \/ g.x[2] = <<1, 0, 0, 0, 0, 0, 0, 0>>) /\ (~g.x[3] \/ g.x[4] = 288)
              THEN F9Set ELSE F9Single \cup F9Same
    IN  { ApiHdr(g.ty, f, g.x[1], g.x[2], g.x[3], g.x[4]) : f \in fs }

(* W: all 16-bit values through every field position of a header value (staggered so that the *)
(* nine fields differ), as STATE without extensions                                            *)
SweepF9(x) == [k \in 1 .. 9 |-> (x + k * 7919) % 65536]
LeavesW(g) ==
    { ApiHdr(ST_STATE, SweepF9(x), FALSE, NoSack, FALSE, 0) :
        x \in { y \in (g.i * 4096) .. (g.i * 4096 + 4095) : Thorough \/ y % 97 = 0 } }

---------------------------------------------------------------------------
Init == ph = "root" /\ c = << >>

Root == ph = "root" /\ \E g \in Groups : ph' = "grp" /\ c' = g
P(b) == ph' = "leaf" /\ c' = [k |-> "P", b |-> b]
GenFirstByte == ph = "grp" /\ c.f = "A"  /\ \E b \in LeavesA(c) : P(b)
GenChains    == ph = "grp" /\ c.f = "B"  /\ \E b \in LeavesB(c) : P(b)
GenNoExt     == ph = "grp" /\ c.f = "B0" /\ \E b \in LeavesB0   : P(b)
GenTruncated == ph = "grp" /\ c.f = "T"  /\ \E b \in LeavesT(c) : P(b)
GenFields    == ph = "grp" /\ c.f = "D"  /\ \E b \in LeavesD(c) : P(b)
GenHeaders   == ph = "grp" /\ c.f = "S"  /\ \E a \in LeavesS(c) : ph' = "leaf" /\ c' = [k |-> "S", a |-> a]
GenSweep     == ph = "grp" /\ c.f = "W"  /\ \E a \in LeavesW(c) : ph' = "leaf" /\ c' = [k |-> "S", a |-> a]

Next == Root \/ GenFirstByte \/ GenChains \/ GenNoExt \/ GenTruncated \/ GenFields \/ GenHeaders \/ GenSweep
Spec == Init /\ [][Next]_vars

---------------------------------------------------------------------------
(* the two-byte big-endian coding of Wire.tla is a bijection on 0 .. 65535 *)
ASSUME \A x \in 0 .. 65535 : U16(B16(x), 1) = x /\ Hi(x) \in 0 .. 255 /\ Lo(x) \in 0 .. 255

IsP == ph = "leaf" /\ c.k = "P"
IsS == ph = "leaf" /\ c.k = "S"

\* C11 "accepts exactly version-1 packets of a known type whose extension chain fits in the datagram"
InvHeaderSane == IsP => HeaderSane(c.b)
\* C11 "with payload present exactly for data packets"
InvMessageSane == IsP => MessageSane(c.b)
\* C11 "unknown extensions are skipped without shifting the payload boundary"
InvUnknownSkipped == IsP => UnknownSkippedSpec(c.b)
\* C11 "serialising any header and parsing it back yields the same header and length"
InvRoundTrip == IsS => RoundTripSpec(c.a)
\* the same, starting from a parse: what an accepted datagram presents, serialised, presents the same
InvReserialise ==
    IsP => LET h == ParseHeader(c.b) IN
           (h.ok /\ Len(Sacks(h)) <= 1 /\ Len(CrVals(h)) <= 1) => RoundTripSpec(ApiOf(h))

(* The cases for the replay on the real code.                              *)
Emit ==
    (ph = "leaf") =>
        IF c.k = "P" THEN PrintT(<<"CASE", ToJson([k |-> "P", b |-> c.b, e |-> Expected(c.b)])>>)
        ELSE PrintT(<<"CASE", ToJson([k |-> "S", a |-> c.a, bs |-> SerAlts(c.a)])>>)
=============================================================================
