SPECIFICATION Spec
CONSTANTS
  Writers = {"A", "B"}
  MaxData = 1
  MaxSynAck = 2
  MaxFinTx = 2
  MaxRetx = 0
  LossBudget = 1
  DupBudget = 0
  Variant = "ooo_fin"
INVARIANTS TypeOK FinSeq FinAfterData NothingAfterFin EofAfterAllData SuccessMeansDelivered SynAckBound NoSilentTruncation
CHECK_DEADLOCK FALSE
