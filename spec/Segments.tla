------------------------------ MODULE Segments ------------------------------
(***************************************************************************)
(* The sender's segment queue (src/stream_tx_segments.rs, `Segments`) as   *)
(* an abstract data type, and the clauses of C01, C06 and C14 it serves.   *)
(*                                                                         *)
(*   C01 "nothing is lost, duplicated, reordered or altered"               *)
(*       The sender cuts the byte stream into segments ONCE and addresses  *)
(*       their payload by byte offset.  The segments, in sequence-number   *)
(*       order, tile the byte range [bytes acknowledged, bytes segmented)  *)
(*       exactly; the payload offset handed to the transmit path is        *)
(*       relative to the front of the ring (= bytes removed so far).       *)
(*       Popping a size probe gives its bytes back to the unsegmented      *)
(*       part, so that the next segment starts where the probe started.    *)
(*   C06 "A segment the peer has acknowledged (cumulatively or             *)
(*       selectively) is never retransmitted, and every transmission of a  *)
(*       sequence number carries the same bytes (only a never-acknowledged *)
(*       size probe may be split)."                                        *)
(*   C14 "at most one oversized probe is outstanding and it is the newest  *)
(*       segment"                                                          *)
(*                                                                         *)
(* State  s = [q, una, removed, offset]                                    *)
(*   q        sequence of segment records                                  *)
(*              len    payload bytes                                       *)
(*              off    ABSOLUTE offset of the first payload byte in the    *)
(*                     stream of bytes accepted for sending                *)
(*              probe  it is a size probe                                  *)
(*              sent   how many times it was handed to the network (0 =    *)
(*                     never)                                              *)
(*              dlv    the peer acknowledged it selectively                *)
(*   una      sequence number of q[1] (SND.UNA); of the next segment if q  *)
(*            is empty                                                     *)
(*   removed  bytes acknowledged and removed from the front so far         *)
(*   offset   bytes segmented so far                                       *)
(* Sequence numbers are 16 bit; all comparisons use the modular distance   *)
(* Dist of SeqArith (C09 binds the implementation's arithmetic to it).     *)
(*                                                                         *)
(* Calls (an op is a tuple; integers only, 0/1 for booleans):              *)
(*   <<"e", len, probe>>          enqueue(len, probe)                      *)
(*   <<"s", start, mask>>         iter_mut_for_sending(start) (start = -1: *)
(*                                None) and on_sent on the yielded items   *)
(*                                whose 0-based position is a set bit of   *)
(*                                mask                                     *)
(*   <<"a", ack_nr, has, bytes>>  remove_up_to_ack with a header carrying  *)
(*                                ack_nr and (has = 1) a selective ACK of  *)
(*                                the given bytes (first byte, least       *)
(*                                significant bit first)                   *)
(*   <<"p", seq>>                 pop_mtu_probe(seq)   (EMSGSIZE / cwnd)   *)
(*   <<"x", timed_out, max_retx>> pop_expired_mtu_probe(timed_out, max)    *)
(*   <<"c", ...>>                 calc_pipe: marks only, no abstract       *)
(*                                effect (SegmentsTrace)                   *)
(* Apply(s, op) = [st, ret]: the state after the call and what it returns: *)
(*   e: <<1>>      s: <<number of on_sent calls>>                          *)
(*   a: <<acked_segments_count, acked_bytes, newly_sacked_segment_count,   *)
(*        newly_sacked_byte_count, max_acked_payload_size>>                *)
(*   p: <<0 | 1>>  x: <<0>> Empty, <<1>> NotExpired,                       *)
(*                    <<2, rewind_to, payload_size>> Expired               *)
(*                                                                         *)
(* Obs(s) is everything the real API lets one see (see below).             *)
(*                                                                         *)
(* Rules(s, cx, op, o) evaluates every clause on an ANSWER o = [ret, obs,  *)
(* panic] to call op made in state s (cx: the observation before the call, *)
(* the byte offset freed by the last pop, whether the caller keeps the     *)
(* dispatcher's discipline).  MCSegments applies it to the specification's *)
(* own answer (the clauses hold of the abstract queue, for every call from *)
(* every reachable state); SegmentsTrace applies it to the answers of the  *)
(* real `Segments`.  The state-machine forms are the invariants below.     *)
(*                                                                         *)
(* Constants from the texts: 16-bit sequence numbers; "SACK bit i refers   *)
(* to sequence number ack_nr + 2 + i" (BEP-29); the selective ACK this     *)
(* implementation stores is 64 bits deep (C11), further bits are dropped   *)
(* (which is always safe: they are not acknowledged).                      *)
(***************************************************************************)
EXTENDS Integers, Sequences, FiniteSets, SeqArith

M == 65536
SackDepth == 64

Min2(a, b) == IF a <= b THEN a ELSE b
Max2(a, b) == IF a >= b THEN a ELSE b
B(x) == IF x THEN 1 ELSE 0
Bit(m, k) == (m \div (2 ^ k)) % 2 = 1          \* bit k (0-based) of the non-negative integer m

RECURSIVE SumLen(_)
SumLen(q) == IF q = << >> THEN 0 ELSE Head(q).len + SumLen(Tail(q))
RECURSIVE MaxLen(_)
MaxLen(q) == IF q = << >> THEN 0 ELSE Max2(Head(q).len, MaxLen(Tail(q)))
RECURSIVE LeadDlv(_)
LeadDlv(q) == IF q = << >> \/ ~Head(q).dlv THEN 0 ELSE 1 + LeadDlv(Tail(q))
RECURSIVE SumSeq(_)
SumSeq(t) == IF t = << >> THEN 0 ELSE Head(t) + SumSeq(Tail(t))

StNew(una0) == [q |-> << >>, una |-> una0, removed |-> 0, offset |-> 0]

NQ(s)          == Len(s.q)
SeqAt(s, i)   == Add(s.una, i - 1, M)               \* sequence number of q[i]
PosOf(s, seq) == Dist(seq, s.una, M) + 1            \* position of seq in q (in 1..NQ(s) iff queued)
Last(s)       == s.q[NQ(s)]

---------------------------------------------------------------------------
(* The calls.                                                              *)

Enqueue(s, len, probe) ==
    [st  |-> [s EXCEPT !.q = Append(@, [len |-> len, off |-> s.offset, probe |-> probe, sent |-> 0, dlv |-> FALSE]),
                       !.offset = @ + len],
     ret |-> <<1>>]

(* iter_mut_for_sending(start): the segments from sequence number `start`  *)
(* on (the whole queue if start is None or in the past), delivered ones    *)
(* left out: the positions in q it yields, in order.                       *)
Skip(s, start)  == IF start < 0 THEN 0 ELSE Max2(Dist(start, s.una, M), 0)
Yield(s, start) ==
    LET k == Skip(s, start) IN
    SelectSeq([i \in 1..NQ(s) |-> i], LAMBDA i : i > k /\ ~s.q[i].dlv)

(* what the caller sees of q[i]: <<seq_nr, payload_offset, payload_size,   *)
(* send_count, is_mtu_probe, is_delivered>>; the offset is relative to the *)
(* front of the ring.                                                      *)
Item(s, i) == <<SeqAt(s, i), s.q[i].off - s.removed, s.q[i].len, s.q[i].sent, B(s.q[i].probe), B(s.q[i].dlv)>>
Iter(s, start) == LET y == Yield(s, start) IN [k \in 1..Len(y) |-> Item(s, y[k])]

Send(s, start, mask) ==
    LET y   == Yield(s, start)
        hit == { y[k] : k \in { j \in 1..Len(y) : Bit(mask, j - 1) } }
    IN  [st  |-> [s EXCEPT !.q = [i \in 1..NQ(s) |-> IF i \in hit THEN [s.q[i] EXCEPT !.sent = @ + 1] ELSE s.q[i]]],
         ret |-> <<Cardinality(hit)>>]

(* "SACK bit i refers to sequence number ack_nr + 2 + i": bit i of the     *)
(* extension is bit (i % 8) of byte (i \div 8).                            *)
SackBit(bytes, i) == i >= 0 /\ i < SackDepth /\ i < 8 * Len(bytes) /\ Bit(bytes[(i \div 8) + 1], i % 8)

(* remove_up_to_ack.                                                       *)
(*   1. cumulative: the segments with sequence number <= ack_nr leave.     *)
(*   2. selective: of the rest, those a set bit refers to are delivered.   *)
(*   3. delivered segments that are now the front leave as well.           *)
Ack(s, a, has, bytes) ==
    LET d    == Dist(a, s.una, M)
        n    == NQ(s)
        cum  == IF d >= 0 THEN Min2(d + 1, n) ELSE 0
        q1   == SubSeq(s.q, cum + 1, n)
        una1 == Add(s.una, cum, M)
        new  == { j \in 1..Len(q1) : /\ has = 1
                                     /\ ~q1[j].dlv
                                     /\ SackBit(bytes, (Add(una1, j - 1, M) - a - 2) % M) }
        q2   == [j \in 1..Len(q1) |-> IF j \in new THEN [q1[j] EXCEPT !.dlv = TRUE] ELSE q1[j]]
        fc   == LeadDlv(q2)
        gone == SubSeq(s.q, 1, cum) \o SubSeq(q2, 1, fc)
        idx  == SelectSeq([j \in 1..Len(q1) |-> j], LAMBDA j : j \in new)
        newq == [k \in 1..Len(idx) |-> q1[idx[k]]]
    IN  [st  |-> [q |-> SubSeq(q2, fc + 1, Len(q2)), una |-> Add(una1, fc, M),
                  removed |-> s.removed + SumLen(gone), offset |-> s.offset],
         ret |-> <<cum + fc, SumLen(gone), Cardinality(new), SumLen(newq),
                   Max2(MaxLen(SubSeq(s.q, 1, cum)), MaxLen(newq))>>]

(* pop_mtu_probe(seq): the newest segment, if it is the probe `seq` and    *)
(* was not acknowledged, is taken back.                                    *)
PopOk(s, seq) == NQ(s) > 0 /\ seq = SeqAt(s, NQ(s)) /\ Last(s).probe /\ ~Last(s).dlv
DropLast(s)   == [s EXCEPT !.q = SubSeq(@, 1, NQ(s) - 1), !.offset = @ - Last(s).len]
Pop(s, seq) ==
    IF PopOk(s, seq) THEN [st |-> DropLast(s), ret |-> <<1>>] ELSE [st |-> s, ret |-> <<0>>]

(* pop_expired_mtu_probe(timed_out, max_retx): the newest segment, if it   *)
(* is an unacknowledged probe that WAS transmitted, was retransmitted at   *)
(* least max_retx times and the retransmission timer has fired again, is   *)
(* given up; the caller rewinds to the sequence number before it.          *)
Retx(g) == IF g.sent > 0 THEN g.sent - 1 ELSE 0
ExpOk(s, to, mx) ==
    NQ(s) > 0 /\ ~Last(s).dlv /\ Last(s).probe /\ to = 1 /\ Last(s).sent > 0 /\ Retx(Last(s)) >= mx
PopExpired(s, to, mx) ==
    IF NQ(s) = 0 \/ Last(s).dlv \/ ~Last(s).probe THEN [st |-> s, ret |-> <<0>>]
    ELSE IF ExpOk(s, to, mx)
         THEN [st |-> DropLast(s), ret |-> <<2, SeqSubK(SeqAt(s, NQ(s)), 1, M), Last(s).len>>]
         ELSE [st |-> s, ret |-> <<1>>]

IsOp(op) == op[1] \in {"e", "s", "a", "p", "x", "c"}
Apply(s, op) ==
    CASE op[1] = "e" -> Enqueue(s, op[2], op[3] = 1)
      [] op[1] = "s" -> Send(s, op[2], op[3])
      [] op[1] = "a" -> Ack(s, op[2], op[3], op[4])
      [] op[1] = "p" -> Pop(s, op[2])
      [] op[1] = "x" -> PopExpired(s, op[2], op[3])
      [] op[1] = "c" -> [st |-> s, ret |-> << >>]

(* Does the call take the newest segment back?                             *)
Pops(s, op) ==
    \/ op[1] = "p" /\ PopOk(s, op[2])
    \/ op[1] = "x" /\ ExpOk(s, op[2], op[3])

(* The dispatcher's discipline (split_tx_queue_into_segments): nothing is  *)
(* enqueued behind a probe that is still outstanding.                      *)
MayEnqueue(s) == NQ(s) = 0 \/ ~(Last(s).probe /\ ~Last(s).dlv)

---------------------------------------------------------------------------
(* The observable projection: what the real API lets one see.              *)
(*   <<total_len_bytes, total_len_packets, first_seq_nr (-1: None),        *)
(*     is_empty, snd_una,                                                  *)
(*     calc_flight_size(snd_una + k) for k = -2 .. packets + 1,            *)
(*     iter_mut_for_sending(x) for x = None, snd_una - 2, snd_una + 1,     *)
(*                              snd_una + packets - 1, snd_una + packets>> *)
(* Delivered segments are not yielded by the iterator; they show in        *)
(* total_len_*, in the flight sizes and in the sequence numbers and        *)
(* offsets of their neighbours.                                            *)
Flight(s, last) ==
    LET take == Min2(Max2(Dist(last, s.una, M) + 1, 0), NQ(s))
    IN  SumSeq([i \in 1..take |-> IF s.q[i].dlv THEN 0 ELSE s.q[i].len])

ObsStarts(una, n) == <<-1, SeqSubK(una, 2, M), Add(una, 1, M), Add(una, n + M - 1, M), Add(una, n, M)>>

Obs(s) ==
    <<SumLen(s.q), NQ(s), IF NQ(s) = 0 THEN -1 ELSE s.una, B(NQ(s) = 0), s.una,
      [k \in 1..(NQ(s) + 4) |-> Flight(s, Add(s.una, k + M - 3, M))],
      [k \in 1..5 |-> Iter(s, ObsStarts(s.una, NQ(s))[k])]>>

(* What one more enqueue(1, FALSE) would show: <<sequence number, payload offset of the new segment,       *)
(* total_len_bytes after it>>.  It makes the hidden end of the segmented bytes (`offset`) observable; the  *)
(* replay of MCSegments' cases reads it off the (throw-away) object after the answer proper.               *)
NextEnq(s) == <<Add(s.una, NQ(s), M), s.offset - s.removed, SumLen(s.q) + 1>>

O_bytes(o) == o[1]
O_pkts(o)  == o[2]
O_first(o) == o[3]
O_empty(o) == o[4]
O_una(o)   == o[5]
O_iters(o) == o[7]
Y(o)       == o[7][1]       \* iter_mut_for_sending(None)
Y_seq(y) == y[1]
Y_off(y) == y[2]
Y_len(y) == y[3]
Y_cnt(y) == y[4]
Y_prb(y) == y[5]
Y_dlv(y) == y[6]
Triples(t) == [k \in 1..Len(t) |-> <<t[k][1], t[k][2], t[k][3]>>]
Seqs(t) == { t[k][1] : k \in 1..Len(t) }

---------------------------------------------------------------------------
(* State invariants of the abstract queue (checked by MCSegments).         *)

(* C01: "the segments, in sequence-number order, tile the byte range       *)
(* [acked bytes, segmented bytes) exactly": every byte accepted for        *)
(* sending belongs to exactly one segment or is still unsegmented.         *)
Tiling(s) ==
    /\ \A i \in 1..NQ(s) : s.q[i].off = s.removed + SumLen(SubSeq(s.q, 1, i - 1)) /\ s.q[i].len > 0
    /\ s.offset = s.removed + SumLen(s.q)

(* C06: cumulative ACK removes "plus any delivered ones that become the    *)
(* front": a queue never starts with a delivered segment.                  *)
FrontUndelivered(s) == NQ(s) > 0 => ~s.q[1].dlv

(* C14: "at most one oversized probe is outstanding and it is the newest   *)
(* segment" (under the dispatcher's discipline).                           *)
ProbeIsNewest(s) == \A i \in 1..NQ(s) : (s.q[i].probe /\ ~s.q[i].dlv) => i = NQ(s)

(* C06: the iterator "never yields a delivered segment; the sequence       *)
(* number it yields for a segment is snd_una + its position in the queue   *)
(* (NOT its position among the undelivered ones)".                         *)
IterSound(s, start) ==
    \E y \in {Yield(s, start)} : \E it \in {Iter(s, start)} :
        \A k \in 1..Len(y) : /\ ~s.q[y[k]].dlv
                             /\ it[k][1] = Add(s.una, y[k] - 1, M)
                             /\ it[k][2] = s.q[y[k]].off - s.removed

---------------------------------------------------------------------------
(* The clauses on an answer.  rs: set of <<rule, applicable, holds>>.      *)
RuleNames == {
    "C01.SegTiling", "C01.PopRestores",
    "C06.NoDeliveredYielded", "C06.SeqIsQueuePosition", "C06.SegStableInQueue",
    "C06.DeliveredProbeNeverPopped", "C06.UnsentProbeNotExpired", "C06.AckRemovesExactly", "C06.SackBitMapping",
    "C14.ProbeIsNewest", "Segs.ObsAgrees", "Segs.NoPanic",
    \* coverage markers (which branch of a rule a line exercised); never violated
    "C01.PopRestores.popped", "C01.PopRestores.requeued",
    "C06.NoDeliveredYielded.some", "C06.SeqIsQueuePosition.gap", "C06.AckRemovesExactly.cleanup",
    "C06.SackBitMapping.marked", "C06.SackBitMapping.old", "C06.SackBitMapping.far",
    "C06.DeliveredProbeNeverPopped.expired", "C06.UnsentProbeNotExpired.due", "C14.ProbeIsNewest.probe" }

Broken(rs)  == { x[1] : x \in { y \in rs : y[2] /\ ~y[3] } }
Covered(rs) == { x[1] : x \in { y \in rs : y[2] } }

(* offsets of the yielded segments increase, do not overlap and stay       *)
(* inside the queued bytes (on the recorded values alone)                  *)
Disjoint(t, bytes) ==
    /\ \A k \in 1..Len(t) : t[k][2] >= 0 /\ t[k][3] > 0 /\ t[k][2] + t[k][3] <= bytes
    /\ \A k \in 1..(Len(t) - 1) : t[k][2] + t[k][3] <= t[k + 1][2]

(* s   the specification's state before the call                           *)
(* cx  [prev: the observation recorded before the call,                    *)
(*      hole: absolute offset of the probe taken back by the last pop, -1  *)
(*            once something was enqueued again,                           *)
(*      disc: the caller keeps the dispatcher's discipline]                *)
(* o   [ret, obs, panic]: the answer; panic = "" | "op" | "obs"            *)
(* r   Apply(s, op), e  Obs(r.st), and the yielded items of the answer (yy: from None, py: from None
   before the call, all: from any start): passed in as VALUES so that TLC computes them once (it
   re-evaluates a LET definition at every use). *)
RulesY(s, cx, op, o, r, e, yy, py, all) ==
    LET s1   == r.st
        k    == op[1]
        ok   == o.panic = ""
        n    == NQ(s)
        last == IF n > 0 THEN s.q[n] ELSE [len |-> 0, off |-> 0, probe |-> FALSE, sent |-> 0, dlv |-> FALSE]
        isPop == k \in {"p", "x"}
        popped == ok /\ ((k = "p" /\ o.ret = <<1>>) \/ (k = "x" /\ Len(o.ret) = 3))
        ackedBytes == IF ok /\ k = "a" THEN o.ret[2] ELSE 0
        (* position in the specification's queue of the segment at a ring offset *)
        posAt(off) == { i \in 1..NQ(s1) : s1.q[i].off - s1.removed = off }
        dlvProbe == n > 0 /\ last.probe /\ last.dlv
        unsent == n > 0 /\ last.probe /\ ~last.dlv /\ last.sent = 0
        a    == IF k = "a" THEN op[2] ELSE 0
    IN {
      <<"Segs.NoPanic", TRUE, ok>>,
      <<"Segs.ObsAgrees", ok, ~ok \/ (o.obs = e /\ (k = "c" \/ o.ret = r.ret))>>,

      (* C01: the yielded (seq, offset, size) triples are the specification's; they do not overlap.
         (A call that enqueues / reads the queue and does not return breaks it as well.) *)
      <<"C01.SegTiling", ok \/ o.panic = "obs" \/ k \in {"e", "s", "c"},
          ok /\ ( /\ O_bytes(o.obs) = s1.offset - s1.removed
                  /\ \A j \in 1..5 : Triples(o.obs[7][j]) = Triples(e[7][j])
                  /\ Disjoint(yy, O_bytes(o.obs)) )>>,

      (* C01: popping a probe gives its bytes back (len_bytes at once, offset seen at the next enqueue) *)
      <<"C01.PopRestores", (isPop /\ (~ok \/ popped \/ Pops(s, op))) \/ (k = "e" /\ ok /\ cx.hole >= 0),
          ok /\ ( /\ (isPop => ( /\ popped = Pops(s, op)
                                 /\ O_bytes(o.obs) = O_bytes(cx.prev) - last.len
                                 /\ O_pkts(o.obs) = O_pkts(cx.prev) - 1 ))
                  /\ (k = "e" => ( /\ Len(yy) > 0
                                   /\ Y_off(yy[Len(yy)]) = cx.hole - s1.removed )) )>>,
      <<"C01.PopRestores.popped", isPop /\ popped, TRUE>>,
      <<"C01.PopRestores.requeued", k = "e" /\ ok /\ cx.hole >= 0, TRUE>>,

      (* C06: iter_mut_for_sending never yields a delivered segment *)
      <<"C06.NoDeliveredYielded", ok,
          \A y \in all : /\ Y_dlv(y) = 0
                         /\ PosOf(s1, Y_seq(y)) \in 1..NQ(s1)
                         /\ ~s1.q[PosOf(s1, Y_seq(y))].dlv>>,
      <<"C06.NoDeliveredYielded.some", ok /\ \E i \in 1..NQ(s1) : s1.q[i].dlv, TRUE>>,

      (* C06: the sequence number yielded for a segment is snd_una + its position in the queue *)
      <<"C06.SeqIsQueuePosition", ok,
          \A y \in all : \E i \in posAt(Y_off(y)) : /\ Y_seq(y) = Add(O_una(o.obs), i - 1, M)
                                                    /\ Y_seq(y) = SeqAt(s1, i)>>,
      <<"C06.SeqIsQueuePosition.gap",
          ok /\ \E i \in 1..NQ(s1) : s1.q[i].dlv /\ \E j \in (i + 1)..NQ(s1) : ~s1.q[j].dlv, TRUE>>,

      (* C06: (offset, size) of a sequence number never change while it is in the queue *)
      <<"C06.SegStableInQueue", ok,
          \A i \in 1..Len(yy) : \A j \in 1..Len(py) :
              Y_seq(yy[i]) = Y_seq(py[j]) =>
                  /\ Y_off(yy[i]) + ackedBytes = Y_off(py[j])
                  /\ Y_len(yy[i]) = Y_len(py[j])
                  /\ Y_prb(yy[i]) = Y_prb(py[j])
                  /\ Y_cnt(yy[i]) >= Y_cnt(py[j])
                  /\ (k # "s" => Y_cnt(yy[i]) = Y_cnt(py[j]))>>,

      (* C06: a probe that was selectively acknowledged is never popped by either pop function *)
      <<"C06.DeliveredProbeNeverPopped", isPop /\ dlvProbe,
          ok /\ ~popped /\ O_pkts(o.obs) = O_pkts(cx.prev) /\ O_bytes(o.obs) = O_bytes(cx.prev)>>,
      <<"C06.DeliveredProbeNeverPopped.expired",
          k = "x" /\ dlvProbe /\ op[2] = 1 /\ last.sent > 0 /\ Retx(last) >= op[3], TRUE>>,

      (* C06: a probe that was never sent is not popped as expired *)
      <<"C06.UnsentProbeNotExpired", k = "x" /\ unsent,
          ok /\ ~popped /\ O_pkts(o.obs) = O_pkts(cx.prev)>>,
      <<"C06.UnsentProbeNotExpired.due", k = "x" /\ unsent /\ op[2] = 1 /\ op[3] = 0, TRUE>>,

      (* C06: cumulative ACK removes exactly the segments with seq <= ack_nr plus any delivered ones that
         become the front; acked_bytes equals the payload of what was removed *)
      <<"C06.AckRemovesExactly", k = "a",
          k = "a" /\ ok
          /\ o.ret[1] = r.ret[1] /\ o.ret[2] = r.ret[2]
          /\ O_una(o.obs) = s1.una /\ O_pkts(o.obs) = NQ(s1) /\ O_first(o.obs) = e[3]
          /\ O_pkts(o.obs) = O_pkts(cx.prev) - o.ret[1]
          /\ O_bytes(o.obs) = O_bytes(cx.prev) - o.ret[2]>>,
      <<"C06.AckRemovesExactly.cleanup", k = "a" /\ r.ret[1] > Max2(Min2(Dist(a, s.una, M) + 1, n), 0), TRUE>>,

      (* C06: SACK bit i refers to sequence number ack_nr + 2 + i (also for an ACK older than snd_una - 1) *)
      <<"C06.SackBitMapping", k = "a" /\ op[3] = 1,
          k = "a" /\ op[3] = 1 /\ ok
          /\ o.ret[3] = r.ret[3] /\ o.ret[4] = r.ret[4]
          /\ Seqs(yy) = Seqs(Y(e))
          /\ \A x \in Seqs(py) \ Seqs(yy) : Dist(x, a, M) <= 0 \/ SackBit(op[4], (x - a - 2) % M)>>,
      <<"C06.SackBitMapping.marked", k = "a" /\ op[3] = 1 /\ r.ret[3] > 0, TRUE>>,
      <<"C06.SackBitMapping.old", k = "a" /\ op[3] = 1 /\ r.ret[3] > 0 /\ Dist(a, s.una, M) <= -3, TRUE>>,
      <<"C06.SackBitMapping.far",
          k = "a" /\ op[3] = 1 /\ n > 0 /\ \E b \in 1..Min2(Len(op[4]), 8) : op[4][b] # 0 /\ 8 * (b - 1) > n, TRUE>>,

      (* C14: at most one probe is outstanding and it is the newest segment *)
      <<"C14.ProbeIsNewest", ok /\ cx.disc,
          /\ \A i \in 1..Len(yy) : Y_prb(yy[i]) = 1 => Y_seq(yy[i]) = Add(O_una(o.obs), O_pkts(o.obs) + M - 1, M)
          /\ Cardinality({ i \in 1..Len(yy) : Y_prb(yy[i]) = 1 }) <= 1>>,
      <<"C14.ProbeIsNewest.probe", ok /\ cx.disc /\ \E i \in 1..Len(yy) : Y_prb(yy[i]) = 1, TRUE>>
    }

AllItems(obs) == UNION { { obs[7][j][i] : i \in 1..Len(obs[7][j]) } : j \in 1..Len(obs[7]) }
RulesX(s, cx, op, o, r, e) ==
    UNION { RulesY(s, cx, op, o, r, e, v[1], v[2], v[3]) :
            v \in { <<IF o.panic = "" THEN Y(o.obs) ELSE << >>, Y(cx.prev),
                      IF o.panic = "" THEN AllItems(o.obs) ELSE {}>> } }
Rules(s, cx, op, o) ==
    UNION { RulesX(s, cx, op, o, v[1], v[2]) : v \in { <<x, Obs(x.st)>> : x \in {Apply(s, op)} } }

(* The offset freed by the last pop, after call op (answered as the specification does).  *)
HoleAfter(s, hole, op) ==
    IF Pops(s, op) THEN Last(s).off ELSE IF op[1] = "e" THEN -1 ELSE hole
=============================================================================
