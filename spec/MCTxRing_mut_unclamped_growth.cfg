SPECIFICATION Spec
VIEW View
CONSTANTS
    Quiet <- QuietOn
    Grow <- GrowUnclamped
INVARIANT Inv
INVARIANT Honest
INVARIANT ClosedResolves
INVARIANT AckedCompletes
INVARIANT GrowthHelps
INVARIANT Progress
CHECK_DEADLOCK FALSE
