SPECIFICATION Spec
CONSTANTS
  Addrs = {"a1"}
  CidMod = 8
  Limit = 2
  Backlog = 2
  Slots = 2
  SynCids = {1, 7}
  MaxSyn = 3
  MaxConnect = 2
  MaxAccept = 3
  MaxEnd = 2
  Variant = "no_full_check_on_ack"
INVARIANTS TypeOK KeyUnique LimitRespected NoEviction BacklogBound RefusedOnlyWhenFull AcceptFifo AcceptCallOrder SlotsBounded NoIdleAcceptor ParkedNotStarved
CHECK_DEADLOCK FALSE
