----------------------------- MODULE RtteTrace -----------------------------
(***************************************************************************)
(* Trace specification for C16: replays an ND-JSON recording of calls made *)
(* on the real RttEstimator (unit/src/bin/unit_rtte.rs, record mode, or    *)
(* the implementation's answers to a replayed case) through the state      *)
(* machine of Rtte.tla.  One step per line; the step advances the          *)
(* specification's own state `st` with the SAME operators as Rtte.tla      *)
(* (StInit, StSample, StTimeout) and *evaluates* the clauses of the        *)
(* property on the recorded values, so one pass reports every broken rule  *)
(* with its line.                                                          *)
(*                                                                         *)
(* A line: {"op": "reset" | "sample" | "timeout" | "panic",                *)
(*          "a": [ms, ns], "rto": [ms, ns], "rtt": [ms, ns]}               *)
(*   a    the sample (zero otherwise)                                      *)
(*   rto  retransmission_timeout() after the call                          *)
(*   rtt  roundtrip_time() after the call                                  *)
(* "reset" starts a new sequence on a fresh estimator; its rto is the      *)
(* timeout before the first sample, which the property leaves open except  *)
(* for the bounds, so the specification state starts from it.              *)
(*                                                                         *)
(* Rules (cov counts how often each was applicable):                       *)
(*   C16.RtoBounds       200 ms <= rto <= 60 s on every line               *)
(*   C16.RtoFormula      after a sample rto = clamp(srtt + max(4 * rttvar, *)
(*                       10 ms)), srtt the recorded one, rttvar the        *)
(*                       specification's (the variance is not observable)  *)
(*   C16.Doubling        on a timeout rto = min(2 * previous recorded rto, *)
(*                       60 s) and the recorded srtt does not move; on the *)
(*                       first sample after timeouts rto is the            *)
(*                       sample-derived value again                        *)
(*   C16.SrttBetween     smallest sample <= recorded srtt <= largest       *)
(*   C16.ExactAgreement  recorded rto and srtt = the specification's, to   *)
(*                       the nanosecond; no panic                          *)
(* The entries "C16.x.y" of cov are coverage markers only (which branch of *)
(* a rule was exercised); they can never be violated.                      *)
(***************************************************************************)
EXTENDS Rtte, TLC, TLCExt, Json, IOUtils, FiniteSets

Rec == ndJsonDeserialize(IOEnv.TRACE)
N == Len(Rec)

\* Rtte's parameters are not used by the trace specification (st starts from each reset line)
TraceInitialRto == Ms(200)
TraceSamples == {}

VARIABLES
    l,      \* next line
    run,    \* number of the current sequence (reset lines)
    prev,   \* the recorded rto of the preceding line of this sequence
    prevRtt, \* the recorded srtt of the preceding line of this sequence
    viol, cov

tvars == <<st, l, run, prev, prevRtt, viol, cov>>

RuleNames == {
    "C16.RtoBounds", "C16.RtoFormula", "C16.Doubling", "C16.SrttBetween", "C16.ExactAgreement",
    \* coverage markers
    "C16.RtoBounds.initial",        \* evaluated on the estimator before its first sample
    "C16.RtoFormula.plain",         \* srtt + 4 * rttvar strictly inside the bounds
    "C16.RtoFormula.granularity",   \* 4 * rttvar < 10 ms and srtt + 10 ms inside the bounds
    "C16.RtoFormula.raised",        \* raised to 200 ms
    "C16.RtoFormula.cut",           \* cut to 60 s
    "C16.Doubling.doubled",         \* 2 * rto < 60 s
    "C16.Doubling.capped",          \* 2 * rto >= 60 s
    "C16.Doubling.initial",         \* timeout before the first sample
    "C16.Doubling.returns",         \* sample after at least one timeout
    "C16.SrttBetween.strict" }      \* smallest < srtt < largest

TraceInit ==
    /\ st = StInit(TraceInitialRto)
    /\ l = 1 /\ run = 0 /\ prev = TraceInitialRto /\ prevRtt = Zero
    /\ viol = {} /\ cov = [r \in RuleNames |-> 0]

(* rs: set of <<rule name, applicable, holds>> *)
Broken(rs)  == { x[1] : x \in { y \in rs : y[2] /\ ~y[3] } }
Covered(rs) == { x[1] : x \in { y \in rs : y[2] } }
Judge(rs, ctx) ==
    /\ viol' = IF Cardinality(viol) >= 60 THEN viol
               ELSE viol \cup { <<l, b, ctx>> : b \in Broken(rs) }
    /\ cov' = LET c == Covered(rs) IN [r \in RuleNames |-> cov[r] + IF r \in c THEN 1 ELSE 0]

Unclamped(d) == DLt(MinRto, d) /\ DLt(d, MaxRto)

---------------------------------------------------------------------------
Reset(r) ==
    /\ st' = StInit(r.rto)
    /\ run' = run + 1
    /\ prev' = r.rto /\ prevRtt' = r.rtt
    /\ Judge({ <<"C16.RtoBounds", TRUE, P_RtoBounds(r.rto)>>,
               <<"C16.RtoBounds.initial", TRUE, TRUE>> }, "fresh")

SampleLine(r) ==
    LET s1  == StSample(st, r.a)
        v4  == DMul(s1.rttvar, K)
        raw == DAdd(s1.srtt, DMax(v4, Granularity))
    IN  /\ st' = s1
        /\ UNCHANGED run
        /\ prev' = r.rto /\ prevRtt' = r.rtt
        /\ Judge({
             <<"C16.RtoBounds", TRUE, P_RtoBounds(r.rto)>>,
             <<"C16.RtoFormula", TRUE, P_RtoFormula(r.rto, r.rtt, s1.rttvar)>>,
             <<"C16.Doubling", st.k > 0, P_RtoFormula(r.rto, r.rtt, s1.rttvar)>>,
             <<"C16.SrttBetween", TRUE, P_SrttBetween(r.rtt, s1.lo, s1.hi)>>,
             <<"C16.ExactAgreement", TRUE, r.rto = s1.rto /\ r.rtt = s1.srtt>>,
             <<"C16.RtoFormula.plain", Unclamped(raw) /\ DLe(Granularity, v4), TRUE>>,
             <<"C16.RtoFormula.granularity", Unclamped(raw) /\ DLt(v4, Granularity), TRUE>>,
             <<"C16.RtoFormula.raised", DLt(raw, MinRto), TRUE>>,
             <<"C16.RtoFormula.cut", DLt(MaxRto, raw), TRUE>>,
             <<"C16.Doubling.returns", st.k > 0, TRUE>>,
             <<"C16.SrttBetween.strict", DLt(s1.lo, s1.srtt) /\ DLt(s1.srtt, s1.hi), TRUE>> },
             "sample")

TimeoutLine(r) ==
    LET s1  == StTimeout(st)
        sub == st.phase = "subsequent"
    IN  /\ st' = s1
        /\ UNCHANGED run
        /\ prev' = r.rto /\ prevRtt' = r.rtt
        /\ Judge({
             <<"C16.RtoBounds", TRUE, P_RtoBounds(r.rto)>>,
             <<"C16.Doubling", TRUE, P_Doubling(prev, r.rto) /\ (sub => r.rtt = prevRtt)>>,
             <<"C16.SrttBetween", sub, P_SrttBetween(r.rtt, st.lo, st.hi)>>,
             <<"C16.ExactAgreement", TRUE, r.rto = s1.rto /\ (sub => r.rtt = s1.srtt)>>,
             <<"C16.RtoBounds.initial", ~sub, TRUE>>,
             <<"C16.Doubling.doubled", DLt(DMul(st.rto, 2), MaxRto), TRUE>>,
             <<"C16.Doubling.capped", DLe(MaxRto, DMul(st.rto, 2)), TRUE>>,
             <<"C16.Doubling.initial", ~sub, TRUE>> },
             "timeout")

PanicLine(r) ==
    /\ UNCHANGED <<st, run, prev, prevRtt>>
    /\ Judge({ <<"C16.ExactAgreement", TRUE, FALSE>> }, "panic")

TraceNext ==
    /\ l <= N
    /\ l' = l + 1
    /\ LET r == Rec[l] IN
       CASE r.op = "reset"   -> Reset(r)
         [] r.op = "sample"  -> SampleLine(r)
         [] r.op = "timeout" -> TimeoutLine(r)
         [] r.op = "panic"   -> PanicLine(r)

TraceSpec == TraceInit /\ [][TraceNext]_tvars

---------------------------------------------------------------------------
(* Verdict: printed once, in the state after the last line.                *)
Report ==
    (l = N + 1) =>
        PrintT(<<"VERDICT", ToJson([lines |-> N, runs |-> run,
                                    viol |-> { [line |-> v[1], rule |-> v[2], ctx |-> v[3], ep |-> ""] : v \in viol },
                                    cov |-> cov])>>)

TraceAccepted ==
    LET d == TLCGet("stats").diameter IN
    IF d - 1 = N THEN TRUE
    ELSE Print(<<"TRACE NOT ACCEPTED: consumed", d - 1, "of", N>>, FALSE)
=============================================================================
