------------------------------ MODULE SeqTrace ------------------------------
(***************************************************************************)
(* C09, arithmetic clause, impl -> spec: validates calls recorded from the *)
(* real `seq_nr_offset` / `SeqNr` (unit_seq record) against SeqArith.tla.  *)
(*                                                                         *)
(* One step per recorded line.  The lines of the "walk" form a small state *)
(* machine: a sequence number `cur` is moved forward / backward with       *)
(* + / += / - / -= (wrapping), `mark` remembers where it was, and the      *)
(* ghost integer `rel` is the TRUE signed distance walked since the mark   *)
(* (never reduced modulo anything).                                        *)
(*                                                                         *)
(*  C09.OffsetAgreesImpl  seq_nr_offset(a, b, w) = Offset(a, b, M, w), any w *)
(*  C09.DistAgrees        "... distance of two sequence numbers agree[s]    *)
(*                        with true modular distance for every distance the *)
(*                        configured windows allow": |Dist(a,b)| <= w (and  *)
(*                        2w < M) => result = Dist(a, b)                    *)
(*  C09.OrdConsistent     SeqNr - SeqNr = Offset(.., W); Ord is its sign;   *)
(*                        PartialOrd, <, <=, >, >=, == agree with Ord       *)
(*  C09.GhostAgrees       "Ordering and distance ... agree with true        *)
(*                        modular distance": |rel| <= W => cur - mark = rel *)
(*                        and cur "<" mark iff rel < 0                      *)
(*  C09.WrapAddSub        + / += / - / -= u16 wrap modulo M                 *)
(*  C09.ToleranceIsW      the crate's WRAP_TOLERANCE is the W of this spec  *)
(*  C09.NoPanic                                                             *)
(*                                                                         *)
(* W (cfg) = 32767 = M/2 - 1: at least the largest window in packets the   *)
(* configuration allows and the largest tolerance 16-bit arithmetic admits *)
(* (2W < M).  The former value 1024 was the defect D8.                     *)
(***************************************************************************)
EXTENDS SeqArith, Sequences, FiniteSets, TLC, TLCExt, Json, IOUtils

CONSTANTS M, W

Rec == ndJsonDeserialize(IOEnv.TRACE)
N == Len(Rec)

VARIABLES
    l,      \* next line
    cur,    \* the walker (wire value)
    mark,   \* wire value at the last mark
    rel,    \* ghost: true signed distance cur - mark as an integer
    viol, cov

vars == <<l, cur, mark, rel, viol, cov>>

RuleNames == { "C09.OffsetAgreesImpl", "C09.DistAgrees", "C09.OrdConsistent", "C09.GhostAgrees",
               "C09.WrapAddSub", "C09.ToleranceIsW", "C09.NoPanic" }

Init == l = 1 /\ cur = 0 /\ mark = 0 /\ rel = 0 /\ viol = {} /\ cov = [r \in RuleNames |-> 0]

(* rs: set of <<rule name, applicable, applicable => holds, context>> *)
Judge(rs) ==
    /\ viol' = IF Cardinality(viol) >= 40 THEN viol
               ELSE viol \cup { <<l, y[1], y[4]>> : y \in { y \in rs : y[2] /\ ~y[3] } }
    /\ cov' = LET c == { y[1] : y \in { y \in rs : y[2] } } IN
              [r \in RuleNames |-> cov[r] + IF r \in c THEN 1 ELSE 0]

Exp(n) == "exp=" \o ToString(n)
NoPanic(r) == <<"C09.NoPanic", TRUE, ~r.panic, "">>

Start(r) ==
    /\ cur' = r.cur /\ mark' = r.cur /\ rel' = 0
    /\ Judge({ <<"C09.ToleranceIsW", TRUE, r.wrap_tolerance = W, Exp(W)>> })

OffsetCall(r) ==
    LET e == Offset(r.a, r.b, M, r.w)
        t == Dist(r.a, r.b, M) IN
    /\ UNCHANGED <<cur, mark, rel>>
    /\ Judge({ NoPanic(r),
               <<"C09.OffsetAgreesImpl", ~r.panic, r.r = e, Exp(e)>>,
               <<"C09.DistAgrees", ~r.panic /\ 2 * r.w < M /\ Abs(t) <= r.w, r.r = t, Exp(t)>> })

OrdRule(r) ==
    LET e  == Offset(r.a, r.b, M, W)
        e2 == Offset(r.b, r.a, M, W)
        c  == SeqCmp(r.a, r.b, M, W) IN
    <<"C09.OrdConsistent", ~r.panic,
      /\ r.r = e /\ r.rr = e2 /\ r.cmp = c /\ r.pcmp = c
      /\ r.lt = (c < 0) /\ r.le = (c <= 0) /\ r.gt = (c > 0) /\ r.ge = (c >= 0) /\ r.eq = (c = 0),
      "exp=" \o ToString(e) \o "," \o ToString(c)>>

Pair(r) ==
    /\ UNCHANGED <<cur, mark, rel>>
    /\ Judge({ NoPanic(r), OrdRule(r) })

DistCall(r) ==
    /\ UNCHANGED <<cur, mark, rel>>
    /\ Judge({ NoPanic(r), OrdRule(r),
               <<"C09.GhostAgrees", ~r.panic /\ Abs(rel) <= W,
                 r.a = cur /\ r.b = mark /\ r.r = rel /\ r.rr = -rel /\ r.cmp = SeqSign(rel), Exp(rel)>> })

Mark(r) ==
    /\ mark' = cur /\ rel' = 0 /\ UNCHANGED cur
    /\ Judge({ <<"C09.WrapAddSub", TRUE, r.cur = cur, Exp(cur)>> })

Move(r, fwd) ==
    LET e == IF fwd THEN Add(cur, r.k, M) ELSE SeqSubK(cur, r.k, M) IN
    /\ cur' = (IF r.panic THEN cur ELSE e)
    /\ rel' = (IF r.panic THEN rel ELSE IF fwd THEN rel + r.k ELSE rel - r.k)
    /\ UNCHANGED mark
    /\ Judge({ NoPanic(r), <<"C09.WrapAddSub", ~r.panic, r.cur = e /\ r.deref = e, Exp(e)>> })

Next ==
    /\ l <= N
    /\ l' = l + 1
    /\ LET r == Rec[l] IN
       CASE r.op = "start"  -> Start(r)
         [] r.op = "offset" -> OffsetCall(r)
         [] r.op = "pair"   -> Pair(r)
         [] r.op = "dist"   -> DistCall(r)
         [] r.op = "mark"   -> Mark(r)
         [] r.op = "fwd"    -> Move(r, TRUE)
         [] r.op = "back"   -> Move(r, FALSE)

Spec == Init /\ [][Next]_vars

---------------------------------------------------------------------------
Report ==
    (l = N + 1) =>
        PrintT(<<"VERDICT", ToJson([lines |-> N, runs |-> 1,
                                    viol |-> { [line |-> v[1], rule |-> v[2], ep |-> "", ctx |-> v[3]] : v \in viol },
                                    cov |-> cov])>>)

TraceAccepted ==
    LET d == TLCGet("stats").diameter IN
    IF d - 1 = N THEN TRUE
    ELSE Print(<<"TRACE NOT ACCEPTED: consumed", d - 1, "of", N>>, FALSE)
=============================================================================
