------------------------------ MODULE MCTxRing ------------------------------
(***************************************************************************)
(* Bounded instance of TxRing.tla.                                         *)
(*                                                                         *)
(* TLC enumerates, breadth first to depth TXR_DEPTH, EVERY sequence of     *)
(* calls over small value sets from the fresh ring:                        *)
(*   write(1 | 2 | 5 bytes), flush, shutdown, drop of the write half       *)
(*                                                   (the writer)          *)
(*   ack(1 | 2 | everything in the ring), grow, mark_vsock_closed,         *)
(*   register the dispatcher's waker                 (the connection task) *)
(* with a transmit buffer of TXR_INIT bytes initially and TXR_MAX bytes at *)
(* most (the instances: initial 2 .. 4 bytes, maximum = initial, 2x, 3x -- *)
(* not a power-of-two multiple: the doubling is clamped --, 4x, and one    *)
(* with the maximum BELOW the initial size).  Histories that leave the     *)
(* component in the same state at the same depth are continued once (VIEW);*)
(* `hist` is the witnessing history.                                       *)
(*                                                                         *)
(* In every reachable state: StateInv (TxRing.tla: bounded, growth by      *)
(* doubling up to the maximum, no lost wake-up) and the invariants below   *)
(* (after mark_vsock_closed every writer call resolves; once everything is *)
(* acknowledged flush completes).  On every transition: no rule of         *)
(* TxRing.tla is broken by the specification's own answer (the clauses,    *)
(* written independently of the operators, are consequences of them).      *)
(*                                                                         *)
(* Every transition is printed as a CASE                                   *)
(*   <<"C", ToJson(<<history, call, expected answer>>)>>                   *)
(* calls compactly: <<"w", len>> write  <<"f">> flush  <<"s">> shutdown    *)
(* <<"d">> drop the write half  <<"t", n>> acknowledgement of n bytes      *)
(* (truncate_front + wake)  <<"g">> grow (+ wake)  <<"c">> mark closed     *)
(* <<"r">> register the dispatcher's waker; the expected answer is         *)
(*   <<res, n, err, wwake, dwake, runs,                                    *)
(*     len, cap, wreg, dreg, shut, dropped, wrapped, content>>             *)
(* vlib/utx.py replays history ++ call on the real objects (unit_utx) and  *)
(* compares the answer to the last call with exact equality.               *)
(***************************************************************************)
EXTENDS TxRing, TLC, Json, IOUtils

EnvInt(name, dflt) == IF name \in DOMAIN IOEnv THEN atoi(IOEnv[name]) ELSE dflt
InitV == EnvInt("TXR_INIT", 2)
MaxV  == EnvInt("TXR_MAX", 6)
Depth == EnvInt("TXR_DEPTH", 5)
(* steps 1..FullDepth use the full alphabet, later ones (thorough tier) the reduced one *)
FullDepth == EnvInt("TXR_FULL", 99)

VARIABLES st, depth, hist
vars == <<st, depth, hist>>
View == <<st, depth>>

Deep == depth >= FullDepth
WLens == IF Deep THEN {0, 1, 5} ELSE {0, 1, 2, 5}
(* acknowledgements: 1 byte, 2 bytes, everything *)
Acks  == { n \in (IF Deep THEN {1, RLen(st)} ELSE {1, 2, RLen(st)}) : 1 <= n /\ n <= RLen(st) }

Call(op, a, b) == [op |-> op, a |-> a, b |-> b]

Compact(c) ==
    CASE c.op = "write"    -> <<"w", c.a>>
      [] c.op = "flush"    -> <<"f">>
      [] c.op = "shutdown" -> <<"s">>
      [] c.op = "drop"     -> <<"d">>
      [] c.op = "ack"      -> <<"t", c.a>>
      [] c.op = "grow"     -> <<"g">>
      [] c.op = "close"    -> <<"c">>
      [] c.op = "regdisp"  -> <<"r">>

ExpTuple(e) == <<e.res, e.n, e.err, e.wwake, e.dwake, e.runs,
                 e.len, e.cap, e.wreg, e.dreg, e.shut, e.dropped, e.wrapped, e.content>>

(* the design-mutant configurations (MCTxRing_mut_*.cfg, ./check selftest) replace an operator of TxRing.tla
   by a wrong one and Quiet by QuietOn: no cases are printed, the rules are not asserted on the transitions,
   and an INVARIANT below must catch the wrong design *)
Quiet   == FALSE
QuietOn == TRUE

---------------------------------------------------------------------------
Init == st = StNew(InitV, MaxV) /\ depth = 0 /\ hist = <<>>

Step(c) ==
    LET x  == Apply(st, c)
        e  == Expected(x)
        g  == [acc |-> x.st.acc, ack |-> x.st.ack]
        rs == Rules(st, c, x, e, e, g)
    IN  /\ depth < Depth
        /\ (Quiet \/ Assert(Broken(rs) = {}, <<"a rule is broken by the specification's own answer", c, Broken(rs), st>>))
        /\ st' = x.st
        /\ depth' = depth + 1
        /\ hist' = Append(hist, Compact(c))
        /\ (Quiet \/ PrintT(<<"C", ToJson(<<hist, Compact(c), ExpTuple(e)>>)>>))

Writer     == ~st.dropped
DoWrite    == Writer /\ \E n \in WLens : Step(Call("write", n, 0))
DoFlush    == Writer /\ Step(Call("flush", 0, 0))
DoShutdown == Writer /\ Step(Call("shutdown", 0, 0))
DoDrop     == Writer /\ Step(Call("drop", 0, 0))
DoAck      == \E n \in Acks : Step(Call("ack", n, 0))
DoGrow     == Step(Call("grow", 0, 0))
DoClose    == Step(Call("close", 0, 0))
DoReg      == ~st.dreg /\ Step(Call("regdisp", 0, 0))

Next == DoWrite \/ DoFlush \/ DoShutdown \/ DoDrop \/ DoAck \/ DoGrow \/ DoClose \/ DoReg
Spec == Init /\ [][Next]_vars

---------------------------------------------------------------------------
Inv == StateInv(st)

(* C03 "A successful flush or shutdown implies every byte written before it has been acknowledged" *)
Honest ==
    /\ Flush(st).res = "ok" => RLen(st) = 0
    /\ Shutdown(st).res = "ok" => RLen(st) = 0
    /\ Shutdown(st).st.shut => RLen(st) = 0

(* C19 "once the buffer is full write waits instead of buffering more" -- and only then; a write that is
   answered Ok made progress *)
Progress ==
    \A n \in {1, 2, 5} :
        LET w == Write(st, n) IN
        /\ w.res = "ok" => w.n >= 1 /\ w.n <= n /\ RLen(w.st) <= w.st.cap
        /\ w.res = "pending" => Full(st) /\ w.st.wreg

(* C03 "every pending and later ... write/flush/shutdown resolves ... instead of hanging": once the
   connection is marked closed no call of the writer answers Pending, and with bytes still in the ring
   none reports success *)
ClosedResolves ==
    LET c == MarkClosed(st).st
        w == Write(c, 1)  f == Flush(c)  s == Shutdown(c)
    IN  /\ w.res = "err" /\ f.res # "pending" /\ s.res # "pending"
        /\ (RLen(st) > 0 => f.res = "err" /\ s.res = "err")

(* "complete only when the TX ring ... is empty" -- and then they do: once everything accepted has been
   acknowledged, flush completes; a writer waiting for room finds room *)
AckedCompletes ==
    RLen(st) > 0 =>
        LET a == Ack(st, RLen(st)).st IN
        /\ Flush(a).res = "ok"
        /\ (Open(a) => Write(a, 1).res = "ok")
        /\ a.wait = "none"

(* a full ring that may still grow has room after growth, and its content is what it was *)
GrowthHelps ==
    Full(st) /\ st.cap < st.max =>
        LET gr == Grow(st).st IN Room(gr) > 0 /\ Content(gr) = Content(st) /\ gr.wait = "none"
---------------------------------------------------------------------------
(* Wrong designs for the design-mutant configurations.                     *)

(* the doubling is not clamped to the configured maximum *)
GrowUnclamped(s) ==
    IF s.cap >= s.max THEN Outcome(s, "none", 0)
    ELSE [Outcome([s EXCEPT !.cap = 2 * @, !.head = 0, !.wreg = FALSE, !.wait = IF s.wreg THEN "none" ELSE @],
                  "grown", 2 * s.cap)
          EXCEPT !.wwake = s.wreg]

(* mark_vsock_closed does not wake whoever waits *)
MarkClosedNoWake(s) == Outcome([s EXCEPT !.closed = TRUE], "ok", 0)

(* the connection task truncates the ring but wakes nobody *)
AckNoWake(s, n) == Outcome([s EXCEPT !.ack = @ + n, !.head = (@ + n) % (2 * s.cap)], "ok", n)

(* the connection task wakes the writer only when the ring has become empty *)
AckWakeWhenEmpty(s, n) ==
    IF n < RLen(s) THEN AckNoWake(s, n)
    ELSE [Outcome([s EXCEPT !.ack = @ + n, !.head = (@ + n) % (2 * s.cap), !.wreg = FALSE,
                            !.wait = IF s.wreg THEN "none" ELSE @], "ok", n)
          EXCEPT !.wwake = s.wreg]

(* flush completes as soon as the ring is not full *)
FlushWhenNotFull(s) ==
    IF ~Full(s) THEN Outcome(Answered(s), "ok", 0)
    ELSE IF s.closed THEN [Outcome(Answered(s), "err", 0) EXCEPT !.err = "closed"]
    ELSE Outcome(Waits(s, "empty"), "pending", 0)

(* a full ring answers Ok(0) instead of Pending *)
WriteOk0WhenFull(s, len) ==
    IF s.closed THEN [Outcome(Answered(s), "err", 0) EXCEPT !.err = "closed"]
    ELSE IF s.shut THEN [Outcome(Answered(s), "err", 0) EXCEPT !.err = "shutdown"]
    ELSE IF Full(s) THEN Outcome(Answered(s), "ok", 0)
    ELSE LET n == Min(len, Room(s)) IN
         [Outcome([Answered(s) EXCEPT !.acc = @ + n, !.dreg = FALSE], "ok", n) EXCEPT !.dwake = s.dreg]
=============================================================================
