SPECIFICATION LiveSpec
CONSTANTS
  Writers = {"A"}
  MaxData = 1
  MaxSynAck = 2
  MaxFinTx = 2
  MaxRetx = 0
  LossBudget = 1
  DupBudget = 0
  Variant = "code"
INVARIANTS TypeOK
PROPERTY Termination
CHECK_DEADLOCK FALSE
