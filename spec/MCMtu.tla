------------------------------- MODULE MCMtu -------------------------------
(***************************************************************************)
(* Bounded instances of the C14 contract (Mtu.tla) for TLC.                *)
(*                                                                         *)
(* One behaviour = one search: a configuration (link MTU, family, cooldown *)
(* period, path limit p, how a lost probe is noticed) is chosen at Init,   *)
(* then the whole probe sequence runs: the component is asked for segment  *)
(* sizes, the environment answers every probe by "delivered iff s <= p",   *)
(* and up to cfg.mi adversarial inputs are injected at the points and with *)
(* the values listed below.  TLC explores EVERY admissible probe choice of *)
(* the contract (2-3 sizes per probe), so the invariants of Mtu.tla        *)
(* (NeverAboveLink .. LogProbes, Budget) and Settles are checked for every *)
(* implementation that satisfies the contract, not only for the midpoint   *)
(* rule.                                                                   *)
(*                                                                         *)
(* Cases.  As the contract does not fix the probe sizes, a case for replay *)
(* on the real SegmentSizes is the ENVIRONMENT SCRIPT of a behaviour, not  *)
(* its answers:                                                            *)
(*   CASE [link, v4, cd, p, em, ncalls, [[k, phase, kind], ...],           *)
(*         [mss0, ceil0, final, maxprobes]]                                *)
(* "answer probes by the path limit p; after k calls of next_segment_size, *)
(* with (phase 1) or without (phase 0) a probe outstanding, inject input   *)
(* `kind`" (k = -1: at the moment the search is settled).  The last entry  *)
(* is what the contract determines about the run: the initial mss() and    *)
(* max_ss(), the final mss() (= max_ss(); -1 when an injected input made   *)
(* the reports untruthful, or may have: see Determined) and the largest    *)
(* admissible number of probes.                                            *)
(* The run recorded from the implementation is then judged line by line by *)
(* MtuTrace.                                                               *)
(*                                                                         *)
(* kinds: 0..12 PeerPayload(n), n = 0, 1, proven, proven + 1, ceil,        *)
(*   ceil + 1, 65535, 70000, link ceiling, link ceiling + 1, p, p + 1,     *)
(*   65536 + proven + 1 (a 16-bit wrap-around of proven + 1);              *)
(*   20 DisarmCooldown; 21 the outstanding probe is not used (larger than  *)
(*   the congestion window) and the cooldown disarmed; 22 the outstanding  *)
(*   probe is lost although it fits the path.                              *)
(* em = 1: a lost probe is noticed at once (EMSGSIZE) and the cooldown is  *)
(*   disarmed right after on_probe_failed; em = 0: noticed by expiry.      *)
(*                                                                         *)
(* Parameters (environment): MTU_TIER quick | thorough; MTU_PART           *)
(*   grid   every link MTU x family x path-limit subset x cd x em, no      *)
(*          injection                                                      *)
(*   inject a subset of the configurations (thorough: all link MTUs) with  *)
(*          one injection at every point of the first KInj = 3 calls / at  *)
(*          settle                                                         *)
(*   inject2  thorough only: three link MTU x family pairs with every pair *)
(*          of injections at the points of the first 2 calls / at settle   *)
(*   dense  thorough only: EVERY path limit for link MTUs up to 1500, a    *)
(*          dense subset for 9000 / 65535 (MTU_SHARD / MTU_SHARDS split    *)
(*          the configurations over several TLC processes)                 *)
(***************************************************************************)
EXTENDS Mtu, TLC, Json, IOUtils, Sequences, FiniteSets

EnvStr(name, default) == IF name \in DOMAIN IOEnv THEN IOEnv[name] ELSE default
EnvInt(name, default) == IF name \in DOMAIN IOEnv THEN atoi(IOEnv[name]) ELSE default

Thorough == EnvStr("MTU_TIER", "quick") = "thorough"
Part     == EnvStr("MTU_PART", "grid")
Shard    == EnvInt("MTU_SHARD", 0)
Shards   == EnvInt("MTU_SHARDS", 1)
KInj     == EnvInt("MTU_KINJ", IF Part = "inject2" THEN 2 ELSE 3)

Families == {TRUE, FALSE}
LinkSet(v4) == { m \in {Overhead(v4) + 1, Overhead(v4) + 2, 100, 576, 577, 600, 1000, 1280, 1281, 1492, 1500,
                        9000, 65535} : m >= Overhead(v4) + 1 }

(* the nodes of the (midpoint) search tree between lo and hi down to depth d, each with the size just
   below it: the path limits at which the outcome of some probe flips *)
RECURSIVE Tree(_, _, _)
Tree(lo, hi, d) ==
    IF d = 0 \/ lo >= hi THEN {}
    ELSE LET m == lo + ((hi - lo) \div 2) + 1 IN {m - 1, m} \cup Tree(lo, m - 1, d - 1) \cup Tree(m, hi, d - 1)

Range(link, v4) == MinPayload(link, v4)..LinkCeil(link, v4)
Near(link, v4, k) ==
    LET lo == MinPayload(link, v4)
        hi == LinkCeil(link, v4)
    IN  (lo..Min(lo + k, hi)) \cup (Max(hi - k, lo)..hi)
Sparse(link, v4, d, k) ==
    { x \in Tree(MinPayload(link, v4), LinkCeil(link, v4), d) : x >= MinPayload(link, v4) /\ x <= LinkCeil(link, v4) }
    \cup Near(link, v4, k)

PathLimits(link, v4) ==
    CASE Part = "dense" -> IF link <= 1500 THEN Range(link, v4) ELSE Sparse(link, v4, 7, 40)
      [] Part = "inject" -> IF Thorough THEN Sparse(link, v4, 1, 1) ELSE Sparse(link, v4, 1, 0)
      [] Part = "inject2" -> Sparse(link, v4, 1, 0)
      [] OTHER -> IF Thorough THEN Sparse(link, v4, 4, 3) ELSE Sparse(link, v4, 2, 1)

InjectLinks(v4) ==
    CASE Part = "inject2" -> IF v4 THEN {600, 1500} ELSE {1500}
      [] Thorough -> LinkSet(v4)
      [] OTHER -> IF v4 THEN {Overhead(v4) + 2, 577, 600, 1500, 65535} ELSE {1281, 1500, 9000}

Cooldowns == CASE Part = "dense" -> {1}
               [] Part = "inject" -> IF Thorough THEN {0, 1, 3} ELSE {1}
               [] Part = "inject2" -> {1}
               [] OTHER -> {0, 1, 3}
Ems       == IF Part = "dense" THEN {0} ELSE {0, 1}
MaxInj    == CASE Part = "inject" -> 1 [] Part = "inject2" -> 2 [] OTHER -> 0

MCConfigs ==
    { c \in UNION { UNION { { [link |-> m, v4 |-> f, cd |-> k, p |-> q, em |-> e, mi |-> MaxInj]
                              : k \in Cooldowns, q \in PathLimits(m, f), e \in Ems }
                            : m \in (IF Part \in {"inject", "inject2"} THEN InjectLinks(f) ELSE LinkSet(f)) }
                    : f \in Families }
        : (c.p + c.link) % Shards = Shard }

PeerKinds == 0..12
KDisarm == 20
KUnused == 21
KLost   == 22

PeerValue(c, s, kind) ==
    CASE kind = 0 -> 0
      [] kind = 1 -> 1
      [] kind = 2 -> s.proven
      [] kind = 3 -> s.proven + 1
      [] kind = 4 -> s.ceil
      [] kind = 5 -> s.ceil + 1
      [] kind = 6 -> 65535
      [] kind = 7 -> 70000
      [] kind = 8 -> Ceil0(c)
      [] kind = 9 -> Ceil0(c) + 1
      [] kind = 10 -> c.p
      [] kind = 11 -> c.p + 1
      [] kind = 12 -> 65536 + s.proven + 1
MCPeerSizes(c, s) == { PeerValue(c, s, k) : k \in PeerKinds }

---------------------------------------------------------------------------
VARIABLES
    calls,   \* next_segment_size() calls made
    tail,    \* of which since the search is settled
    pend,    \* the forced DisarmCooldown after an EMSGSIZE failure is due
    inj      \* the injections made: <<k, phase, kind>>

mcvars == <<cfg, st, out, outr, calls, tail, pend, inj>>

NCalls(c)  == CallsNeeded(c) + 2 + c.mi
Settled    == st.proven = st.ceil /\ out = 0 /\ ~pend
Done       == (Settled /\ tail >= cfg.cd + 2) \/ calls >= NCalls(cfg)

MCInit == Init /\ calls = 0 /\ tail = 0 /\ pend = FALSE /\ inj = << >>

MCCall ==
    /\ ~Done /\ ~pend
    /\ NextSegmentSize
    /\ calls' = calls + 1
    /\ tail' = IF st.proven = st.ceil THEN tail + 1 ELSE 0
    /\ UNCHANGED <<pend, inj>>

MCAnswer ==
    /\ \/ ProbeSucceeded /\ pend' = FALSE
       \/ ProbeFailed /\ pend' = (cfg.em = 1)
    /\ UNCHANGED <<calls, tail, inj>>

MCForcedDisarm ==
    /\ pend /\ DisarmCooldown /\ pend' = FALSE
    /\ UNCHANGED <<calls, tail, inj>>

(* where an injection may happen: during the first KInj calls, or when the search has just settled *)
Point == IF Settled /\ tail = 0 /\ calls > KInj THEN -1 ELSE calls
MayInject == ~Done /\ ~pend /\ Len(inj) < cfg.mi /\ (calls <= KInj \/ (Settled /\ tail = 0))
Phase == IF out # 0 THEN 1 ELSE 0

MCInject ==
    /\ MayInject
    /\ \E kind \in PeerKinds \cup {KDisarm, KUnused, KLost} :
        /\ CASE kind \in PeerKinds -> PeerPayload(PeerValue(cfg, st, kind))
             [] kind = KDisarm -> DisarmCooldown
             [] kind = KUnused -> ProbeUnused
             [] kind = KLost   -> ProbeLost
        /\ inj' = Append(inj, <<Point, Phase, kind>>)
    /\ tail' = 0
    /\ UNCHANGED <<calls, pend>>

MCNext == MCCall \/ MCAnswer \/ MCForcedDisarm \/ MCInject
MCSpec == MCInit /\ [][MCNext]_mcvars

---------------------------------------------------------------------------
(* Bounded liveness: "settles": a run that used up its calls has settled, and -- when the reports
   were truthful -- on the largest payload size that fits. *)
Settles ==
    Done => /\ st.proven = st.ceil /\ out = 0
            /\ (st.ok => P_Settled(cfg, st.proven, st.ceil))

B2I(b) == IF b THEN 1 ELSE 0

(* The final size is determined by the script when the reports are truthful in EVERY behaviour that follows
   the script: injected values that are relative to the state (proven + 1, ceil, ceil + 1) fit the path in
   one behaviour and not in another (the implementation's probe sizes need not be this behaviour's). *)
Relative == {3, 4, 5}
Determined == st.ok /\ \A i \in DOMAIN inj : inj[i][3] \notin Relative

(* one line per finished behaviour; behaviours that differ only in the contract's probe choices print
   the same line (the check keeps one) *)
Emit ==
    Done => PrintT("CASE " \o ToJson(
        <<cfg.link, B2I(cfg.v4), cfg.cd, cfg.p, cfg.em, NCalls(cfg), inj,
          <<Min0(cfg), Ceil0(cfg), IF Determined THEN Target(cfg) ELSE -1, LogBound(Ceil0(cfg) - Min0(cfg))>> >>))

(* statistics for the check *)
Stats == PrintT(<<"CONFIGS", Cardinality(MCConfigs)>>)
ASSUME Stats
=============================================================================
