------------------------------ MODULE SocketTab ------------------------------
(***************************************************************************)
(* The dispatcher tables of one socket as properties C08, C12 and C13 pin  *)
(* them down: the table of live connections (keyed by peer address and     *)
(* receive connection id), the connection ids reserved by pending outgoing *)
(* connects, the FIFO of retained (not yet accepted) SYNs, the order of    *)
(* accept calls, and the refusals owed a RESET.                            *)
(*                                                                         *)
(* A socket is a record; operators are pure (effects and rules), shared by *)
(* the bounded model MCSocket and by the trace specification UtpTrace.     *)
(* Keys are <<remote address, connection id>>.                             *)
(***************************************************************************)
EXTENDS Integers, Sequences, FiniteSets

NewSock(limit) ==
    [ limit    |-> limit,
      streams  |-> {},      \* keys of live connections
      pending  |-> {},      \* keys reserved by outgoing connects whose SYN-ACK has not arrived
      synq     |-> <<>>,    \* retained SYNs, oldest first
      matched  |-> <<>>,    \* SYNs handed to an accept call that has not returned yet
      calls    |-> <<>>,    \* accept calls (application names) in call order
      abandons |-> 0,       \* accept calls given up (relaxes the strict call-order rule)
      routed   |-> <<>>,    \* keys of datagrams handed to a connection and not yet processed by it
      rstDue   |-> {},      \* refused SYNs that are owed a RESET: [remote, cid, seq]
      everMatched |-> {},   \* SYNs (remote, connection id, sequence number) that were handed to an accept call
      lastSyn  |-> [remote |-> "", cid |-> -1, seq |-> -1] ]

RemoveFirst(q, x) ==
    LET idx == { i \in 1 .. Len(q) : q[i] = x }
    IN  IF idx = {} THEN q
        ELSE LET i == CHOOSE j \in idx : \A m \in idx : j <= m
             IN  SubSeq(q, 1, i - 1) \o SubSeq(q, i + 1, Len(q))
InSeq(q, x) == \E i \in 1 .. Len(q) : q[i] = x

(***************************************************************************)
(* C12 "connection ids in use between one address pair are unique"         *)
(*     (pending outgoing connects included)                                *)
(***************************************************************************)
R_C12_KeyUniqueIn(s, key)  == key \notin s.streams /\ key \notin s.pending
R_C12_KeyUniqueOut(s, key) == key \notin s.streams
R_C12_KeyUniquePending(s, key) == key \notin s.streams /\ key \notin s.pending
\* C12 "The number of live connections never exceeds the configured limit"
R_C12_LimitRespected(s) == Cardinality(s.streams) <= s.limit
\* the implementation's table has exactly the connections the specification derived
R_C12_TableAgrees(s, n) == Cardinality(s.streams) = n
\* C12 "a datagram is only ever delivered to the connection whose peer address and connection id it names"
R_C12_RouteAgrees(s, key, found) == found = (key \in s.streams)
R_C12_DeliverToNamed(s, key) == InSeq(s.routed, key)

StreamInsert(s, key) == [s EXCEPT !.streams = @ \cup {key}, !.pending = @ \ {key}]
StreamRemove(s, key) == [s EXCEPT !.streams = @ \ {key}]
PendingInsert(s, key) == [s EXCEPT !.pending = @ \cup {key}]
PendingDropSome(s, remote) ==   \* an abandoned connect: the hook does not say which id it had reserved
    LET mine == { k \in s.pending : k[1] = remote } IN [s EXCEPT !.pending = @ \ mine]
Routed(s, key) == [s EXCEPT !.routed = Append(@, key)]
Processed(s, key) == [s EXCEPT !.routed = RemoveFirst(@, key)]

(***************************************************************************)
(* C13 "pending connection requests are handed to accept calls in arrival  *)
(*      order, at most a fixed backlog of unaccepted requests is retained  *)
(*      and the excess is refused with a reset"                            *)
(***************************************************************************)
SynArrived(s, remote, cid, seq) == [s EXCEPT !.lastSyn = [remote |-> remote, cid |-> cid, seq |-> seq]]
SynCached(s, key) == [s EXCEPT !.synq = Append(@, key)]
\* a SYN is handed to an acceptor: it must be the oldest retained one (or, with nothing retained, the one just arrived)
R_C13_AcceptFifo(s, key) == s.synq = <<>> \/ Head(s.synq) = key
SynMatched(s, key) ==
    [s EXCEPT !.synq = IF @ # <<>> /\ Head(@) = key THEN Tail(@) ELSE RemoveFirst(@, key),
              !.matched = Append(@, key)]
SynClashCached(s) == [s EXCEPT !.synq = IF @ = <<>> THEN @ ELSE Tail(@)]
\* "Each successful connect is matched by exactly one accepted stream": one SYN (a duplicate or retransmission is the
\* same SYN) is handed out once, and the SYN of a live connection is not retained as a new request
R_C13_PairOnceSyn(s, syn3) == syn3 \notin s.everMatched
R_C13_NoPhantomRequest(s, key) == key \notin s.streams
R_C13_BacklogBound(n, backlog) == n <= backlog
R_C13_RefusedOnlyWhenFull(s, backlog) == Len(s.synq) >= backlog
SynRefused(s) == [s EXCEPT !.rstDue = @ \cup {s.lastSyn}]
\* a RESET sent by the dispatcher answers a refused SYN: same peer, the SYN's connection id, acknowledging its sequence number
R_C13_ResetMatches(s, remote, cid, ack) == [remote |-> remote, cid |-> cid, seq |-> ack] \in s.rstDue
ResetSent(s, remote, cid, ack) == [s EXCEPT !.rstDue = @ \ {[remote |-> remote, cid |-> cid, seq |-> ack]}]
R_C13_ExcessRefused(s) == s.rstDue = {}      \* obligation: may not survive a clock advance

AcceptCalled(s, name) == [s EXCEPT !.calls = Append(@, name)]
AcceptAbandoned(s, name) == [s EXCEPT !.calls = RemoveFirst(@, name), !.abandons = @ + 1]
\* "Each successful connect is matched by exactly one accepted stream": an accept returns a stream the dispatcher matched,
\* in the order the SYNs were matched and to the accept calls in call order
R_C13_AcceptReturnsMatched(s, key) ==
    IF s.abandons = 0 THEN s.matched # <<>> /\ Head(s.matched) = key ELSE InSeq(s.matched, key)
R_C13_AcceptCallOrder(s, name) == s.abandons > 0 \/ (s.calls # <<>> /\ Head(s.calls) = name)
AcceptReturned(s, name, key) ==
    [s EXCEPT !.matched = RemoveFirst(@, key), !.calls = RemoveFirst(@, name)]
=============================================================================
