------------------------------- MODULE MCSeq -------------------------------
(***************************************************************************)
(* C09, arithmetic clause: "Ordering and distance of two sequence numbers  *)
(* agree with true modular distance for every distance the configured      *)
(* windows allow."  Quantifier: all pairs of 16-bit values.                *)
(*                                                                         *)
(* Bounded instances of the lemmas of SeqArith.tla about Offset (the       *)
(* transcription of `seq_nr_offset`) against Dist (ideal signed modular    *)
(* distance).                                                              *)
(*                                                                         *)
(* The tolerance: W must be at least the largest window in packets the     *)
(* configuration allows; W = M/2 - 1 = 32767 is the largest tolerance      *)
(* 16-bit arithmetic admits (the lemmas need 2W < M) and is what the real  *)
(* instances hard-wire.  DocW = 1024 is the FORMER tolerance, the defect   *)
(* D8; it is kept for documentation (NegativeWitness prints its smallest   *)
(* misordered pair) and as a second table for `seq_nr_offset(a, b, 1024)`  *)
(* as a pure function.                                                     *)
(*                                                                         *)
(*   MCSeq_h64 / MCSeq_h256  scaled, tolerance M/2 - 1: (M, W) = (64, 31), *)
(*        (256, 127): ALL pairs, every lemma a named invariant of its own. *)
(*   MCSeq_s64 / MCSeq_s256  scaled, SMALL tolerance (64, 4), (256, 16):   *)
(*        the same; these instances have misordered pairs (the class of    *)
(*        D8) and NegativeWitness prints the smallest.                     *)
(*   MCSeq_quick  the REAL constants M = 65536, W = 32767: a boundary-     *)
(*        dense subset of ~7k a's, each against the b's at a boundary-     *)
(*        dense set of signed distances (0..Band, around DocW, around the  *)
(*        antipode, powers of two +-1, multiples of 1024 +-1; both signs)  *)
(*        plus fixed far b's: OffsetAgreesCore on all of them, AllLemmas   *)
(*        (every lemma, also for the tolerance DocW) on the `Heavy` a's;   *)
(*        EmitAll writes the tables and the replay cases.                  *)
(*   MCSeq (thorough)  the same for ALL 65536 a's with a wider Band and    *)
(*        DependsOnDLt on every pair.  Run without -coverage (factor > 8). *)
(*                                                                         *)
(* With W = M/2 - 1 "every b within tolerance" is the whole ring, so all   *)
(* 65536 x 65536 pairs are out of TLC's reach; the complete function is    *)
(* emitted as a table over (d, lt) = ((a - b) % M, a < b) instead (Table)  *)
(* and the implementation is compared with the table on all 2^32 pairs by  *)
(* unit_seq `table`.  That Offset depends on (d, lt) only is the lemma     *)
(* DependsOnDLt, checked here on all pairs of the scaled instances and on  *)
(* the sample of the real one, and for all pairs symbolically by Apalache  *)
(* (SeqArithApa.tla) together with every other lemma.                      *)
(*                                                                         *)
(* The state variable a is the sequence number whose pairs are checked.    *)
(* Initial states are `Chunks` roots (a = -1 - c); the successors of root  *)
(* c are the a's of residue c, so that the workers share the range (TLC    *)
(* evaluates invariants of initial states on one thread only).             *)
(***************************************************************************)
EXTENDS SeqArith, Sequences, FiniteSets, TLC, TLCExt, Json, IOUtils, SequencesExt

CONSTANTS
    M,        \* modulus
    W,        \* wrap tolerance
    DocW,     \* the former tolerance (documentation of D8, second table); = W in the small-tolerance instances
    AllPairs, \* TRUE: every b for every a (scaled instances)
    Band,     \* width of the dense clusters of distances (real instances)
    Chunks,   \* number of root states
    ASel,     \* "all": every a in 0..M-1;  "dense": boundary-dense subset
    CoreDLt,  \* TRUE: OffsetAgreesCore also checks DependsOnDLt on every pair (FALSE: AllLemmas does, on the Heavy a's)
    Emit      \* TRUE: write the (d, lt) tables and the replay cases (env C09_TABLE, C09_CASES)

VARIABLE a

H == M \div 2
ASSUME M % 2 = 0 /\ W >= 1 /\ 2 * W < M /\ DocW >= 1 /\ DocW <= W /\ Chunks >= 1 /\ Band >= 0

(* quick tier: a's around 0, around the wrap, around the antipode of 0, and around every multiple of 1024 *)
Dense ==
    { x \in (0..(2 * DocW + 150)) \cup ((M - 2 * DocW - 150)..(M - 1)) \cup ((H - DocW - 180)..(H + DocW + 180))
            \cup { k * 1024 + j : k \in 0..(M \div 1024), j \in -2..2 } : x >= 0 /\ x < M }

ChunkOf(c) ==
    IF ASel = "all" THEN { c + Chunks * i : i \in 0..((M - 1 - c) \div Chunks) }
    ELSE { x \in Dense : x % Chunks = c }

Init == a \in { -1 - c : c \in 0..(Chunks - 1) }
Next == a < 0 /\ a' \in ChunkOf(-1 - a)
Spec == Init /\ [][Next]_a

---------------------------------------------------------------------------
(* the b's paired with a (real instances): b = (a - k) % M for the signed   *)
(* distances k of Ks, and fixed far ones                                    *)
Pow2 == { 2, 4, 8, 16, 32, 64, 128, 256, 512, 1024, 2048, 4096, 8192, 16384, 32768 }
DPos ==
    { d \in (0..Band) \cup ((DocW - Band)..(DocW + Band)) \cup ((H - Band)..H)
            \cup { p + e : p \in Pow2, e \in {-1, 0, 1} }
            \cup { 1024 * k + e : k \in 1..31, e \in {-1, 0, 1} } : d >= 0 /\ d <= H }
Ks == DPos \cup { -d : d \in DPos }
Far(x) == {0, 1, DocW, DocW + 1, W, W + 1, H - 1, H, H + 1, M - W - 1, M - W, M - DocW - 1, M - DocW, M - 1}

ForAllB(x, P(_, _)) ==
    IF AllPairs THEN \A b \in 0..(M - 1) : P(x, b)
    ELSE /\ \A k \in Ks : P(x, (x - k) % M)
         /\ \A b \in Far(x) : P(x, b)
PairsPerA == IF AllPairs THEN M ELSE Cardinality(Ks) + Cardinality(Far(0))

Diag(name, x, b) ==
    Print(<<"LEMMA FAILS", name, [a |-> x, b |-> b, offset |-> Offset(x, b, M, W), offset_ba |-> Offset(b, x, M, W),
                                   dist |-> Dist(x, b, M)]>>, FALSE)

(* "... agree with true modular distance for every distance the configured windows allow": *)
(* the lemma proper, for the tolerance W the implementation is configured with              *)
P_Agrees(x, b)    == OffsetAgreesAt(x, b, M, W)          \/ Diag("OffsetAgrees", x, b)
(* what Offset is outside the tolerance: the plain integer difference a - b *)
P_Closed(x, b)    == OffsetClosedFormAt(x, b, M, W)      \/ Diag("ClosedForm", x, b)
(* Offset is a function of (a - b) % M and a < b: licenses the table *)
P_DLt(x, b)       == OffsetDependsOnDLtAt(x, b, M, W)    \/ Diag("DependsOnDLt", x, b)
P_Antisym(x, b)   == OffsetAntisymAt(x, b, M, W)         \/ Diag("Antisym", x, b)
P_Zero(x, b)      == OffsetZeroIffEqualAt(x, b, M, W)    \/ Diag("ZeroIffEqual", x, b)
(* "Ordering ... agree[s] with true modular distance" within the tolerance *)
P_Ord(x, b)       == OrdAgreesAt(x, b, M, W)             \/ Diag("OrdAgrees", x, b)
(* negative facts *)
P_Plain(x, b)     == OrdIsPlainBeyondAt(x, b, M, W)      \/ Diag("OrdIsPlainBeyond", x, b)
P_Inverted(x, b)  == OrdInvertedAcrossWrapAt(x, b, M, W) \/ Diag("OrdInvertedAcrossWrap", x, b)
(* with the largest tolerance no pair with an unambiguous modular order is misordered *)
P_Total(x, b)     == (2 * (W + 1) = M => ~OrdWrongAt(x, b, M, W)) \/ Diag("OrdTotalAtMaxTolerance", x, b)

OffsetAgrees           == a >= 0 => ForAllB(a, P_Agrees)
ClosedForm             == a >= 0 => ForAllB(a, P_Closed)
DependsOnDLt           == a >= 0 => ForAllB(a, P_DLt)
Antisym                == a >= 0 => ForAllB(a, P_Antisym)
ZeroIffEqual           == a >= 0 => ForAllB(a, P_Zero)
OrdAgrees              == a >= 0 => ForAllB(a, P_Ord)
OrdIsPlainBeyond       == a >= 0 => ForAllB(a, P_Plain)
OrdInvertedAcrossWrap  == a >= 0 => ForAllB(a, P_Inverted)
OrdTotalAtMaxTolerance == a >= 0 => ForAllB(a, P_Total)

(* OffsetAgrees + what Offset is outside the tolerance + the table licence in one pass, each *)
(* function evaluated once per pair: the invariant of the real instances over all their a's  *)
P_Core(x, b) ==
    LET o  == Offset(x, b, M, W)
        t  == Dist(x, b, M)
    IN  \/ /\ L_OffsetAgrees(o, t, W) /\ L_ClosedForm(x, b, o, t, W)
           /\ (CoreDLt => L_DependsOnDLt(o, OffsetRep((x - b) % M, x < b, M, W)))
        \/ Diag("OffsetAgrees/ClosedForm/DependsOnDLt", x, b)
OffsetAgreesCore == a >= 0 => ForAllB(a, P_Core)
(* the value form of the lemma is the lemma *)
P_Forms(x, b) == L_OffsetAgrees(Offset(x, b, M, W), Dist(x, b, M), W) <=> OffsetAgreesAt(x, b, M, W)
FormsCoincide == a >= 0 => ForAllB(a, P_Forms)

(* the same lemma bodies (SeqArith L_...) in one pass over the b's, each function evaluated *)
(* once per pair; and the lemmas that license the second table (tolerance DocW)             *)
P_All(x, b) ==
    LET o  == Offset(x, b, M, W)
        o2 == Offset(b, x, M, W)
        t  == Dist(x, b, M)
        r  == OffsetRep((x - b) % M, x < b, M, W)
    IN  \/ /\ L_OffsetAgrees(o, t, W)
           /\ L_ClosedForm(x, b, o, t, W) /\ L_DependsOnDLt(o, r) /\ L_Antisym(o, o2)
           /\ L_ZeroIffEqual(x, b, o) /\ L_OrdAgrees(o, t, W)
           /\ L_OrdIsPlainBeyond(x, b, o, t, W) /\ L_OrdInvertedAcrossWrap(x, b, o, t, M, W)
           /\ (2 * (W + 1) = M => ~OrdWrongAt(x, b, M, W))
           /\ (DocW # W => /\ OffsetAgreesAt(x, b, M, DocW) /\ OffsetClosedFormAt(x, b, M, DocW)
                           /\ OffsetDependsOnDLtAt(x, b, M, DocW) /\ OffsetAntisymAt(x, b, M, DocW))
        \/ Diag("AllLemmas", x, b)
(* real instances: on the a's within 100 of 0 / DocW / H-DocW / H / H+DocW / M-DocW (mod M); scaled: on every a *)
CDist(x, c) == LET d == (x - c) % M IN IF d > H THEN M - d ELSE d
Heavy(x) == AllPairs \/ \E c \in {0, DocW, H - DocW, H, H + DocW, M - DocW} : CDist(x, c) <= 100
AllLemmas == (a >= 0 /\ Heavy(a)) => ForAllB(a, P_All)

(* wrapping add / subtract and the offset back to the start *)
KsAdd == IF AllPairs THEN 0..(M - 1) ELSE {0, 1, 2, DocW - 1, DocW, DocW + 1, W - 1, W, W + 1, H, H + 1, M - 1}
AddSubWrap ==
    a >= 0 => \A k \in KsAdd :
        /\ Add(a, k, M) \in 0..(M - 1) /\ SeqSubK(a, k, M) \in 0..(M - 1)
        /\ SeqSubK(Add(a, k, M), k, M) = a /\ Add(SeqSubK(a, k, M), k, M) = a
        /\ Dist(Add(a, k, M), a, M) = (IF k >= H THEN k - M ELSE k)
        /\ (AddThenOffsetAt(a, k, M, W) \/ Diag("AddThenOffset", a, k))

(* every two numbers of the window [a, a + W] compare like their positions in it *)
KsWin == IF AllPairs THEN 0..W ELSE {0, 1, 2, DocW - 1, DocW, DocW + 1, H \div 2, W - 2, W - 1, W}
WindowOrder ==
    a >= 0 => \A x \in KsWin, y \in KsWin : WindowOrderAt(a, x, y, M, W) \/ Diag("WindowOrder", x, y)

---------------------------------------------------------------------------
(* NEGATIVE fact as a witness.                                              *)
(* Tolerance w with 2 * (w + 1) < M: there are pairs on which the           *)
(* implementation's order contradicts the modular order.  By OrdAgrees none *)
(* has |Dist| <= w; there is one at |Dist| = w + 1: (a, b) = (0, M - w - 1): *)
(* b is w + 1 BEHIND a, the code says a < b.  For the former tolerance      *)
(* w = 1024 of the 16-bit arithmetic this was the defect D8: a window of    *)
(* more than 1024 packets broke when it straddled the wrap.                 *)
(* Tolerance W = M/2 - 1: the only distance beyond the tolerance is the     *)
(* antipode |Dist| = M/2, whose modular order is ambiguous (Dist(a, b) =    *)
(* Dist(b, a) = -M/2); Offset breaks the tie by the integer order and stays *)
(* antisymmetric: Offset(0, M/2) = -M/2, Offset(M/2, 0) = +M/2.  No pair    *)
(* with an unambiguous order is misordered (OrdTotalAtMaxTolerance).        *)
WrongB(x, w) == { b \in { (x - (w + 1)) % M, (x + w + 1) % M } : OrdWrongAt(x, b, M, w) }
SmallestWrong(w) ==
    LET x == CHOOSE v \in 0..(M - 1) : WrongB(v, w) # {} /\ \A u \in 0..(v - 1) : WrongB(u, w) = {}
        y == CHOOSE v \in WrongB(x, w) : \A u \in WrongB(x, w) : v <= u
    IN  [a |-> x, b |-> y, dist |-> Dist(x, y, M), offset |-> Offset(x, y, M, w),
         impl_says |-> IF Offset(x, y, M, w) < 0 THEN "a < b" ELSE "a > b",
         modular |-> IF Dist(x, y, M) < 0 THEN "a < b" ELSE "a > b", M |-> M, W |-> w]
WitnessOK(s, w) ==
    /\ s.a = 0 /\ s.b = M - w - 1
    /\ s.dist = w + 1 /\ s.offset = -(M - w - 1)
    /\ s.impl_says # s.modular
Antipodal ==
    [a |-> 0, b |-> H, dist_ab |-> Dist(0, H, M), dist_ba |-> Dist(H, 0, M),
     offset_ab |-> Offset(0, H, M, W), offset_ba |-> Offset(H, 0, M, W), M |-> M, W |-> W,
     note |-> "only distance beyond the tolerance; modular order ambiguous; tie broken by integer order, antisymmetric"]
NegativeWitness ==
    a = -1 =>
        /\ IF 2 * (W + 1) < M
             THEN LET s == SmallestWrong(W) IN WitnessOK(s, W) /\ PrintT(<<"NEGATIVE", ToJson(s)>>)
             ELSE /\ \A x \in 0..(M - 1) : WrongB(x, W) = {}
                  /\ Antipodal.dist_ab = -H /\ Antipodal.dist_ba = -H
                  /\ Antipodal.offset_ab = -H /\ Antipodal.offset_ba = H
                  /\ PrintT(<<"NEGATIVE", ToJson(Antipodal)>>)
        /\ (DocW # W => LET s == SmallestWrong(DocW) IN WitnessOK(s, DocW) /\ PrintT(<<"NEGATIVE_OLD", ToJson(s)>>))
        /\ PrintT(<<"PAIRS_PER_A", PairsPerA>>)

---------------------------------------------------------------------------
(* spec -> impl: the complete function as a table over d = (a - b) % M and  *)
(* lt = (a < b); index d + 1 (JSON arrays: index d).  `extra`: the same for *)
(* the tolerance DocW (seq_nr_offset(a, b, 1024) as a pure function).       *)
TableFor(w) ==
    [W |-> w,
     ge |-> [i \in 1..M |-> OffsetRep(i - 1, FALSE, M, w)],
     lt |-> [i \in 1..M |-> OffsetRep(i - 1, TRUE, M, w)]]
Table ==
    [M |-> M, W |-> W, ge |-> TableFor(W).ge, lt |-> TableFor(W).lt,
     extra |-> IF DocW # W THEN <<TableFor(DocW)>> ELSE <<>>]

(* ... and concrete cases on a boundary set, every tolerance of the record mode *)
BV == { x % M : x \in {0, 1, 2, 15, 16, 17, DocW - 1, DocW, DocW + 1, DocW + 2, W - 1, W, W + 1, W + 2, H - 1, H, H + 1,
                       M - W - 2, M - W - 1, M - W, M - W + 1, M - DocW - 2, M - DocW - 1, M - DocW, M - DocW + 1,
                       M - 18, M - 17, M - 16, M - 2, M - 1, 12345, 40000, 54321} }
Tols == { t \in {0, 1, 2, 15, 16, 17, 1023, 1024, 1025, 32766, 32767, 32768, 65535} : t < M }
Cases ==
    { [op |-> "offset", a |-> x, b |-> y, w |-> t, exp |-> Offset(x, y, M, t)] : x \in BV, y \in BV, t \in Tols }
    \cup { [op |-> "sub", a |-> x, b |-> y, w |-> W, exp |-> Offset(x, y, M, W)] : x \in BV, y \in BV }
    \cup { [op |-> "cmp", a |-> x, b |-> y, w |-> W, exp |-> SeqCmp(x, y, M, W)] : x \in BV, y \in BV }
    \cup { [op |-> "add", a |-> x, b |-> k, w |-> W, exp |-> Add(x, k, M)] : x \in BV, k \in BV }
    \cup { [op |-> "subk", a |-> x, b |-> k, w |-> W, exp |-> SeqSubK(x, k, M)] : x \in BV, k \in BV }
    \cup { [op |-> "tolerance", a |-> 0, b |-> 0, w |-> W, exp |-> W] }

EmitAll ==
    (a = -1 /\ Emit) =>
        /\ JsonSerialize(IOEnv.C09_TABLE, Table)
        /\ ndJsonSerialize(IOEnv.C09_CASES, SetToSeq(Cases))
        /\ PrintT(<<"EMITTED", M, W, Cardinality(Cases)>>)
=============================================================================
