------------------------------- MODULE MCSeq -------------------------------
(***************************************************************************)
(* C09, arithmetic clause: "Ordering and distance of two sequence numbers  *)
(* agree with true modular distance for every distance the configured      *)
(* windows allow."  Quantifier: all pairs of 16-bit values.                *)
(*                                                                         *)
(* Bounded instances of the lemmas of SeqArith.tla about Offset (the       *)
(* transcription of `seq_nr_offset`) against Dist (ideal signed modular    *)
(* distance):                                                              *)
(*                                                                         *)
(*   MCSeq_s64 / MCSeq_s256  scaled modulus (M, W) = (64, 4), (256, 16):   *)
(*        ALL pairs (and all triples within a window), every lemma a named *)
(*        invariant of its own.                                            *)
(*   MCSeq_quick  the REAL constants M = 65536, W = 1024 (hard-wired in the  *)
(*        cfg), a boundary-dense subset of ~7k a's, each against every b   *)
(*        whose true distance is within the tolerance (2049 values) plus   *)
(*        `Band` values just outside on both sides plus far / antipodal    *)
(*        b's: OffsetAgreesCore (OffsetAgrees + ClosedForm in one pass);   *)
(*        AllLemmas (every lemma incl. DependsOnDLt) on the ~1200 `Heavy`  *)
(*        a's; NegativeWitness; EmitAll writes the table and the cases.    *)
(*   MCSeq (thorough)  the same for ALL 65536 a's, DependsOnDLt on every   *)
(*        pair (CoreDLt = TRUE).  Run without -coverage (factor > 8).      *)
(*                                                                         *)
(* All 65536 x 65536 pairs are out of TLC's reach; the complete function   *)
(* is emitted as a table over (d, lt) = ((a - b) % M, a < b) instead       *)
(* (Table) and the implementation is compared with the table on all 2^32   *)
(* pairs by unit_seq `table`.  That Offset depends on (d, lt) only is the  *)
(* lemma DependsOnDLt, checked here on all pairs of the scaled instances   *)
(* and on the sample of the real one (and for all pairs symbolically by    *)
(* Apalache, SeqArithApa.tla).                                             *)
(*                                                                         *)
(* The state variable a is the sequence number whose pairs are checked.    *)
(* Initial states are `Chunks` roots (a = -1 - c); the successors of root  *)
(* c are the a's of residue c, so that the workers share the range (TLC    *)
(* evaluates invariants of initial states on one thread only).             *)
(***************************************************************************)
EXTENDS SeqArith, Sequences, FiniteSets, TLC, TLCExt, Json, IOUtils, SequencesExt

CONSTANTS
    M,        \* modulus
    W,        \* wrap tolerance
    Band,     \* how many distances beyond the tolerance are checked on each side
    Chunks,   \* number of root states
    ASel,     \* "all": every a in 0..M-1;  "dense": boundary-dense subset
    CoreDLt,  \* TRUE: OffsetAgreesCore also checks DependsOnDLt on every pair (FALSE: AllLemmas does, on the Heavy a's)
    Emit      \* TRUE: write the (d, lt) table and the replay cases (env C09_TABLE, C09_CASES)

VARIABLE a

H == M \div 2
ASSUME M % 2 = 0 /\ W >= 1 /\ 2 * W < M /\ Chunks >= 1 /\ Band >= 0

(* every b is enumerated when the band covers the whole ring *)
AllB == 2 * (W + Band) + 1 >= M

(* quick tier: a's around 0, around the wrap, around the antipode of 0, and around every multiple of 1024 *)
Dense ==
    { x \in (0..(2 * W + 150)) \cup ((M - 2 * W - 150)..(M - 1)) \cup ((H - W - 180)..(H + W + 180))
            \cup { k * 1024 + j : k \in 0..(M \div 1024), j \in -2..2 } : x >= 0 /\ x < M }

ChunkOf(c) ==
    IF ASel = "all" THEN { c + Chunks * i : i \in 0..((M - 1 - c) \div Chunks) }
    ELSE { x \in Dense : x % Chunks = c }

Init == a \in { -1 - c : c \in 0..(Chunks - 1) }
Next == a < 0 /\ a' \in ChunkOf(-1 - a)
Spec == Init /\ [][Next]_a

---------------------------------------------------------------------------
(* the b's paired with a: everything within tolerance + Band, and far ones *)
Ks == -(W + Band)..(W + Band)
Far(x) == {0, 1, W, W + 1, H - 1, H, H + 1, M - W - 1, M - W, M - 1}
          \cup { (x + H + j) % M : j \in -2..2 }
          \cup { (x + s * (H - W) + j) % M : s \in {-1, 1}, j \in -1..1 }

ForAllB(x, P(_, _)) ==
    IF AllB THEN \A b \in 0..(M - 1) : P(x, b)
    ELSE /\ \A k \in Ks : P(x, (x - k) % M)
         /\ \A b \in Far(x) : P(x, b)

Diag(name, x, b) ==
    Print(<<"LEMMA FAILS", name, [a |-> x, b |-> b, offset |-> Offset(x, b, M, W), offset_ba |-> Offset(b, x, M, W),
                                   dist |-> Dist(x, b, M)]>>, FALSE)

(* "... agree with true modular distance for every distance the configured windows allow": *)
(* the lemma proper, for the tolerance W the implementation is configured with              *)
P_Agrees(x, b)    == OffsetAgreesAt(x, b, M, W)          \/ Diag("OffsetAgrees", x, b)
(* what Offset is outside the tolerance: the plain integer difference a - b *)
P_Closed(x, b)    == OffsetClosedFormAt(x, b, M, W)      \/ Diag("ClosedForm", x, b)
(* Offset is a function of (a - b) % M and a < b: licenses the table *)
P_DLt(x, b)       == OffsetDependsOnDLtAt(x, b, M, W)    \/ Diag("DependsOnDLt", x, b)
P_Antisym(x, b)   == OffsetAntisymAt(x, b, M, W)       \/ Diag("Antisym", x, b)
P_Zero(x, b)      == OffsetZeroIffEqualAt(x, b, M, W)    \/ Diag("ZeroIffEqual", x, b)
(* "Ordering ... agree[s] with true modular distance" within the tolerance *)
P_Ord(x, b)       == OrdAgreesAt(x, b, M, W)             \/ Diag("OrdAgrees", x, b)
(* negative facts *)
P_Plain(x, b)     == OrdIsPlainBeyondAt(x, b, M, W)      \/ Diag("OrdIsPlainBeyond", x, b)
P_Inverted(x, b)  == OrdInvertedAcrossWrapAt(x, b, M, W) \/ Diag("OrdInvertedAcrossWrap", x, b)

OffsetAgrees          == a >= 0 => ForAllB(a, P_Agrees)
ClosedForm            == a >= 0 => ForAllB(a, P_Closed)
DependsOnDLt          == a >= 0 => ForAllB(a, P_DLt)
Antisym               == a >= 0 => ForAllB(a, P_Antisym)
ZeroIffEqual          == a >= 0 => ForAllB(a, P_Zero)
OrdAgrees             == a >= 0 => ForAllB(a, P_Ord)
OrdIsPlainBeyond      == a >= 0 => ForAllB(a, P_Plain)
OrdInvertedAcrossWrap == a >= 0 => ForAllB(a, P_Inverted)

(* OffsetAgrees + what Offset is outside the tolerance + the table licence in one pass, each *)
(* function evaluated once per pair: the invariant of the real instance over ALL a          *)
P_Core(x, b) ==
    LET o  == Offset(x, b, M, W)
        t  == Dist(x, b, M)
    IN  \/ /\ L_OffsetAgrees(o, t, W) /\ L_ClosedForm(x, b, o, t, W)
           /\ (CoreDLt => L_DependsOnDLt(o, OffsetRep((x - b) % M, x < b, M, W)))
        \/ Diag("OffsetAgrees/ClosedForm/DependsOnDLt", x, b)
OffsetAgreesCore == a >= 0 => ForAllB(a, P_Core)
(* the value form of the lemma is the lemma *)
P_Forms(x, b) == L_OffsetAgrees(Offset(x, b, M, W), Dist(x, b, M), W) <=> OffsetAgreesAt(x, b, M, W)
FormsCoincide == a >= 0 => ForAllB(a, P_Forms)

(* the same lemma bodies (SeqArith L_...) in one pass over the b's, each function evaluated *)
(* once per pair (real instance: the cost is the enumeration)                              *)
P_All(x, b) ==
    LET o  == Offset(x, b, M, W)
        o2 == Offset(b, x, M, W)
        t  == Dist(x, b, M)
        r  == OffsetRep((x - b) % M, x < b, M, W)
    IN  \/ /\ L_OffsetAgrees(o, t, W)
           /\ L_ClosedForm(x, b, o, t, W) /\ L_DependsOnDLt(o, r) /\ L_Antisym(o, o2)
           /\ L_ZeroIffEqual(x, b, o) /\ L_OrdAgrees(o, t, W)
           /\ L_OrdIsPlainBeyond(x, b, o, t, W) /\ L_OrdInvertedAcrossWrap(x, b, o, t, M, W)
        \/ Diag("AllLemmas", x, b)
(* real instance: on the a's within 100 of 0 / W / H-W / H / H+W / M-W (mod M); scaled: on every a *)
CDist(x, c) == LET d == (x - c) % M IN IF d > H THEN M - d ELSE d
Heavy(x) == AllB \/ \E c \in {0, W, H - W, H, H + W, M - W} : CDist(x, c) <= 100
AllLemmas == (a >= 0 /\ Heavy(a)) => ForAllB(a, P_All)

(* wrapping add / subtract and the offset back to the start *)
KsAdd == IF AllB THEN 0..(M - 1) ELSE {0, 1, 2, W - 1, W, W + 1, H, M - 1}
AddSubWrap ==
    a >= 0 => \A k \in KsAdd :
        /\ Add(a, k, M) \in 0..(M - 1) /\ SeqSubK(a, k, M) \in 0..(M - 1)
        /\ SeqSubK(Add(a, k, M), k, M) = a /\ Add(SeqSubK(a, k, M), k, M) = a
        /\ Dist(Add(a, k, M), a, M) = (IF k >= H THEN k - M ELSE k)
        /\ (AddThenOffsetAt(a, k, M, W) \/ Diag("AddThenOffset", a, k))

(* three numbers inside one window of W: the order is transitive (scaled instances only) *)
Transitive ==
    (a >= 0 /\ M <= 256) =>
        LET Win == { (a + k) % M : k \in (-W)..W } IN
        \A b \in Win, c \in Win : OrdTransitiveAt(a, b, c, M, W) \/ Diag("Transitive", b, c)

---------------------------------------------------------------------------
(* NEGATIVE fact as a witness: the pair with the smallest true distance on  *)
(* which the implementation's order contradicts the modular order.  By      *)
(* OrdAgrees no such pair has |Dist| <= W; there is one at |Dist| = W + 1:  *)
(* (a, b) = (0, M - W - 1): b is W + 1 BEHIND a, the code says a < b.       *)
(* This is the root of the known defect D8: a window of more than W         *)
(* packets breaks when it straddles the wrap.                               *)
WrongB(x) == { b \in { (x - (W + 1)) % M, (x + W + 1) % M } : OrdWrongAt(x, b, M, W) }
SmallestWrong ==
    LET x == CHOOSE v \in 0..(M - 1) : WrongB(v) # {} /\ \A u \in 0..(v - 1) : WrongB(u) = {}
        y == CHOOSE v \in WrongB(x) : \A u \in WrongB(x) : v <= u
    IN  [a |-> x, b |-> y, dist |-> Dist(x, y, M), offset |-> Offset(x, y, M, W),
         impl_says |-> IF Offset(x, y, M, W) < 0 THEN "a < b" ELSE "a > b",
         modular |-> IF Dist(x, y, M) < 0 THEN "a < b" ELSE "a > b", M |-> M, W |-> W]
NegativeWitness ==
    a = -1 =>
        LET s == SmallestWrong IN
        /\ s.a = 0 /\ s.b = M - W - 1
        /\ s.dist = W + 1 /\ s.offset = -(M - W - 1)
        /\ s.impl_says # s.modular
        /\ PrintT(<<"NEGATIVE", ToJson(s)>>)

---------------------------------------------------------------------------
(* spec -> impl: the complete function as a table over d = (a - b) % M and  *)
(* lt = (a < b); index d + 1 (JSON arrays: index d).                        *)
Table ==
    [M |-> M, W |-> W,
     ge |-> [i \in 1..M |-> OffsetRep(i - 1, FALSE, M, W)],
     lt |-> [i \in 1..M |-> OffsetRep(i - 1, TRUE, M, W)]]

(* ... and concrete cases on a boundary set, every tolerance of the record mode *)
BV == { x % M : x \in {0, 1, 2, W - 1, W, W + 1, W + 2, H - 1, H, H + 1, M - W - 2, M - W - 1, M - W, M - W + 1,
                       M - 2, M - 1, 12345, 40000, 54321, 64511} }
Tols == { t \in {0, 1, 2, 15, 16, 17, 1023, 1024, 1025, 32767, 32768, 65535} : t < M }
Cases ==
    { [op |-> "offset", a |-> x, b |-> y, w |-> t, exp |-> Offset(x, y, M, t)] : x \in BV, y \in BV, t \in Tols }
    \cup { [op |-> "sub", a |-> x, b |-> y, w |-> W, exp |-> Offset(x, y, M, W)] : x \in BV, y \in BV }
    \cup { [op |-> "cmp", a |-> x, b |-> y, w |-> W, exp |-> SeqCmp(x, y, M, W)] : x \in BV, y \in BV }
    \cup { [op |-> "add", a |-> x, b |-> k, w |-> W, exp |-> Add(x, k, M)] : x \in BV, k \in BV }
    \cup { [op |-> "subk", a |-> x, b |-> k, w |-> W, exp |-> SeqSubK(x, k, M)] : x \in BV, k \in BV }

EmitAll ==
    (a = -1 /\ Emit) =>
        /\ JsonSerialize(IOEnv.C09_TABLE, Table)
        /\ ndJsonSerialize(IOEnv.C09_CASES, SetToSeq(Cases))
        /\ PrintT(<<"EMITTED", M, W, Cardinality(Cases)>>)
=============================================================================
