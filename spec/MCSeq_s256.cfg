SPECIFICATION Spec
CONSTANTS
    M = 256
    W = 16
    Band = 256
    Chunks = 16
    ASel = "all"
    CoreDLt = TRUE
    Emit = FALSE
INVARIANTS
    OffsetAgrees
    ClosedForm
    DependsOnDLt
    Antisym
    ZeroIffEqual
    OrdAgrees
    OrdIsPlainBeyond
    OrdInvertedAcrossWrap
    OffsetAgreesCore
    FormsCoincide
    AllLemmas
    AddSubWrap
    Transitive
    NegativeWitness
CHECK_DEADLOCK FALSE
