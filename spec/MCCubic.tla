------------------------------ MODULE MCCubic ------------------------------
(***************************************************************************)
(* Bounded instance of the C15 contract (Cubic.tla).                       *)
(*                                                                         *)
(* TLC enumerates, breadth first to depth Depth, every call with every     *)
(* argument of the boundary-dense value sets below from every reachable    *)
(* state of the contract's witness machine (call sequences are folded by   *)
(* contract state: two histories that leave the contract in the same state *)
(* at the same depth are continued once).  For every transition it         *)
(*   - asserts that the witness answer breaks no rule (the clauses are     *)
(*     jointly satisfiable from every reachable state: Assert in Answer),  *)
(*   - checks the state-level consequences (Inv),                          *)
(*   - prints   <<"T", ToJson(<<from, calls, to>>)>>                       *)
(* The check (vlib/c15.py) rebuilds the graph from the T lines, picks the  *)
(* canonical (first in sorted breadth-first order) history of every state  *)
(* and turns every transition into the case  history(from) ++ calls.  As   *)
(* the contract is nondeterministic the cases are CALL SEQUENCES: the      *)
(* replay executes them on the real Cubic and the recorded answers are     *)
(* judged by CubicTrace with the same rule operators.                      *)
(*                                                                         *)
(* Calls are printed compactly:                                            *)
(*   <<"n", mss>>  <<"m", mss>>  <<"w", win>>  <<"a", dt, len, rtt>>       *)
(*   <<"t", dt>>  <<"e", dt>>  <<"r", cwnd, ssthresh>>                     *)
(* dt / rtt are indices into  0, 1 ms, 50 ms, 10 s, 1 h  /  0, 1 ns,       *)
(* 50 ms, 1 h  (the clock advance before the call; the round-trip time     *)
(* sampled into a fresh estimator handed to on_ack).  set_mss is always    *)
(* issued as the pair set_mss; set_remote_window, as the connection does.  *)
(*                                                                         *)
(* The tier comes from the environment (one cfg): C15_TIER=quick: depth 4, *)
(* a diagonal of 7 (dt, rtt) pairs; thorough: depth 6, all 20 pairs in the *)
(* first four steps and a reduced alphabet (Deep) in steps five and six.   *)
(***************************************************************************)
EXTENDS Cubic, TLC, Json, IOUtils

Tier  == IF "C15_TIER" \in DOMAIN IOEnv THEN IOEnv.C15_TIER ELSE "quick"
Thorough == Tier = "thorough"
Depth == IF "C15_DEPTH" \in DOMAIN IOEnv THEN atoi(IOEnv.C15_DEPTH)
         ELSE IF Thorough THEN 6 ELSE 4
(* Steps 1..FullDepth use the full alphabet of the tier, later steps (thorough *)
(* only) the Deep one, which keeps the zero / tiny / huge corners.             *)
FullDepth == 4

Big == 1073741824        \* 2^30
MssSet == {1, 5, 528, 1452, 9000}
DtIdx  == 1..5           \* 0, 1 ms, 50 ms, 10 s, 1 h
RttIdx == 1..4           \* 0, 1 ns, 50 ms, 1 h
Diagonal == {<<1, 1>>, <<2, 2>>, <<3, 3>>, <<4, 3>>, <<5, 4>>, <<1, 4>>, <<5, 1>>}

Acked(m, deep)  == {0, 1, m, 10 * m, Big}
Wins(m, deep)   == {0, 1, m - 1, 2 * m, Big}
PairWins(m, deep) == IF deep THEN {1, Big} ELSE Wins(m, deep)
RecC(m, deep)   == IF deep THEN {3 * m, Big} ELSE {0, 3 * m, Big}
RecS(m, deep)   == IF deep THEN {0, 4 * m} ELSE {0, 4 * m, Big}
AckTimes(deep)  == IF deep THEN {<<3, 3>>, <<5, 1>>} ELSE IF Thorough THEN DtIdx \X RttIdx ELSE Diagonal
RtoDts(deep)    == IF ~deep /\ Thorough THEN {1, 3} ELSE {1}
ErDts(deep)     == IF deep THEN {3} ELSE IF Thorough THEN DtIdx ELSE {1, 3}

VARIABLES st, depth
vars == <<st, depth>>

CallRec(t) ==
    CASE t[1] = "n" -> [op |-> "new", mss |-> t[2]]
      [] t[1] = "m" -> [op |-> "set_mss", mss |-> t[2]]
      [] t[1] = "w" -> [op |-> "set_rwnd", win |-> t[2]]
      [] t[1] = "a" -> [op |-> "ack", len |-> t[3]]
      [] t[1] = "t" -> [op |-> "rto"]
      [] t[1] = "e" -> [op |-> "enter_recovery"]
      [] t[1] = "r" -> [op |-> "recovered", cwnd |-> t[2], ssthresh |-> t[3]]

(* The states after call t answered by any witness; a witness that breaks  *)
(* a rule is an inconsistency of the contract.                             *)
Answer(s0, t) ==
    LET c == CallRec(t) IN
    { Post(s0, c, o) : o \in { x \in Ref(s0, c) :
        Assert(StepOK(s0, c, x), <<"contract inconsistent", s0, c, x, Broken(Rules(s0, c, x))>>) } }

After(s0, cs) ==
    IF Len(cs) = 1 THEN Answer(s0, cs[1])
    ELSE UNION { Answer(s1, cs[2]) : s1 \in Answer(s0, cs[1]) }

Key(s, d) == <<d, s.mss, s.rw, IF s.stale THEN 1 ELSE 0, s.pu, s.po, s.w, s.u, s.s>>

Emit(from, cs, to) == PrintT(<<"T", ToJson(<<from, cs, to>>)>>)

Init ==
    /\ depth = 0
    /\ \E m \in MssSet : \E s1 \in After(St0, << <<"n", m>> >>) :
          /\ st = s1
          /\ Emit(<<"root">>, << <<"n", m>> >>, Key(s1, 0))

Step(cs) ==
    /\ depth < Depth
    /\ depth' = depth + 1
    /\ \E s1 \in After(st, cs) :
          /\ st' = s1
          /\ Emit(Key(st, depth), cs, Key(s1, depth + 1))

Deep == depth >= FullDepth
SetRwnd       == \E W \in Wins(st.mss, Deep) : Step(<< <<"w", W>> >>)
SetMssPair    == \E m \in MssSet : \E W \in PairWins(m, Deep) : Step(<< <<"m", m>>, <<"w", W>> >>)
Ack           == \E p \in AckTimes(Deep) : \E len \in Acked(st.mss, Deep) : Step(<< <<"a", p[1], len, p[2]>> >>)
Rto           == \E d \in RtoDts(Deep) : Step(<< <<"t", d>> >>)
EnterRecovery == \E d \in ErDts(Deep) : Step(<< <<"e", d>> >>)
Recovered     == \E c \in RecC(st.mss, Deep) : \E s \in RecS(st.mss, Deep) : Step(<< <<"r", c, s>> >>)

Next == SetRwnd \/ SetMssPair \/ Ack \/ Rto \/ EnterRecovery \/ Recovered
Spec == Init /\ [][Next]_vars

(* State-level consequences of the rules (Cubic.tla).                      *)
Inv == StateClamp(st) /\ StateFinite(st) /\ StateFloor(st)

TypeOK ==
    /\ depth \in 0..Depth
    /\ st.mss \in MssSet /\ st.rw \in 0..Big /\ st.w \in 0..Big /\ st.u \in 0..Big /\ st.s \in 0..Huge
=============================================================================
