--------------------------- MODULE SegmentsTrace ---------------------------
(***************************************************************************)
(* Trace specification for the sender's segment queue: judges calls        *)
(* recorded from the real `Segments` (unit/src/bin/unit_segs.rs, record    *)
(* and script modes).  One step per line.  The step advances the           *)
(* specification's own state `st` with the SAME operators as Segments.tla  *)
(* (Apply) and *evaluates* the clauses (Rules) on the recorded values:     *)
(*   C01.SegTiling  C01.PopRestores                                        *)
(*   C06.NoDeliveredYielded  C06.SeqIsQueuePosition  C06.SegStableInQueue  *)
(*   C06.DeliveredProbeNeverPopped  C06.UnsentProbeNotExpired              *)
(*   C06.AckRemovesExactly  C06.SackBitMapping                             *)
(*   C14.ProbeIsNewest  (runs that keep the dispatcher's discipline only)  *)
(*   Segs.ObsAgrees  (every observable and return value = the              *)
(*   specification's)   Segs.NoPanic                                       *)
(* The names with a second dot are coverage markers (which branch of a     *)
(* rule a line exercised); they are never violated.                        *)
(*                                                                         *)
(* A line: {"op": op, "disc": 0|1, "ret": ret, "obs": obs, "panic": p}     *)
(*   op    the call as in Segments.tla; <<"n", una>> starts a run on a     *)
(*         fresh object                                                    *)
(*   ret   what the call returned, obs the observables after it (formats   *)
(*         of Segments.tla: Apply(..).ret, Obs)                            *)
(*   p     "" or where the code panicked: "op" (the call; ret is empty,    *)
(*         obs repeats the previous one) or "obs" (reading the             *)
(*         observables); a run ends with its panic line                    *)
(* viol accumulates <<line, rule, context>> (context = the call, "+u" for  *)
(* a run that does not keep the discipline), cov counts how often each     *)
(* rule was applicable.  After the first line of a run whose observables   *)
(* differ from the specification's (or that panicked) the specification's  *)
(* state no longer mirrors the object: the rest of the run is consequence  *)
(* and is skipped (all rules broken on that first line are reported).      *)
(* Report prints the verdict in the state after the last line;             *)
(* TraceAccepted checks that every line was consumed.                      *)
(***************************************************************************)
EXTENDS Segments, TLC, TLCExt, Json, IOUtils

Rec == ndJsonDeserialize(IOEnv.TRACE)
N == Len(Rec)

VARIABLES
    l,      \* next line
    runs,   \* runs started
    st,     \* the specification's state of the current run
    prev,   \* the observation recorded on the preceding line of the run
    hole,   \* absolute offset of the probe taken back by the last pop (-1 once something was enqueued again)
    bad,    \* a line of this run showed other observables than the specification's (or panicked): the
            \* specification no longer mirrors the object, the rest of the run is consequence and is not judged
    viol, cov
vars == <<l, runs, st, prev, hole, bad, viol, cov>>

Init ==
    /\ l = 1 /\ runs = 0
    /\ st = StNew(0) /\ prev = Obs(StNew(0)) /\ hole = -1 /\ bad = FALSE
    /\ viol = {} /\ cov = [r \in RuleNames |-> 0]

OpName(k) ==
    CASE k = "n" -> "new" [] k = "e" -> "enqueue" [] k = "s" -> "send" [] k = "a" -> "ack"
      [] k = "p" -> "pop" [] k = "x" -> "pop_expired" [] k = "c" -> "pipe" [] OTHER -> k

Judge(rs, ctx, fresh, diverged) ==
    /\ viol' = IF Cardinality(viol) >= 60 THEN viol
               ELSE viol \cup { <<l, b, ctx>> : b \in Broken(rs) }
    /\ cov' = LET c == Covered(rs) IN [x \in RuleNames |-> cov[x] + IF x \in c THEN 1 ELSE 0]
    /\ bad' = ((~fresh /\ bad) \/ diverged)

NewLine(r) ==
    \E s0 \in {StNew(r.op[2])} :
        /\ st' = s0
        /\ runs' = runs + 1
        /\ prev' = (IF r.panic = "" THEN r.obs ELSE Obs(s0))
        /\ hole' = -1
        /\ Judge({ <<"Segs.NoPanic", TRUE, r.panic = "">>,
                   <<"Segs.ObsAgrees", r.panic = "", r.obs = Obs(s0)>> }, "new", TRUE, r.panic # "" \/ r.obs # Obs(s0))

CallLine(r) ==
    \E a \in {Apply(st, r.op)} : \E e \in {Obs(a.st)} :
        /\ st' = a.st
        /\ UNCHANGED runs
        /\ prev' = (IF r.panic = "" THEN r.obs ELSE prev)
        /\ hole' = HoleAfter(st, hole, r.op)
        /\ Judge(RulesX(st, [prev |-> prev, hole |-> hole, disc |-> r.disc = 1], r.op,
                        [ret |-> r.ret, obs |-> r.obs, panic |-> r.panic], a, e),
                 OpName(r.op[1]) \o (IF r.disc = 1 THEN "" ELSE "+u"), FALSE, r.panic # "" \/ r.obs # e)

(* the rest of a run after its first broken rule *)
SkipLine == UNCHANGED <<runs, st, prev, hole, bad, viol, cov>>

Next ==
    /\ l <= N
    /\ l' = l + 1
    /\ LET r == Rec[l] IN IF r.op[1] = "n" THEN NewLine(r) ELSE IF bad THEN SkipLine ELSE CallLine(r)

Spec == Init /\ [][Next]_vars

Report ==
    (l = N + 1) =>
        PrintT(<<"VERDICT", ToJson([lines |-> N, runs |-> runs,
                                    viol |-> { [line |-> v[1], rule |-> v[2], ctx |-> v[3], ep |-> ""] : v \in viol },
                                    cov |-> cov])>>)

TraceAccepted ==
    LET d == TLCGet("stats").diameter IN
    IF d - 1 = N THEN TRUE
    ELSE Print(<<"TRACE NOT ACCEPTED: consumed", d - 1, "of", N>>, FALSE)
=============================================================================
