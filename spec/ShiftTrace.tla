------------------------------ MODULE ShiftTrace ------------------------------
(***************************************************************************)
(* C09, metamorphic part: "the packet trace of a run started near the wrap *)
(* equals the trace of the same run started at a small number with every   *)
(* sequence/ack number shifted".                                           *)
(*                                                                         *)
(* Input: an ND-JSON file in which line i pairs the i-th datagram of run 1 *)
(* with the i-th datagram of run 2 of the same script (same seed, same     *)
(* fault schedule), the two runs differing only in the values returned by  *)
(* the environment's random_u16 (initial sequence numbers and connection   *)
(* ids).  Each side of a line carries the raw header bytes, the time, the  *)
(* direction, the payload projection and the run's base values.  The spec  *)
(* parses the headers with Wire.tla and compares them after subtracting    *)
(* each run's own initial values, modulo 2^16 (SeqArith!Dist).             *)
(***************************************************************************)
EXTENDS Integers, Sequences, FiniteSets, Wire, SeqArith, TLC, Json, IOUtils

Rec == ndJsonDeserialize(IOEnv.TRACE)
N == Len(Rec)
M == 65536

VARIABLES l, viol, cov
vars == <<l, viol, cov>>

Rel(x, base) == (x - base) % M

\* the sender's initial sequence number is the base of seq_nr, the receiver's of ack_nr
Norm(s) ==
    LET h == ParseHeader(s.hdr) IN
    IF ~h.ok THEN [ok |-> FALSE]
    ELSE [ok |-> TRUE, type |-> h.type, dir |-> s.dir, t |-> s.t, len |-> s.len, runs |-> s.runs, fate |-> s.fate,
          cid |-> Rel(h.cid, s.cid_base),
          seq |-> Rel(h.seq, IF s.dir = "ab" THEN s.isn_a ELSE s.isn_b),
          \* the SYN carries no meaningful ack_nr
          ack |-> IF h.type = ST_SYN THEN 0 ELSE Rel(h.ack, IF s.dir = "ab" THEN s.isn_b ELSE s.isn_a),
          wnd |-> h.wndhl,
          sack |-> SackBytes(h)]

Init == l = 1 /\ viol = {} /\ cov = [r \in {"C09.ShiftEqual", "C09.SameLength"} |-> 0]

Next ==
    /\ l <= N /\ l' = l + 1
    /\ LET r == Rec[l] IN
       IF r.ev = "pair"
       THEN LET a == Norm(r.a) b == Norm(r.b) IN
            /\ viol' = IF a = b \/ Cardinality(viol) >= 10 THEN viol ELSE viol \cup {<<l, "C09.ShiftEqual", r.script>>}
            /\ cov' = [cov EXCEPT !["C09.ShiftEqual"] = @ + 1]
       ELSE IF r.ev = "count"
       THEN /\ viol' = IF r.na = r.nb THEN viol ELSE viol \cup {<<l, "C09.SameLength", r.script>>}
            /\ cov' = [cov EXCEPT !["C09.SameLength"] = @ + 1]
       ELSE UNCHANGED <<viol, cov>>

Spec == Init /\ [][Next]_vars

Report ==
    (l = N + 1) =>
        PrintT(<<"VERDICT", ToJson([lines |-> N, runs |-> 1,
                                    viol |-> { [line |-> v[1], rule |-> v[2], ep |-> v[3], ctx |-> ""] : v \in viol },
                                    cov |-> cov])>>)
TraceAccepted ==
    LET d == TLCGet("stats").diameter IN
    IF d - 1 = N THEN TRUE ELSE Print(<<"TRACE NOT ACCEPTED: consumed", d - 1, "of", N>>, FALSE)
=============================================================================
