------------------------------ MODULE MCRtte ------------------------------
(***************************************************************************)
(* Bounded instance of Rtte for TLC: every sequence of sample / timeout    *)
(* calls up to a depth over a boundary-dense set of samples, started from  *)
(* the fresh estimator and from estimators warmed up by scripted prefixes  *)
(* (computed with the same operators and replayed on the implementation    *)
(* as cases of their own).  TLC checks the invariants of Rtte and emits,   *)
(* for every distinct state at the emission depths, the witnessing call    *)
(* sequence together with the specification's (rto, srtt) after every      *)
(* call, for exact-equality replay on the real RttEstimator.               *)
(*                                                                         *)
(* The history is hidden from the fingerprint (VIEW), so two sequences     *)
(* that reach the same estimator state at the same depth are explored      *)
(* once.                                                                   *)
(*                                                                         *)
(* Parameters come from the environment (defaults in brackets):            *)
(*   RTTE_DEPTH  [5]   exploration depth from the fresh estimator          *)
(*   RTTE_WDEPTH [3]   exploration depth from the warmed-up estimators     *)
(*   RTTE_FULL   [5]   every distinct state at this depth is emitted       *)
(*   RTTE_STRIDE [1], RTTE_OFFSET [0]   at the maximal depth from the      *)
(*                     fresh estimator one state in STRIDE is emitted (all *)
(*                     of them from the warmed-up estimators)              *)
(*   RTTE_LEAFCUT [0]  1: states at the maximal depth are generated and    *)
(*                     checked (invariants, step property, emission) but   *)
(*                     neither fingerprinted nor queued (CONSTRAINT        *)
(*                     LeafCut); they have no successors anyway.  Saves    *)
(*                     the frontier of the deep instance (92% of states).  *)
(*   RTTE_INIT_MS, RTTE_INIT_NS [300, 0]  the timeout before the first     *)
(*                     sample, which the property leaves open              *)
(***************************************************************************)
EXTENDS Rtte, TLC, Json, IOUtils

EnvInt(name, default) == IF name \in DOMAIN IOEnv THEN atoi(IOEnv[name]) ELSE default

MaxDepth  == EnvInt("RTTE_DEPTH", 5)
WarmDepth == EnvInt("RTTE_WDEPTH", 3)
FullDepth == EnvInt("RTTE_FULL", 5)
Stride    == EnvInt("RTTE_STRIDE", 1)
Offset    == EnvInt("RTTE_OFFSET", 0)

LeafCutOn == EnvInt("RTTE_LEAFCUT", 0) = 1

MCInitialRto == <<EnvInt("RTTE_INIT_MS", 300), EnvInt("RTTE_INIT_NS", 0)>>

\* {0, 1 ns, 999 ns, 1 us, 10 ms, 200 ms, 1 s, 59.9 s, 60 s, 61 s, 1 h, 3 h}
SampleSeq == << <<0, 0>>, <<0, 1>>, <<0, 999>>, <<0, 1000>>, <<10, 0>>, <<200, 0>>, <<1000, 0>>,
                <<59900, 0>>, <<60000, 0>>, <<61000, 0>>, <<3600000, 0>>, <<10800000, 0>> >>
MCSamples == { SampleSeq[i] : i \in DOMAIN SampleSeq }

(* Warm-up prefixes: sequences of calls <<op, arg>> (op 1 = sample, 2 = timeout).  They put the
   estimator into regimes that cannot be reached within a few calls from the fresh estimator:
   a variance decayed below a quarter of the clock granularity with a timeout above 200 ms (the
   "at least the clock granularity" branch visible), the same one nanosecond below the cap, and a
   timeout backed off from 205 ms to the cap. *)
Rep(k, x) == [i \in 1..k |-> x]
Warmups == <<
    << >>,                                                          \* 1: the fresh estimator
    Rep(24, <<1, <<1000, 0>> >>),                                   \* 2: steady 1 s: rto = srtt + 10 ms
    Rep(40, <<1, <<59989, 999999>> >>),                             \* 3: rto = 59.999999999 s
    Rep(22, <<1, <<195, 0>> >>) \o Rep(9, <<2, Zero>>)              \* 4: rto 205 ms backed off to 60 s
>>

---------------------------------------------------------------------------
VARIABLES
    wi,     \* number of the warm-up prefix of this behaviour
    wq,     \* calls of the warm-up prefix still to be made (the exploration starts when it is empty)
    n,      \* calls made after the warm-up prefix
    hist    \* <<op, arg ms, arg ns, rto ms, rto ns, srtt ms, srtt ns>> per call; srtt is <<-1, 0>>
            \* ("not specified") before the first sample.  op: 0 fresh estimator, 1 sample, 2 timeout,
            \* 3 start from the state stored under number arg ms, 4 store the state under number arg ms

mcvars == <<st, wi, wq, n, hist>>
View   == <<st, wi, Len(wq), n>>

Entry(op, a, s) ==
    <<op, a[1], a[2], s.rto[1], s.rto[2],
      IF s.phase = "initial" THEN -1 ELSE s.srtt[1], IF s.phase = "initial" THEN 0 ELSE s.srtt[2]>>

MCInit ==
    /\ Init
    /\ wi \in DOMAIN Warmups
    /\ wq = Warmups[wi]
    /\ n = 0
    /\ hist = <<Entry(0, Zero, StInit(InitialRto))>>

(* One call of the warm-up prefix.  The prefix is a case of its own (fresh estimator, the calls,
   "store under number wi"); the explored sequences then start from "the state stored under wi". *)
WarmStep ==
    /\ wq # << >>
    /\ LET c == Head(wq) IN
        /\ (IF c[1] = 1 THEN Sample(c[2]) ELSE Timeout)
        /\ hist' = Append(hist, Entry(c[1], c[2], st'))
    /\ wq' = Tail(wq)
    /\ UNCHANGED <<wi, n>>

Warming   == wq # << >>
DepthHere == IF wi = 1 THEN MaxDepth ELSE WarmDepth
FullHere  == IF FullDepth < DepthHere THEN FullDepth ELSE DepthHere

(* the history of an explored sequence restarts at the end of the warm-up *)
Base == IF n = 0 THEN <<Entry(3, <<wi, 0>>, st)>> ELSE hist

MCSample(i) ==
    /\ ~Warming /\ n < DepthHere
    /\ Sample(SampleSeq[i])
    /\ n' = n + 1
    /\ hist' = Append(Base, Entry(1, SampleSeq[i], st'))
    /\ UNCHANGED <<wi, wq>>

MCTimeout ==
    /\ ~Warming /\ n < DepthHere
    /\ Timeout
    /\ n' = n + 1
    /\ hist' = Append(Base, Entry(2, Zero, st'))
    /\ UNCHANGED <<wi, wq>>

MCNext == WarmStep \/ (\E i \in DOMAIN SampleSeq : MCSample(i)) \/ MCTimeout
MCSpec == MCInit /\ [][MCNext]_mcvars

(* TLC checks invariants and step properties on a state that fails a CONSTRAINT, but does not
   fingerprint or queue it. *)
LeafCut == ~LeafCutOn \/ n < DepthHere

---------------------------------------------------------------------------
(* Case emission: evaluated once per distinct state (by View).  The whole line is one string so
   that TLC's pretty-printer does not break it.
   Hash: of the estimator state (not of the witness, which may differ from run to run with several
   workers), so that the set of emitted states is the same in every run. *)
Hash == (st.srtt[1] * 7 + st.srtt[2] + st.rttvar[1] * 13 + st.rttvar[2] * 3 + st.rto[1] + st.rto[2] + st.k) % Stride

Emit ==
    /\ ((~Warming /\ n = 0) => PrintT("CASE " \o ToJson(Append(hist, Entry(4, <<wi, 0>>, st)))))
    /\ ((n > 0 /\ (n = FullHere \/ (n = DepthHere /\ (wi > 1 \/ Hash = Offset))))
            => PrintT("CASE " \o ToJson(hist)))
=============================================================================
