SPECIFICATION LiveSpec
CONSTANTS
  Writers = {"A"}
  MaxData = 1
  MaxSynAck = 2
  MaxFinTx = 2
  MaxRetx = 0
  LossBudget = 1
  DupBudget = 0
  Variant = "no_finwait2_timeout"
INVARIANTS TypeOK
PROPERTY Termination
CHECK_DEADLOCK FALSE
