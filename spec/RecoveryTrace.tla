--------------------------- MODULE RecoveryTrace ---------------------------
(***************************************************************************)
(* Trace specification for the loss-recovery state machine: judges calls   *)
(* recorded from the real `Recovery` / `Segments` / `Cubic`                *)
(* (unit/src/bin/unit_recov.rs, record and script modes).  One step per    *)
(* line.  The step advances the specification's own state `st` with the    *)
(* SAME operators as Recovery.tla (Apply) and *evaluates* the clauses      *)
(* (RulesX) on the recorded values:                                        *)
(*   C06.FastRetxEnters   C06.NoSpuriousEntry   C06.NoEntryDuringRto       *)
(*   C06.RecoveryPoint    C06.ExitsOnFullAck    C06.OnlyLostRetransmitted  *)
(*   Recov.ObsAgrees (every observable = the specification's)              *)
(*   Recov.NoPanic                                                         *)
(* The names with a second dot are coverage markers / observations; they   *)
(* are never violated.                                                     *)
(*                                                                         *)
(* A line: {"op", "ans", "rtx", "obs", "aux", "dbg", "panic", "msg"}       *)
(*   op    the call as in Recovery.tla; <<"n", una, nq, ns>> starts a run  *)
(*         on fresh objects                                                *)
(*   ans, obs   formats of Recovery.tla (Apply(..).ans, Obs); rtx: what a  *)
(*         recovery pass retransmitted; aux: <<cwnd() is Some,             *)
(*         remaining_cwnd() is Some>>; dbg is not judged                   *)
(*   panic "" or where the code panicked ("op": the call, "obs": reading   *)
(*         the observables); a run ends with its panic line                *)
(* viol accumulates <<line, rule, context>> (the first line of every rule  *)
(* @ context); context = call @ mode of the specification before the call *)
(* ("open", "rec", "rto").                                                 *)
(* After the first line of a run whose observables differ from the         *)
(* specification's (or that panicked) the specification no longer mirrors  *)
(* the objects: the rest of the run is consequence and is skipped (all     *)
(* rules broken on that first line are reported).                          *)
(***************************************************************************)
EXTENDS Recovery, TLC, TLCExt, Json, IOUtils

Rec == ndJsonDeserialize(IOEnv.TRACE)
N == Len(Rec)

VARIABLES
    l,      \* next line
    runs,   \* runs started
    st,     \* the specification's state of the current run
    pv,     \* <<is_recovering, recovery point>> recorded on the preceding line of the run
    bad,    \* a line of this run disagreed with the specification (or panicked): the rest is not judged
    viol, cov
vars == <<l, runs, st, pv, bad, viol, cov>>

Init ==
    /\ l = 1 /\ runs = 0
    /\ st = StNew(0) /\ pv = <<0, -1>> /\ bad = FALSE
    /\ viol = {} /\ cov = [r \in RuleNames |-> 0]

OpName(k) ==
    CASE k = "n" -> "new" [] k = "q" -> "enqueue" [] k = "d" -> "send" [] k = "a" -> "ack"
      [] k = "t" -> "rto" [] k = "x" -> "retx" [] OTHER -> k

Judge(rs, ctx, fresh, diverged) ==
    /\ viol' = IF Cardinality(viol) >= 200 THEN viol
               ELSE viol \cup { <<l, b, ctx>> : b \in { x \in Broken(rs) : ~\E v \in viol : v[2] = x /\ v[3] = ctx } }
    /\ cov' = LET c == Covered(rs) IN [x \in RuleNames |-> cov[x] + IF x \in c THEN 1 ELSE 0]
    /\ bad' = ((~fresh /\ bad) \/ diverged)

Answer(r) == [ans |-> r.ans, rtx |-> r.rtx, obs |-> r.obs, aux |-> r.aux, panic |-> r.panic]

NewLine(r) ==
    \E s0 \in {Fresh(r.op)} : \E e \in {Obs(s0)} :
        /\ st' = s0
        /\ runs' = runs + 1
        /\ pv' = <<0, -1>>
        /\ Judge({ <<"Recov.NoPanic", TRUE, r.panic = "">>,
                   <<"Recov.ObsAgrees", r.panic = "", r.obs = e /\ r.ans = Ans(s0, 0, 0, -1) /\ r.aux = <<0, 0>>>> },
                 "new", TRUE, r.panic # "" \/ r.obs # e \/ r.ans # Ans(s0, 0, 0, -1))

CallLine(r) ==
    \E a \in {Apply(st, r.op)} : \E e \in {Obs(a.st)} :
        /\ st' = a.st
        /\ UNCHANGED runs
        /\ pv' = (IF r.panic = "" THEN <<r.ans[1], r.ans[2]>> ELSE pv)
        /\ Judge(RulesX(st, pv, r.op, Answer(r), a, e),
                 OpName(r.op[1]) \o "@" \o ModeCtx(st), FALSE,
                 r.panic # "" \/ r.obs # e \/ r.ans # a.ans)

(* the rest of a run after its first broken line *)
SkipLine == UNCHANGED <<runs, st, pv, bad, viol, cov>>

Next ==
    /\ l <= N
    /\ l' = l + 1
    /\ LET r == Rec[l] IN IF r.op[1] = "n" THEN NewLine(r) ELSE IF bad THEN SkipLine ELSE CallLine(r)

Spec == Init /\ [][Next]_vars

Report ==
    (l = N + 1) =>
        PrintT(<<"VERDICT", ToJson([lines |-> N, runs |-> runs,
                                    viol |-> { [line |-> v[1], rule |-> v[2], ctx |-> v[3], ep |-> ""] : v \in viol },
                                    cov |-> cov])>>)

TraceAccepted ==
    LET d == TLCGet("stats").diameter IN
    IF d - 1 = N THEN TRUE
    ELSE Print(<<"TRACE NOT ACCEPTED: consumed", d - 1, "of", N>>, FALSE)
=============================================================================
