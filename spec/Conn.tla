-------------------------------- MODULE Conn --------------------------------
(***************************************************************************)
(* The connection state machine of property C17 ("Handshake and teardown   *)
(* follow the uTP state machine on the wire"), as a pure relation: the     *)
(* states of docs/states.dot, the packet as the endpoint classifies it,    *)
(* and for every (state, packet) the set of states the property allows     *)
(* afterwards.  Shared by the bounded model MCClose.tla (which runs two    *)
(* such endpoints over a faulty network) and by the trace specification    *)
(* UtpTrace.tla (rule C17.Transition: every state change the real          *)
(* connection task makes on a packet is one this relation allows).         *)
(***************************************************************************)
EXTENDS Integers, FiniteSets

States == {"syn-received", "syn-ack-sent", "established", "fin-wait-1", "fin-wait-2", "last-ack", "closed"}
Types == {"data", "state", "fin", "reset", "syn"}

\* A packet as the receiving endpoint classifies it:
\*   ackSyn   its ack_nr acknowledges our SYN-ACK (ack_nr = our seq_nr - 1)
\*   ackFin   its ack_nr acknowledges our FIN
\*   seqNext  its seq_nr is the one following the last sequence number taken in order
Pkt(t, ackSyn, ackFin, seqNext) == [t |-> t, ackSyn |-> ackSyn, ackFin |-> ackFin, seqNext |-> seqNext]
Pkts == [t : Types, ackSyn : BOOLEAN, ackFin : BOOLEAN, seqNext : BOOLEAN]

\* docs/states.dot
Edges == { <<"syn-received", "syn-ack-sent">>, <<"syn-ack-sent", "established">>, <<"syn-ack-sent", "closed">>,
           <<"established", "fin-wait-1">>, <<"fin-wait-1", "fin-wait-2">>, <<"fin-wait-1", "last-ack">>,
           <<"fin-wait-1", "closed">>, <<"fin-wait-2", "closed">>, <<"established", "last-ack">>,
           <<"last-ack", "closed">> }

(***************************************************************************)
(* Allowed(st, p): the states the property allows after taking p in st.    *)
(*   "a RESET aborts the connection at once"                               *)
(*   "until the initiator's first packet arrives" (syn-ack-sent leaves on  *)
(*    a packet acknowledging the SYN-ACK, or on a FIN)                     *)
(*   "A peer's FIN is honoured only in sequence, is acknowledged and       *)
(*    answered with the endpoint's own FIN" (established -> last-ack)      *)
(*   fin-wait-1: our FIN acknowledged -> fin-wait-2; the peer's FIN in     *)
(*    sequence -> closed if it also acknowledges ours, else last-ack       *)
(*   (some clients acknowledge a FIN with an ST_STATE carrying the next    *)
(*    sequence number instead of a FIN; treating that as the FIN is        *)
(*    allowed, not required)                                               *)
(***************************************************************************)
Allowed(st, p) ==
    CASE p.t = "reset" -> {"closed"}
      [] p.t = "syn" -> {st}
      [] st = "syn-ack-sent" ->
            IF p.t = "fin" THEN (IF p.seqNext THEN {"closed"} ELSE {st})     \* (a FIN that overtook the first data waits)
            ELSE IF p.ackSyn THEN {"established"} ELSE {st}
      [] st = "established" ->
            IF p.t = "fin" /\ p.seqNext THEN {"last-ack"} ELSE {st}
      [] st = "fin-wait-1" ->
            IF p.t = "fin"
            THEN (IF ~p.seqNext THEN {st} ELSE IF p.ackFin THEN {"closed"} ELSE {"last-ack"})
            ELSE IF p.ackFin
                 THEN (IF p.t = "state" /\ p.seqNext THEN {"fin-wait-2", "closed"} ELSE {"fin-wait-2"})
                 ELSE {st}
      [] st = "fin-wait-2" ->
            IF p.t = "fin" /\ p.seqNext THEN {"closed"} ELSE {st}
      [] st = "last-ack" ->
            IF p.ackFin THEN {"closed"} ELSE {st}
      [] OTHER -> {st}

\* the pinned implementation's choice where the property leaves one
Impl(st, p) ==
    CASE st = "fin-wait-1" /\ p.t = "state" /\ p.ackFin /\ p.seqNext -> "closed"
      [] OTHER -> CHOOSE s \in Allowed(st, p) : TRUE

\* the peer's FIN is taken in (end of stream enters the reassembly queue) exactly on these transitions
TakesFin(st, p) ==
    /\ p.t = "fin"
    /\ st \in {"syn-ack-sent", "established", "fin-wait-1", "fin-wait-2"} /\ p.seqNext

\* what the endpoint may do on its own between packets (timers, application)
Local(st) ==
    CASE st = "syn-received" -> {"syn-ack-sent"}
      [] st = "established" -> {"fin-wait-1"}
      [] OTHER -> {}

\* states reachable from a set by local steps (for an observation made at the end of a poll)
LocalClosure(S) == S \cup UNION { Local(s) : s \in S } \cup UNION { Local(t) : t \in UNION { Local(s) : s \in S } }

\* sanity (checked by TLC in MCClose): every packet-driven change follows an edge of the documented graph
FollowsGraph == \A st \in States, p \in Pkts : \A s2 \in Allowed(st, p) :
                    s2 = st \/ <<st, s2>> \in Edges \/ (p.t = "reset" /\ s2 = "closed")
ImplAllowed == \A st \in States, p \in Pkts : Impl(st, p) \in Allowed(st, p)
=============================================================================
