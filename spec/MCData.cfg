SPECIFICATION Spec
CONSTANTS
    SeqMod = 16
    MaxWrite = 3
    MaxSeg = 2
    RxBuf = 2
    NetCap = 2
    DropBudget = 1
    DupBudget = 1
    MaxRetx = 1
    BothWays = FALSE
    Isns = {15}
    Mutant = "none"
VIEW View
INVARIANTS ReadIsPrefix StoredMatchesSent WithinBuffer AckNeverOverstates FlightSane TxBounded
CHECK_DEADLOCK FALSE
