SPECIFICATION Spec
CONSTANT SeqMod = 65536
INVARIANT Report
POSTCONDITION TraceAccepted
CHECK_DEADLOCK FALSE
