SPECIFICATION Spec
CONSTANTS Depth = 2
INVARIANT Emit
PROPERTY OnGraph
CHECK_DEADLOCK FALSE
