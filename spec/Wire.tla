------------------------------- MODULE Wire -------------------------------
(***************************************************************************)
(* BEP-29 datagram grammar over sequences of bytes (naturals 0..255,       *)
(* 1-based).  This module is the parser of record for every datagram in    *)
(* every trace (the harness logs raw header bytes; nothing the library's   *)
(* own codec computes is trusted) and the reference for property C11.      *)
(*                                                                         *)
(* 32-bit fields are kept as two 16-bit halves because TLC integers are    *)
(* 32-bit; Wnd() saturates at 2^31-1.                                      *)
(***************************************************************************)
EXTENDS Naturals, Sequences

ST_DATA  == 0
ST_FIN   == 1
ST_STATE == 2
ST_RESET == 3
ST_SYN   == 4

HEADER_LEN == 20
EXT_SACK == 1
EXT_CLOSE_REASON == 3
MaxInt == 2147483647

U16(b, i) == b[i] * 256 + b[i + 1]

(* Walk the extension chain.  `next` is the id of the extension that starts *)
(* at byte position `pos` (0 = end of chain).  Result: ok, the extensions   *)
(* as a sequence of [id, data] and the position after the chain.            *)
RECURSIVE Exts(_, _, _, _)
Exts(b, next, pos, acc) ==
    IF next = 0 THEN [ok |-> TRUE, exts |-> acc, end |-> pos]
    ELSE IF Len(b) < pos + 1 THEN [ok |-> FALSE, exts |-> acc, end |-> pos]
    ELSE LET nn == b[pos]
             ln == b[pos + 1]
         IN  IF Len(b) < pos + 1 + ln THEN [ok |-> FALSE, exts |-> acc, end |-> pos]
             ELSE Exts(b, nn, pos + 2 + ln,
                       Append(acc, [id |-> next, data |-> SubSeq(b, pos + 2, pos + 1 + ln)]))

Bad(why) == [ok |-> FALSE, why |-> why]

(* ParseHeader accepts iff: at least 20 bytes, version nibble 1, type 0..4, *)
(* and the extension chain (id, length, data)* fits in the buffer.          *)
ParseHeader(b) ==
    IF Len(b) < HEADER_LEN THEN Bad("short")
    ELSE LET ty  == b[1] \div 16
             ver == b[1] % 16
         IN  IF ver # 1 THEN Bad("version")
             ELSE IF ty > 4 THEN Bad("type")
             ELSE LET x == Exts(b, b[2], 21, <<>>)
                  IN  IF ~x.ok THEN Bad("ext")
                      ELSE [ok     |-> TRUE,
                            type   |-> ty,
                            cid    |-> U16(b, 3),
                            ts     |-> <<U16(b, 5), U16(b, 7)>>,
                            tsdiff |-> <<U16(b, 9), U16(b, 11)>>,
                            wndhl  |-> <<U16(b, 13), U16(b, 15)>>,
                            seq    |-> U16(b, 17),
                            ack    |-> U16(b, 19),
                            exts   |-> x.exts,
                            hlen   |-> x.end - 1]

Wnd(h) == IF h.wndhl[1] >= 32768 THEN MaxInt ELSE h.wndhl[1] * 65536 + h.wndhl[2]

(* A whole datagram of `total` bytes whose first bytes are b (b holds at    *)
(* least the header and its extensions): payload present exactly for DATA.  *)
ParseMessage(b, total) ==
    LET h == ParseHeader(b) IN
    IF ~h.ok THEN h
    ELSE IF h.type = ST_DATA /\ total <= h.hlen THEN Bad("data-without-payload")
    ELSE IF h.type # ST_DATA /\ total # h.hlen THEN Bad("payload-on-non-data")
    ELSE h

(* The last selective-ACK extension in the chain, or <<>> when absent       *)
SackExts(h) == SelectSeq(h.exts, LAMBDA e : e.id = EXT_SACK)
HasSack(h) == SackExts(h) # <<>>
SackBytes(h) == LET s == SackExts(h) IN IF s = <<>> THEN <<>> ELSE s[Len(s)].data

(* bit i (0-based) of a selective-ACK byte string, LSB first within a byte *)
Bit(bytes, i) ==
    LET k == (i \div 8) + 1 IN
    IF k > Len(bytes) THEN FALSE
    ELSE (bytes[k] \div (2 ^ (i % 8))) % 2 = 1

SackSet(bytes) == { i \in 0 .. (Len(bytes) * 8 - 1) : Bit(bytes, i) }

(* Serialisation of a header value (the inverse direction, for C11)         *)
Hi(x) == x \div 256
Lo(x) == x % 256
B16(x) == <<Hi(x), Lo(x)>>

RECURSIVE SerExts(_, _)
SerExts(exts, i) ==
    IF i > Len(exts) THEN <<>>
    ELSE LET nxt == IF i = Len(exts) THEN 0 ELSE exts[i + 1].id
         IN  <<nxt, Len(exts[i].data)>> \o exts[i].data \o SerExts(exts, i + 1)

SerializeHdr(h) ==
    <<h.type * 16 + 1, IF h.exts = <<>> THEN 0 ELSE h.exts[1].id>>
    \o B16(h.cid) \o B16(h.ts[1]) \o B16(h.ts[2]) \o B16(h.tsdiff[1]) \o B16(h.tsdiff[2])
    \o B16(h.wndhl[1]) \o B16(h.wndhl[2]) \o B16(h.seq) \o B16(h.ack)
    \o SerExts(h.exts, 1)

=============================================================================
