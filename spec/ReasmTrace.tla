----------------------------- MODULE ReasmTrace -----------------------------
(***************************************************************************)
(* Trace specification for the receiver's reassembly machinery: replays an *)
(* ND-JSON recording of calls made on the real UserRx / OutOfOrderQueue /  *)
(* UtpStreamReadHalf (unit/src/bin/unit_ooq.rs: record mode, or the full   *)
(* answers to a replayed case) through the operators of Reasm.tla.  One    *)
(* step per line: the step advances the specification's own state with     *)
(* Apply (the SAME operators MCReasm checks) and *evaluates* the rules of  *)
(* Reasm.tla on the recorded values, so one pass reports every broken rule *)
(* with its line.                                                          *)
(*                                                                         *)
(* A line (every line has every field):                                    *)
(*   op     new | arrive | flush | flush_all | read | drop_reader | error  *)
(*          | close | regwaker | panic (res: the call that panicked)       *)
(*   a, b, fin   arrive: offset, payload length, is it an ST_FIN;          *)
(*          read: a = total buffer length;  new: a = capacity, b = largest *)
(*          payload, n = reassembly slots                                  *)
(*   res    arrive: consumed | present | unavailable | err                 *)
(*          read: ok | eof | err | pending;  others: ok                    *)
(*   n, bytes   Consumed{sequence_numbers, bytes} / bytes flushed / read   *)
(*   errid  read error: -1 "dispatcher dead", k >= 1 the k-th enqueued     *)
(*          error, -2 anything else                                        *)
(*   runs   the bytes a read returned, run-length compressed: maximal runs *)
(*          [first value, count] of values going up by one modulo 251      *)
(*   rwake, dwake  wake-ups of the reader's / dispatcher's waker in the    *)
(*          call                                                           *)
(*   ub pb pk win aempty sack_some sack rdrop   after the call:            *)
(*          verif_user_bytes, verif_parked_bytes, verif_parked_packets,    *)
(*          remaining_rx_window, assembler_empty, selective_ack().is_some, *)
(*          the indices of its set bits, is_reader_dropped                 *)
(*                                                                         *)
(* Rules: see Reasm.tla (Rules / RuleNames).  viol accumulates             *)
(* <<line, rule, context>>, cov counts how often each rule was applicable. *)
(***************************************************************************)
EXTENDS Reasm, TLC, TLCExt, Json, IOUtils

Rec == ndJsonDeserialize(IOEnv.TRACE)
N == Len(Rec)

VARIABLES
    l,      \* next line
    runs,   \* number of `new` lines so far
    st,     \* the specification's state
    g,      \* [cons, read]: bytes acknowledged / returned to the reader according to the recorded answers
    viol, cov

vars == <<l, runs, st, g, viol, cov>>

Init ==
    /\ l = 1 /\ runs = 0
    /\ st = StNew(1, 1, 1)
    /\ g = [cons |-> 0, read |-> 0]
    /\ viol = {} /\ cov = [r \in RuleNames |-> 0]

Judge(rs, ctx, ctxObs) ==
    /\ viol' = IF Cardinality(viol) >= 60 THEN viol
               ELSE viol \cup { <<l, b, IF b = "Reasm.ObsAgrees" THEN ctxObs ELSE ctx>> : b \in Broken(rs) }
    /\ cov' = LET c == Covered(rs) IN [r \in RuleNames |-> cov[r] + IF r \in c THEN 1 ELSE 0]

(* the recorded answer as the record the rules read (sack as the set of bits set) *)
Answer(r) ==
    [res |-> r.res, n |-> r.n, bytes |-> r.bytes, errid |-> r.errid, runs |-> r.runs,
     rwake |-> r.rwake, dwake |-> r.dwake,
     ub |-> r.ub, pb |-> r.pb, pk |-> r.pk, win |-> r.win, aempty |-> r.aempty,
     sack_some |-> r.sack_some, sack |-> SeqToSet(r.sack), rdrop |-> r.rdrop]

RECURSIVE Join(_)
Join(S) == IF S = {} THEN "" ELSE LET f == CHOOSE x \in S : TRUE IN " " \o f \o Join(S \ {f})

NewLine(r) ==
    LET s0 == StNew(r.a, r.b, r.n)
        x  == Outcome(s0, "ok", r.n, 0)
        e  == Expected(x)
        a  == Answer(r)
    IN  /\ st' = s0
        /\ g' = [cons |-> 0, read |-> 0]
        /\ runs' = runs + 1
        /\ Judge(<< <<"Reasm.ObsAgrees", TRUE, Agrees(a, e)>>,
                    <<"Reasm.NoPanic", TRUE, TRUE>>,
                    <<"C04.WindowHonest", TRUE, r.win <= r.a>> >>,
                 "new", "new:" \o Join(Differing(a, e)))

CallLine(r) ==
    LET c  == [op |-> r.op, a |-> r.a, b |-> r.b, fin |-> r.fin]
        x  == Apply(st, c)
        e  == Expected(x)
        a  == Answer(r)
        g1 == [cons |-> g.cons + (IF c.op = "arrive" /\ r.res = "consumed" THEN r.bytes ELSE 0),
               read |-> g.read + (IF c.op = "read" /\ r.res = "ok" THEN r.n ELSE 0)]
    IN  /\ st' = x.st
        /\ g' = g1
        /\ UNCHANGED runs
        /\ Judge(Rules(st, c, x, e, a, g1) \o << <<"Reasm.NoPanic", TRUE, TRUE>> >>,
                 c.op \o "/" \o r.res,
                 c.op \o "/" \o r.res \o ":" \o Join(Differing(a, e)))

(* a panic (r.res names the call it happened in) also breaks what that call owes: a dispatcher-side call
   that panics takes the connection task down with what was acknowledged and parked; a read that panics
   returns nothing of what it had taken; an end-of-connection call that panics leaves the reader hanging *)
PanicLine(r) ==
    /\ UNCHANGED <<st, g, runs>>
    /\ Judge(<< <<"Reasm.NoPanic", TRUE, FALSE>>,
                <<"C04.NoDiscardAfterConsume", r.res \in {"arrive", "flush", "regwaker", "new"}, FALSE>>,
                <<"C01.ReadExactlyOnce", r.res = "read", FALSE>>,
                <<"C03.ClosedSurfaces", r.res \in {"flush_all", "error", "close", "drop_reader"}, FALSE>> >>,
             "panic/" \o r.res, "panic/" \o r.res)

Next ==
    /\ l <= N
    /\ l' = l + 1
    /\ LET r == Rec[l] IN
       CASE r.op = "new"   -> NewLine(r)
         [] r.op = "panic" -> PanicLine(r)
         [] OTHER          -> CallLine(r)

Spec == Init /\ [][Next]_vars

---------------------------------------------------------------------------
(* Verdict: printed once, in the state after the last line.                *)
Report ==
    (l = N + 1) =>
        PrintT(<<"VERDICT", ToJson([lines |-> N, runs |-> runs,
                                    viol |-> { [line |-> v[1], rule |-> v[2], ctx |-> v[3], ep |-> ""] : v \in viol },
                                    cov |-> cov])>>)

TraceAccepted ==
    LET d == TLCGet("stats").diameter IN
    IF d - 1 = N THEN TRUE
    ELSE Print(<<"TRACE NOT ACCEPTED: consumed", d - 1, "of", N>>, FALSE)
=============================================================================
