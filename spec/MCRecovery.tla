----------------------------- MODULE MCRecovery -----------------------------
(***************************************************************************)
(* Bounded instance of Recovery.tla.                                       *)
(*                                                                         *)
(* TLC enumerates, breadth first, EVERY sequence of calls up to Depth      *)
(* effective calls (a call that leaves the abstract state unchanged does   *)
(* not count) over the small alphabets below, from a handful of roots: a   *)
(* root is a fixed call history (Roots) - fresh objects with 0..6 segments *)
(* queued / transmitted, most of them a few sequence numbers before the    *)
(* 16-bit wrap, some already inside a fast-recovery episode entered by     *)
(* plain duplicates or inside a timeout recovery, so that the clauses      *)
(* about what happens AFTER an episode are within reach of a small Depth.  *)
(* Call sequences are folded by (abstract state, depth).  The environment  *)
(* is the dispatcher's discipline: nothing is transmitted in RTO mode, the *)
(* timer fires only while transmitted data is outstanding, a packet never  *)
(* acknowledges a sequence number that was not transmitted.                *)
(* For every transition TLC                                                *)
(*   - asserts that the specification's own answer breaks no clause (Rules *)
(*     of Recovery.tla) and that must => reference => may (BandOK),        *)
(*   - checks the state invariant Shape,                                   *)
(*   - prints "T [from, op, ans, allow, to]" (from / to: state keys; allow *)
(*     the sequence numbers a recovery pass may retransmit)                *)
(* and for every distinct state "S [key, Obs]", for every root "R [key,    *)
(* history]".  vlib/recov.py rebuilds the graph, picks the canonical       *)
(* (first in sorted breadth-first order) call history of every state and   *)
(* turns every transition into the case  history(from) ++ <<op>>           *)
(* expecting ans, Obs(to) (and rtx within allow); unit_recov replays the   *)
(* cases on fresh real objects.                                            *)
(*                                                                         *)
(* Alphabets (RECOV_TIER = quick | thorough; Depth = 6 | 8):               *)
(*   q, d, t, x   as in Recovery.tla (q up to MaxQ = 6 queued; x only      *)
(*                inside an episode, also in RTO mode; t only while        *)
(*                transmitted data is outstanding; d not in RTO mode)      *)
(*   a            ack_nr in {una-3 (stale), una-1 (duplicate), una, una+1, *)
(*                last-1, last (everything transmitted), point-1, point},  *)
(*                never above the highest sequence number transmitted;     *)
(*                ST_STATE with the usual window and no selective ACK, or  *)
(*                a one-byte selective ACK with every pattern of its low   *)
(*                four bits (also the empty bitmap); for the duplicate     *)
(*                ack_nr also an ST_DATA packet (with and without a        *)
(*                selective ACK), a window update and an eight-byte        *)
(*                selective ACK with bits 0, 1 and 63                      *)
(* These full alphabets (level 0) are offered for the first FullDepth = 1  *)
(* | 2 calls.  Later calls draw from smaller ones (Lvl, Pick4):            *)
(*   level 1 (up to call MidDepth = 3 | 5): ack_nr {una-3, una-1, una,     *)
(*            last, point} x {no SACK, bitmaps (0,) 1, 7, 11}; ST_DATA and *)
(*            window update for the duplicate; q, d, t, x                  *)
(*   level 2: ack_nr {una-1, una, point} x {no SACK, bitmap 7}, the        *)
(*            duplicate with bitmap 1; d, t, x                             *)
(*   level 3 (the last call): ack_nr {una-1, point} x {no SACK, bitmap 7}, *)
(*            the duplicate with bitmap 1; t, x                            *)
(* RECOV_DEPTH / RECOV_FULL / RECOV_MID override.                          *)
(***************************************************************************)
EXTENDS Recovery, TLC, Json, IOUtils

EnvInt(name, default) == IF name \in DOMAIN IOEnv THEN atoi(IOEnv[name]) ELSE default
Thorough  == "RECOV_TIER" \in DOMAIN IOEnv /\ IOEnv.RECOV_TIER = "thorough"
Depth     == EnvInt("RECOV_DEPTH", IF Thorough THEN 8 ELSE 6)
FullDepth == EnvInt("RECOV_FULL", IF Thorough THEN 2 ELSE 1)
MidDepth  == EnvInt("RECOV_MID", IF Thorough THEN 5 ELSE 3)
MaxQ      == 6
Wnd       == 1000
Wnd2      == 2000

VARIABLES st, depth,
          ob        \* Obs(st): carried along so that it is computed once per state
vars == <<st, depth, ob>>

(* 0: full alphabets; 1: reduced; 2: small; 3: the very last call *)
Lvl == IF depth >= Depth - 1 THEN 3 ELSE IF depth >= MidDepth THEN 2 ELSE IF depth >= FullDepth THEN 1 ELSE 0
Pick4(a, b, c, d) == IF Lvl = 0 THEN a ELSE IF Lvl = 1 THEN b ELSE IF Lvl = 2 THEN c ELSE d
Pick(a, b, c) == Pick4(a, b, c, c)

ModeN(m) == CASE m = "open" -> 0 [] m = "rec" -> 1 [] m = "rto" -> 2
BlN(x)   == CASE x = "" -> 0 [] x = "exit" -> 1 [] x = "idle" -> 2
QBits(q) == SumSeq([i \in 1..Len(q) |-> IF q[i] THEN 2 ^ (i - 1) ELSE 0])
Key(s, d) == <<d, s.una, Len(s.q), QBits(s.q), s.last, s.high, B(s.blocked), ModeN(s.mode), s.point, s.orp,
               B(s.rtxd), B(s.sack), s.pa, s.pw, s.cnt, s.sd, s.ld, s.rep, BlN(s.bl)>>

---------------------------------------------------------------------------
(* The roots: fixed call histories.                                        *)
Plain(a)  == <<"a", a, 0, << >>, ST_STATE, Wnd>>
RootsQ == {
    << <<"n", 65533, 6, 4>> >>,                      \* 4 in flight across the wrap, 2 queued
    << <<"n", 100, 0, 0>> >>,                        \* nothing queued
    << <<"n", 65534, 2, 0>> >>,                      \* queued, never transmitted
    (* inside an episode entered by three plain duplicates (a peer without selective ACKs) *)
    << <<"n", 65532, 6, 5>>, Plain(65531), Plain(65531), Plain(65531), Plain(65531) >>,
    (* ... and a timeout inside that episode *)
    << <<"n", 65532, 6, 4>>, Plain(65531), Plain(65531), Plain(65531), Plain(65531), <<"t">> >>,
    (* ... and the timeout recovery about to end with data transmitted beyond its point *)
    << <<"n", 65532, 6, 4>>, Plain(65531), Plain(65531), Plain(65531), Plain(65531), <<"t">>,
       Plain(65533), <<"d">>, <<"d">>, <<"d">> >>,
    (* a timeout outside an episode *)
    << <<"n", 65533, 5, 4>>, <<"t">> >> }
RootsT == RootsQ \cup {
    << <<"n", 7, 6, 4>> >>,
    << <<"n", 65535, 1, 1>> >>,
    << <<"n", 65530, 6, 6>> >>,
    << <<"n", 200, 6, 5>>, Plain(199), Plain(199), Plain(199), Plain(199) >> }
Roots == IF Thorough THEN RootsT ELSE RootsQ

RECURSIVE RunFrom(_, _)
RunFrom(s, ops) == IF ops = << >> THEN s ELSE RunFrom(Apply(s, Head(ops)).st, Tail(ops))
Run(p) == RunFrom(Fresh(p[1]), Tail(p))

---------------------------------------------------------------------------
(* The calls offered in state s.                                           *)
Rel(s, x) == Dist(x, s.una, M)
AckRel(s) ==
    LET L == Rel(s, s.last)
        H == Rel(s, s.high)
        P == IF s.point >= 0 THEN Rel(s, s.point) ELSE L
        c == Pick4({-3, -1, 0, 1, L - 1, L, P - 1, P}, {-3, -1, 0, L, P}, {-1, 0, P}, {-1, P})
    IN  { k \in c : k >= -3 /\ k <= H }
AckNrs(s) == { Add(s.una, k + M, M) : k \in AckRel(s) }
LowSets == Pick(0..15, IF Thorough THEN {0, 1, 7, 11} ELSE {1, 7, 11}, {7})
Sacks   == { <<0, << >> >> } \cup { <<1, <<b>> >> : b \in LowSets }
AckOps(s) ==
    { <<"a", a, k[1], k[2], ST_STATE, Wnd>> : a \in AckNrs(s), k \in Sacks }
    \cup (IF Lvl >= 2 THEN { <<"a", Prev(s.una), 1, <<1>>, ST_STATE, Wnd>> } ELSE {})
    \cup Pick({ <<"a", Prev(s.una), 0, << >>, ST_DATA, Wnd>>, <<"a", Prev(s.una), 0, << >>, ST_STATE, Wnd2>>,
                <<"a", Prev(s.una), 1, <<3, 0, 0, 0, 0, 0, 0, 128>>, ST_STATE, Wnd>>,
                <<"a", Prev(s.una), 1, <<1>>, ST_DATA, Wnd>> },
              { <<"a", Prev(s.una), 0, << >>, ST_DATA, Wnd>>, <<"a", Prev(s.una), 0, << >>, ST_STATE, Wnd2>> },
              {})

EnqOps(s)  == IF NQ(s) < MaxQ /\ Lvl < 2 THEN { <<"q">> } ELSE {}
SendOps(s) == IF ~s.blocked /\ Lvl < 3 /\ (SendPos(s) <= NQ(s) \/ NQ(s) < MaxQ) THEN { <<"d">> } ELSE {}
RtoOps(s)  == IF Outstanding(s) THEN { <<"t">> } ELSE {}
RetxOps(s) == IF s.mode = "rec" THEN { <<"x">> } ELSE {}

Ops(s) == EnqOps(s) \cup SendOps(s) \cup RtoOps(s) \cup RetxOps(s) \cup AckOps(s)

---------------------------------------------------------------------------
Init ==
    /\ depth = 0
    /\ \E p \in Roots : \E s0 \in {Run(p)} :
          /\ st = s0
          /\ ob = Obs(s0)
          /\ PrintT("R " \o ToJson(<<Key(s0, 0), p>>))

PV(s) == <<B(s.mode = "rec"), IF s.mode = "rec" THEN s.point ELSE -1>>

(* The clauses hold of the specification's own answer. *)
Consistent(s, op, r, e) ==
    LET own == [ans |-> r.ans, rtx |-> IF r.ans[5] >= 0 THEN <<r.ans[5]>> ELSE << >>, obs |-> e,
                aux |-> <<r.ans[1], r.ans[1]>>, panic |-> ""]
        b == Broken(RulesX(s, PV(s), op, own, r, e))
    IN  /\ Assert(b = {}, <<"the abstract sender breaks a clause", b, s, op>>)
        /\ Assert(BandOK(s, r), <<"must => reference => may fails", s, op, r.info>>)

Step(op) ==
    /\ depth < Depth
    /\ \E r \in {Apply(st, op)} : \E e \in {Obs(r.st)} : \E d1 \in {IF r.st = st THEN depth ELSE depth + 1} :
          /\ Consistent(st, op, r, e)
          /\ st' = r.st
          /\ depth' = d1
          /\ ob' = e
          /\ PrintT("T " \o ToJson(<<Key(st, depth), op, r.ans, r.info.allow, Key(r.st, d1)>>))

EnqueueA == \E op \in EnqOps(st) : Step(op)
SendA    == \E op \in SendOps(st) : Step(op)
RtoA     == \E op \in RtoOps(st) : Step(op)
RetxA    == \E op \in RetxOps(st) : Step(op)
AckA     == \E op \in AckOps(st) : Step(op)

Next == EnqueueA \/ SendA \/ RtoA \/ RetxA \/ AckA
Spec == Init /\ [][Next]_vars

---------------------------------------------------------------------------
TypeOK ==
    /\ depth \in 0..Depth
    /\ st.una \in 0..(M - 1) /\ st.last \in 0..(M - 1) /\ st.high \in 0..(M - 1)
    /\ NQ(st) <= MaxQ
    /\ st.mode \in {"open", "rec", "rto"}

Inv == Shape(st)

(* One line per distinct state: what the real objects must show in it.     *)
EmitS == PrintT("S " \o ToJson(<<Key(st, depth), ob>>))
=============================================================================
