SPECIFICATION TraceSpec
CONSTANT Configs <- TraceConfigs
CONSTANT PeerSizes <- TracePeerSizes
INVARIANT Report
POSTCONDITION TraceAccepted
CHECK_DEADLOCK FALSE
