-------------------------------- MODULE Mtu --------------------------------
(***************************************************************************)
(* C14  "Path-MTU discovery is safe and converges"  -- the component part: *)
(* the search for the largest deliverable payload size (src/mtu.rs,        *)
(* SegmentSizes), as a CONTRACT.                                           *)
(*                                                                         *)
(*   "No datagram larger than the configured link MTU allows is ever       *)
(*    emitted (whatever sizes the peer uses), ordinary segments never      *)
(*    exceed the largest payload size already proven deliverable (or the   *)
(*    protocol minimum), at most one oversized probe is outstanding and it *)
(*    is the newest segment.  On a path that silently discards datagrams   *)
(*    above some size the connection keeps all data intact and settles,    *)
(*    after a logarithmic number of probes, on the largest payload size    *)
(*    that fits."   Quantifier: all link MTU settings, all true path MTUs  *)
(*    between the minimum and the link MTU, both address families.         *)
(*                                                                         *)
(* The component answers "how large may the next segment be": the proven   *)
(* size (an ORDINARY segment) or, now and then, a larger size (a PROBE).   *)
(* The connection reports what happened to a probe (delivered / lost), the *)
(* payload sizes the peer uses, and may ask for the next probe at once.    *)
(*                                                                         *)
(*   proven  largest payload size known deliverable        (mss())         *)
(*   ceil    largest payload size still possible           (max_ss())      *)
(*   cd      ordinary segments to hand out before the next probe           *)
(*                                                                         *)
(* What the property fixes and what it leaves open:                        *)
(*  - fixed: the header sizes, the protocol minimum MTUs, the link ceiling,*)
(*    the initial proven size, the bounds on every returned size, the      *)
(*    effect of a delivered / lost probe on the bracket [proven, ceil],    *)
(*    the logarithmic number of probes;                                    *)
(*  - open: WHICH size is probed.  The contract only demands               *)
(*        proven < s <= ceil  and  the search halves:                      *)
(*    whatever the outcome, what remains of ceil - proven is at most half  *)
(*    (rounded up) of what it was.  The midpoint rule of the code is one   *)
(*    admissible choice; NextResults returns ALL admissible ones.          *)
(*  - open: how many ordinary segments lie between two probes (the         *)
(*    cooldown).  "At most one probe outstanding, and it is the newest"    *)
(*    is the sender's duty (it stops segmenting behind a probe), not this  *)
(*    component's.  The cooldown is modelled (parameter cd: after a probe  *)
(*    the next cd answers are ordinary unless DisarmCooldown is called;    *)
(*    the first answer of a fresh search is ordinary) so that call         *)
(*    sequences have a definite length; agreement with it is reported as   *)
(*    the model rule Mtu.Cooldown, which is not a clause of C14.           *)
(*                                                                         *)
(* Constants below come from the property / the protocol (IPv4 20, IPv6    *)
(* 40, UDP 8, uTP 20 header bytes; minimum MTU 576 / 1280), not from the   *)
(* code.  Domain: link MTU >= headers + 1 (one payload byte fits).         *)
(***************************************************************************)
EXTENDS Integers

Max(a, b) == IF a >= b THEN a ELSE b
Min(a, b) == IF a <= b THEN a ELSE b

---------------------------------------------------------------------------
(* Sizes.                                                                  *)
IpHeader(v4)       == IF v4 THEN 20 ELSE 40
UdpHeader          == 8
UtpHeader          == 20
Overhead(v4)       == IpHeader(v4) + UdpHeader + UtpHeader          \* 48 / 68
ProtocolMinMtu(v4) == IF v4 THEN 576 ELSE 1280                      \* RFC 791 / RFC 8200

(* "larger than the configured link MTU allows": the largest payload that fits the link *)
LinkCeil(link, v4)   == link - Overhead(v4)
(* "(or the protocol minimum)": the payload of a minimum-MTU datagram, capped by the link *)
MinPayload(link, v4) == Min(ProtocolMinMtu(v4), link) - Overhead(v4)

ASSUME Overhead(TRUE) = 48 /\ Overhead(FALSE) = 68
ASSUME MinPayload(1500, TRUE) = 528 /\ MinPayload(1500, FALSE) = 1212
ASSUME LinkCeil(1500, TRUE) = 1452 /\ LinkCeil(1500, FALSE) = 1432
ASSUME MinPayload(100, TRUE) = 52 /\ MinPayload(100, FALSE) = 32 /\ MinPayload(1279, FALSE) = 1211
ASSUME MinPayload(576, TRUE) = 528 /\ MinPayload(577, TRUE) = 528 /\ LinkCeil(577, TRUE) = 529
ASSUME LinkCeil(65535, TRUE) = 65487 /\ LinkCeil(65535, FALSE) = 65467

(* A configuration: [link, v4, cd, p]: link MTU, address family, cooldown period, and the
   environment's path limit p: the path discards every payload larger than p. *)
InDomain(c) == c.link >= Overhead(c.v4) + 1 /\ c.link <= 65535 /\ c.cd >= 0
Ceil0(c)    == LinkCeil(c.link, c.v4)
Min0(c)     == MinPayload(c.link, c.v4)
(* "the largest payload size that fits" the path and the link *)
Target(c)   == Min(c.p, Ceil0(c))

---------------------------------------------------------------------------
(* The search.                                                             *)

(* what may remain of a range r after one more probe: "halves" (rounded up); a range of one is
   decided by its single probe *)
Half(r) == IF r <= 1 THEN 0 ELSE (r + 1) \div 2

RECURSIVE CeilLog2(_)
CeilLog2(n) == IF n <= 1 THEN 0 ELSE 1 + CeilLog2((n + 1) \div 2)
(* "after a logarithmic number of probes": at most ceil(log2(range)) + 1 for a range of r sizes above
   the proven one; it is also the number of halvings that take r to 0 (ProbesToZero) *)
LogBound(r) == IF r <= 0 THEN 0 ELSE CeilLog2(r) + 1
RECURSIVE ProbesToZero(_)
ProbesToZero(r) == IF r <= 0 THEN 0 ELSE 1 + ProbesToZero(Half(r))

ASSUME CeilLog2(1) = 0 /\ CeilLog2(2) = 1 /\ CeilLog2(3) = 2 /\ CeilLog2(4) = 2 /\ CeilLog2(5) = 3
ASSUME CeilLog2(924) = 10 /\ CeilLog2(1024) = 10 /\ CeilLog2(1025) = 11 /\ CeilLog2(64959) = 16
ASSUME \A r \in 0..1100 : LogBound(r) = ProbesToZero(r)
ASSUME \A r \in {8472, 8952, 32768, 32769, 64255, 64959, 65487} : LogBound(r) = ProbesToZero(r)

(* the admissible probe sizes between proven and ceil *)
ProbeOK(proven, ceil, s) ==
    LET r == ceil - proven IN
    /\ proven < s /\ s <= ceil          \* "oversized" (larger than proven), never above what is still possible
    /\ ceil - s <= Half(r)              \* what remains if it is delivered
    /\ s - 1 - proven <= Half(r)        \* what remains if it is lost
ProbesDef(proven, ceil) == { s \in (proven + 1)..ceil : ProbeOK(proven, ceil, s) }
(* the same set as an interval (cheap to enumerate) *)
Probes(proven, ceil) ==
    LET h == Half(ceil - proven) IN Max(proven + 1, ceil - h)..Min(ceil, proven + 1 + h)

ASSUME Probes(10, 10) = {} /\ Probes(10, 11) = {11} /\ Probes(10, 12) = {11, 12}
ASSUME Probes(10, 13) = {11, 12, 13} /\ Probes(10, 14) = {12, 13} /\ Probes(528, 1452) = {990, 991}
ASSUME \A r \in 0..200 : Probes(7, 7 + r) = ProbesDef(7, 7 + r) /\ (r > 0 => Probes(7, 7 + r) # {})

(* State: the bracket, the cooldown, and observers for the property: del = the largest payload size
   reported delivered so far (cut to the link ceiling), probes = probes decided so far, ok = every probe
   was lost only because of the path limit and no payload above the path limit was reported. *)
StInit(c) == [proven |-> Min0(c), ceil |-> Ceil0(c), cd |-> 1, del |-> 0, probes |-> 0, ok |-> TRUE]

(* on_payload_delivered(n): a payload of n bytes went through (a probe or an ordinary segment of ours
   was acknowledged, or a payload of the peer arrived).  "whatever sizes the peer uses": n may be
   anything; what it proves is cut to the link ceiling. *)
StDelivered(c, s, n) ==
    LET m  == Min(n, Ceil0(c))
        p1 == Max(s.proven, m)
    IN  [s EXCEPT !.proven = p1, !.ceil = Max(s.ceil, p1), !.del = Max(s.del, m),
                  !.ok = s.ok /\ m <= c.p]

(* on_probe_failed(size): nothing of that size or more is possible any more (but never below proven) *)
StFailed(s, size) == [s EXCEPT !.ceil = Max(Min(s.ceil, size - 1), s.proven)]

StDisarm(s) == [s EXCEPT !.cd = 0]

(* next_segment_size(): the set of admissible answers [size, probe, st] *)
NextResults(c, s) ==
    IF s.cd = 0 /\ s.proven < s.ceil
    THEN { [size |-> x, probe |-> TRUE, st |-> [s EXCEPT !.cd = c.cd]] : x \in Probes(s.proven, s.ceil) }
    ELSE { [size |-> s.proven, probe |-> FALSE,
            st |-> [s EXCEPT !.cd = IF s.cd = 0 THEN c.cd ELSE s.cd - 1]] }

---------------------------------------------------------------------------
(* The clauses as predicates on values (shared with MtuTrace, which evaluates them on recorded
   values).                                                                                          *)

\* "No datagram larger than the configured link MTU allows is ever emitted (whatever sizes the peer uses)"
P_NeverAboveLink(c, size) == size <= Ceil0(c)

\* "ordinary segments never exceed the largest payload size already proven deliverable (or the protocol
\*  minimum)"; del: largest payload reported delivered.  A segment carries at least one byte.
P_OrdinaryWithinProven(c, size, del) == size >= 1 /\ size <= Max(Min0(c), del)

\* a probe is "oversized" and within what is still possible
P_ProbeInRange(proven, ceil, s) == proven < s /\ s <= ceil

\* the search halves (the choice of the size)
P_HalvesChoice(proven, ceil, s) == ceil - s <= Half(ceil - proven) /\ s - 1 - proven <= Half(ceil - proven)
\* the search halves (the bookkeeping): s was chosen in a bracket of range r and the bracket after the
\* outcome is [proven1, ceil1]
P_HalvesOutcome(r, proven1, ceil1) == ceil1 - proven1 <= Half(r)
P_DeliveredCounts(s, proven1) == proven1 >= s
P_FailedCounts(s, proven1, ceil1) == ceil1 <= Max(s - 1, proven1)

\* proven never decreases; ceil never increases except that it stays >= proven
P_Monotone(proven, ceil, proven1, ceil1) ==
    proven1 >= proven /\ proven1 <= ceil1 /\ ceil1 <= Max(ceil, proven1)

\* the size the path allows stays inside the bracket as long as the reports are truthful
P_Bracket(c, proven, ceil) == proven <= Target(c) /\ Target(c) <= ceil
\* "settles ... on the largest payload size that fits"
P_Settled(c, proven, ceil) == proven = Target(c) /\ ceil = proven

\* "after a logarithmic number of probes"
P_LogProbes(c, probes) == probes <= LogBound(Ceil0(c) - Min0(c))

\* "(whatever sizes the peer uses)": nothing the peer reports lifts proven / ceil above the link ceiling
P_PeerCannotRaiseAboveCeiling(c, proven1, ceil1) == proven1 <= Ceil0(c) /\ ceil1 <= Ceil0(c)

\* "(or the protocol minimum)": a fresh search starts from the protocol minimum payload, capped by the link
P_MinimumRespected(c, proven0, ceil0) == proven0 = Min0(c) /\ ceil0 = Ceil0(c)

(* calls that are enough for the search to settle when every (cd + 1)-th answer is a probe *)
CallsNeeded(c) == (LogBound(Ceil0(c) - Min0(c)) + 1) * (c.cd + 1) + 2

---------------------------------------------------------------------------
(* The state machine over the calls.  Configs: the configurations explored.                           *)
CONSTANTS Configs, PeerSizes(_, _)    \* PeerSizes(c, s): the payload sizes the peer may report in state s

VARIABLES cfg, st,
          out,     \* size of the outstanding probe (0: none)
          outr     \* the range ceil - proven it was chosen in
vars == <<cfg, st, out, outr>>

Init == cfg \in Configs /\ st = StInit(cfg) /\ out = 0 /\ outr = 0

(* next_segment_size(); the sender does not ask while a probe is outstanding *)
NextSegmentSize ==
    /\ out = 0
    /\ \E r \in NextResults(cfg, st) :
          /\ st' = r.st
          /\ out' = IF r.probe THEN r.size ELSE 0
          /\ outr' = IF r.probe THEN st.ceil - st.proven ELSE 0
    /\ UNCHANGED cfg

(* the path decides the probe: delivered iff it fits *)
ProbeSucceeded ==
    /\ out # 0 /\ out <= cfg.p
    /\ st' = [StDelivered(cfg, st, out) EXCEPT !.probes = st.probes + 1]
    /\ out' = 0 /\ outr' = 0 /\ UNCHANGED cfg
ProbeFailed ==
    /\ out # 0 /\ out > cfg.p
    /\ st' = [StFailed(st, out) EXCEPT !.probes = st.probes + 1]
    /\ out' = 0 /\ outr' = 0 /\ UNCHANGED cfg
(* a probe that fits is lost for another reason: the reports are no longer truthful *)
ProbeLost ==
    /\ out # 0 /\ out <= cfg.p
    /\ st' = [StFailed(st, out) EXCEPT !.probes = st.probes + 1, !.ok = FALSE]
    /\ out' = 0 /\ outr' = 0 /\ UNCHANGED cfg
(* the sender could not use the probe size (larger than its congestion window): it sends an ordinary
   segment instead and asks for a probe next time *)
ProbeUnused == out # 0 /\ st' = StDisarm(st) /\ out' = 0 /\ outr' = 0 /\ UNCHANGED cfg
PeerPayload(n)  == st' = StDelivered(cfg, st, n) /\ UNCHANGED <<cfg, out, outr>>
DisarmCooldown  == st' = StDisarm(st) /\ UNCHANGED <<cfg, out, outr>>

Next == \/ NextSegmentSize \/ ProbeSucceeded \/ ProbeFailed \/ ProbeLost \/ ProbeUnused
        \/ (\E n \in PeerSizes(cfg, st) : PeerPayload(n)) \/ DisarmCooldown
Spec == Init /\ [][Next]_vars

TypeOK ==
    /\ InDomain(cfg)
    /\ st.proven \in 1..65535 /\ st.ceil \in 1..65535 /\ st.cd \in 0..Max(cfg.cd, 1)
    /\ st.del >= 0 /\ st.probes >= 0 /\ st.ok \in BOOLEAN /\ out \in 0..65535

(* "No datagram larger than the configured link MTU allows is ever emitted (whatever sizes the peer
   uses)": every size the component hands out -- the ordinary size st.proven and the outstanding probe. *)
NeverAboveLink == P_NeverAboveLink(cfg, st.proven) /\ P_NeverAboveLink(cfg, out)

(* "ordinary segments never exceed the largest payload size already proven deliverable (or the
   protocol minimum)": stated on the observer del, independently of how proven is computed. *)
OrdinaryWithinProven == P_OrdinaryWithinProven(cfg, st.proven, st.del)

(* a probe is larger than the proven size and within what is still possible (so: none once settled),
   and the choice halves the search whatever the outcome *)
ProbeInRange ==
    [][(out = 0 /\ out' # 0) => /\ P_ProbeInRange(st.proven, st.ceil, out')
                                /\ P_HalvesChoice(st.proven, st.ceil, out')]_vars
ProbeStaysInRange == out # 0 => (out <= st.ceil /\ out <= Ceil0(cfg))

(* proven never decreases, ceil never increases except that it stays >= proven *)
Monotone == [][P_Monotone(st.proven, st.ceil, st'.proven, st'.ceil)]_vars

(* the search halves: when a probe is decided, what remains is at most half (rounded up) of the range
   it was chosen in -- reports that arrived in between can only have shrunk it further *)
SearchHalves ==
    [][(out # 0 /\ out' = 0 /\ st'.probes = st.probes + 1)
          => P_HalvesOutcome(outr, st'.proven, st'.ceil)]_vars

(* "(whatever sizes the peer uses)" *)
PeerCannotRaiseAboveCeiling == P_PeerCannotRaiseAboveCeiling(cfg, st.proven, st.ceil)

(* "settles ... on the largest payload size that fits", "provided probes are only lost because of the
   path limit": the size that fits stays inside the bracket, so a search that has stopped (nothing left
   to probe) has stopped there; and no probe beyond it ever succeeds. *)
Converges ==
    st.ok => /\ P_Bracket(cfg, st.proven, st.ceil)
             /\ (st.proven = st.ceil => P_Settled(cfg, st.proven, st.ceil))
             /\ (st.probes >= LogBound(Ceil0(cfg) - Min0(cfg)) => P_Settled(cfg, st.proven, st.ceil))

(* "after a logarithmic number of probes": never more decided probes than ceil(log2(range)) + 1,
   truthful reports or not; a probe is outstanding only if one more is allowed. *)
LogProbes == P_LogProbes(cfg, st.probes + IF out # 0 THEN 1 ELSE 0)

(* the remaining range always fits the remaining probe budget (what makes LogProbes inductive) *)
Budget == ProbesToZero(st.ceil - st.proven) + st.probes <= LogBound(Ceil0(cfg) - Min0(cfg))
=============================================================================
