SPECIFICATION Spec
CONSTANTS
  Addrs = {"a1"}
  CidMod = 8
  Limit = 2
  Backlog = 2
  Slots = 2
  SynCids = {1, 7}
  MaxSyn = 2
  MaxConnect = 1
  MaxAccept = 3
  MaxEnd = 1
  Variant = "no_rescan"
INVARIANTS TypeOK KeyUnique LimitRespected NoEviction BacklogBound RefusedOnlyWhenFull AcceptFifo AcceptCallOrder SlotsBounded NoIdleAcceptor ParkedNotStarved
CHECK_DEADLOCK FALSE
