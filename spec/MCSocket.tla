------------------------------ MODULE MCSocket ------------------------------
(***************************************************************************)
(* Bounded model of ONE socket's dispatcher (src/socket.rs): the table of  *)
(* live connections, the ids reserved by pending outgoing connects, the    *)
(* queue of retained SYNs, the acceptors, and the asynchronous control     *)
(* channel (connect requests, abandoned connects, "stream ended"           *)
(* notifications).  The environment is arbitrary: any datagram may arrive  *)
(* at any time (duplicates, clashing ids, stale SYN-ACKs), applications    *)
(* connect / accept / abandon / close in any order, and the dispatcher's   *)
(* select! may serve any ready source next.                                *)
(*                                                                         *)
(* One dispatcher iteration is `cleanup_accept_queue`, then the task PARKS  *)
(* in select! (a separate step: applications and the network move on in    *)
(* between), then exactly one arm runs, as in Dispatcher::run_once.  (An    *)
(* earlier version folded cleanup and arm into one atomic step and thereby *)
(* hid defect D30: a SYN served by the recv arm took an acceptor that had   *)
(* registered while older SYNs were waiting.)  The rule predicates are     *)
(* those of SocketTab.tla, which the trace specification UtpTrace.tla      *)
(* evaluates on every recorded table event of the real dispatcher.         *)
(*                                                                         *)
(* Properties decided here (C12, C13, and the slot part of C08):           *)
(*   KeyUnique, LimitRespected, NoEviction, RouteToNamed, BacklogBound,    *)
(*   RefusedOnlyWhenFull, AcceptFifo, AcceptCallOrder, PairOnce,           *)
(*   SlotsBounded, SlotsReleased.                                          *)
(***************************************************************************)
EXTENDS Integers, Sequences, FiniteSets, TLC, SocketTab

CONSTANTS Addrs,        \* remote addresses
          CidMod,       \* connection ids live in 0 .. CidMod-1 (16 bit in the code)
          Limit,        \* max_active_streams
          Backlog,      \* ACCEPT_QUEUE_MAX_SYNS
          Slots,        \* MAX_CONNECTING_PER_ADDR
          SynCids,      \* connection ids used by incoming SYNs (chosen so that they clash with outgoing ids)
          MaxSyn, MaxConnect, MaxAccept, MaxEnd,   \* bounds on environment actions
          Variant       \* "code" = the implementation's algorithm; other values = seeded design mutants

VARIABLE s   \* the whole state as one record, so that the dispatcher's steps compose as functions

Cid == 0 .. CidMod - 1
Nxt(c, k) == (c + k) % CidMod

Init ==
    s = [ streams  |-> {},        \* table: set of [key |-> <<addr, cid>>, sid |-> stream instance]
          conn     |-> {},        \* pending outgoing connects: [addr, cid, seq, tok]
          syns     |-> <<>>,      \* retained SYNs: [addr, c, idx]
          ready    |-> 0,         \* next_available_acceptor (0 = none); acceptors are numbered in call order
          chan     |-> <<>>,      \* acceptor channel
          ctl      |-> <<>>,      \* control channel: [t |-> "connect"|"cdrop"|"shutdown", ...]
          nextCid  |-> 0,
          parked   |-> FALSE,     \* the dispatcher has run cleanup_accept_queue and waits in select!
          alive    |-> {},        \* stream instances whose task still runs (its receiver exists)
          deadAcc  |-> {},        \* accept calls given up by the application
          deadTok  |-> {},        \* connect calls given up by the application
          \* history / counters (bounded)
          nSid |-> 0, nSyn |-> 0, nTok |-> 0, nAcc |-> 0, nEnd |-> 0,
          handed   |-> <<>>,      \* <<acceptor, syn arrival index>> in the order streams were handed out
          refusedAt|-> {},        \* lengths of the SYN queue at which a SYN was refused with a RESET
          bad      |-> {} ]       \* rule violations observed inside a step (rule names)

Keys(t) == { e.key : e \in t.streams }
Full(t) == Cardinality(t.streams) >= Limit
Reserved(t, a, c) == \E p \in t.conn : p.addr = a /\ p.cid = c
Entry(t, k) == CHOOSE e \in t.streams : e.key = k
Flag(t, rule, ok) == IF ok THEN t ELSE [t EXCEPT !.bad = @ \cup {rule}]

\* the SocketTab view of this state (the same record shape the trace specification keeps)
AsTab(t) == [NewSock(Limit) EXCEPT !.streams = Keys(t), !.pending = { <<p.addr, p.cid>> : p \in t.conn }]

(***************************************************************************)
(* match_syn_with_accept                                                   *)
(***************************************************************************)
TryNextAcceptor(t) ==
    IF t.ready # 0 THEN <<t.ready, [t EXCEPT !.ready = 0]>>
    ELSE IF t.chan # <<>> THEN <<Head(t.chan), [t EXCEPT !.chan = Tail(@)]>>
    ELSE <<0, t>>

MatchSyn(t, syn, acc) ==
    LET key == <<syn.addr, Nxt(syn.c, 1)>> IN
    IF Full(t) THEN [tag |-> "full", t |-> t]
    ELSE IF key \in Keys(t) \/ (Variant # "no_reserve_check" /\ Reserved(t, key[1], key[2]))
         THEN [tag |-> "invalid", t |-> t]
    ELSE IF acc \in t.deadAcc THEN [tag |-> "dead", t |-> t]     \* inserted, send fails, removed again, guard disarmed
    ELSE LET t1 == Flag(t, "C12.KeyUnique", R_C12_KeyUniqueIn(AsTab(t), key))
             sid == t.nSid + 1
         IN  [tag |-> "matched",
              t |-> [t1 EXCEPT !.streams = @ \cup {[key |-> key, sid |-> sid]}, !.alive = @ \cup {sid}, !.nSid = sid,
                               !.handed = Append(@, <<acc, syn.idx>>)]]

RECURSIVE Cleanup(_)
Cleanup(t) ==
    IF Full(t) \/ t.syns = <<>> THEN t
    ELSE LET syn == Head(t.syns)
             na  == TryNextAcceptor([t EXCEPT !.syns = Tail(@)])
         IN  IF na[1] = 0 THEN t
             ELSE LET m == MatchSyn(na[2], syn, na[1]) IN
                  CASE m.tag = "matched" -> Cleanup(m.t)
                    [] m.tag = "invalid" -> IF Variant = "no_rescan" THEN [na[2] EXCEPT !.ready = na[1]]  \* (seeded: gives up here)
                                            ELSE Cleanup([na[2] EXCEPT !.ready = na[1]])         \* the clashing SYN is dropped
                    [] m.tag = "dead"    -> Cleanup([na[2] EXCEPT !.syns = IF Variant = "requeue_back" THEN Append(@, syn)
                                                                           ELSE <<syn>> \o @])   \* the dead acceptor is dropped
                    [] OTHER             -> [na[2] EXCEPT !.syns = <<syn>> \o @, !.ready = na[1]]

(***************************************************************************)
(* on_syn                                                                  *)
(***************************************************************************)
Cache(t, syn) ==
    IF Len(t.syns) < Backlog THEN [t EXCEPT !.syns = Append(@, syn)]
    ELSE [t EXCEPT !.refusedAt = @ \cup {Len(t.syns)}]         \* RESET sent

RECURSIVE SynLoop(_, _)
SynLoop(t, syn) ==
    LET na == TryNextAcceptor(t) IN
    IF na[1] = 0 THEN Cache(t, syn)
    ELSE LET m == MatchSyn(na[2], syn, na[1]) IN
         CASE m.tag = "matched" -> m.t
           [] m.tag = "invalid" -> [na[2] EXCEPT !.ready = na[1]]
           [] m.tag = "dead"    -> SynLoop(na[2], syn)
           [] OTHER             -> Cache([na[2] EXCEPT !.ready = na[1]], syn)

OnSyn(t, a, c) ==
    LET key == <<a, Nxt(c, 1)>>
        dup == key \in Keys(t) \/ \E i \in 1 .. Len(t.syns) : t.syns[i].addr = a /\ t.syns[i].c = c
    IN  IF Variant # "no_dedup" /\ dup THEN t
        \* requests that already wait in the backlog are served first: an acceptor that registered while the task was
        \* parked must not go to the newcomer  (the seeded variant is the code before that repair)
        ELSE LET t0 == IF Variant = "syn_jumps_backlog" THEN t ELSE Cleanup(t) IN
             SynLoop([t0 EXCEPT !.nSyn = @ + 1], [addr |-> a, c |-> c, idx |-> t.nSyn + 1])

(***************************************************************************)
(* on_maybe_connect_ack: an ST_STATE for a key that is not in the table    *)
(***************************************************************************)
OnStateNoStream(t, a, c, ack) ==
    IF Variant # "no_full_check_on_ack" /\ Full(t) THEN t
    ELSE LET m == { p \in t.conn : p.addr = a /\ p.seq = ack } IN
         IF m = {} THEN t
         ELSE LET p   == CHOOSE q \in m : TRUE
                  key == <<a, c>>
                  t1  == Flag([t EXCEPT !.conn = @ \ {p}], "C12.KeyUnique", R_C12_KeyUniqueOut(AsTab(t), key))
                  sid == t.nSid + 1
              IN  IF p.tok \in t.deadTok
                  THEN [t1 EXCEPT !.nSid = sid,                                      \* requester gone: stream dropped again,
                                  !.ctl = Append(@, [t |-> "shutdown", key |-> key])] \* its guard still says "stream ended"
                  ELSE [t1 EXCEPT !.streams = @ \cup {[key |-> key, sid |-> sid]}, !.alive = @ \cup {sid}, !.nSid = sid]

(***************************************************************************)
(* on_recv: routing                                                        *)
(***************************************************************************)
OnRecv(t, a, c, typ, ack) ==
    LET key == <<a, c>> IN
    IF key \in Keys(t)
    THEN LET e == Entry(t, key) IN
         IF e.sid \in t.alive THEN t                              \* delivered to the stream the datagram names
         ELSE [t EXCEPT !.streams = @ \ {e}]                      \* "stream dead, but wasn't cleaned up yet"
    ELSE CASE typ = "state" -> OnStateNoStream(t, a, c, ack)
           [] typ = "syn"   -> OnSyn(t, a, c)
           [] OTHER         -> t

(***************************************************************************)
(* on_control                                                              *)
(***************************************************************************)
RECURSIVE NextFree(_, _, _)
NextFree(t, a, n) ==    \* get_next_free_conn_id (n bounds the recursion; the table is far smaller than the id space)
    IF n > 0 /\ (<<a, t.nextCid>> \in Keys(t) \/ (Variant # "no_reserve" /\ Reserved(t, a, t.nextCid)))
    THEN NextFree([t EXCEPT !.nextCid = Nxt(@, 2)], a, n - 1)
    ELSE t

OnControl(t, m) ==
    CASE m.t = "connect" ->
            IF Full(t) THEN t
            ELSE IF Cardinality({ p \in t.conn : p.addr = m.addr }) >= Slots THEN t
            ELSE LET t1 == NextFree(t, m.addr, IF Variant = "short_walk" THEN 0 ELSE CidMod)   \* (seeded: the walk gives up early)
                     cid == t1.nextCid
                     t2  == Flag(t1, "C12.KeyUnique", R_C12_KeyUniquePending(AsTab(t1), <<m.addr, cid>>))
                 IN  [t2 EXCEPT !.conn = @ \cup {[addr |-> m.addr, cid |-> cid, seq |-> m.tok, tok |-> m.tok]},
                                !.nextCid = Nxt(cid, 2)]
      [] m.t = "cdrop" -> [t EXCEPT !.conn = { p \in @ : p.tok # m.tok }]
      [] m.t = "shutdown" ->
            IF m.key \notin Keys(t) THEN t
            ELSE LET e == Entry(t, m.key) IN
                 \* the notification may be stale (entry already cleaned up, key re-used): only an entry whose
                 \* stream has dropped its receiver is removed
                 IF Variant # "stale_shutdown" /\ e.sid \in t.alive THEN t
                 ELSE [t EXCEPT !.streams = @ \ {e}]
      [] OTHER -> t

(***************************************************************************)
(* Next: application / network / task actions, and dispatcher iterations   *)
(***************************************************************************)
\* application and stream-task actions: they only enqueue
AppConnect(a) ==
    /\ s.nTok < MaxConnect
    /\ s' = [s EXCEPT !.nTok = @ + 1, !.ctl = Append(@, [t |-> "connect", addr |-> a, tok |-> s.nTok + 1])]
AppConnectAbandon(tok) ==
    /\ tok \in 1 .. s.nTok /\ tok \notin s.deadTok
    /\ s' = [s EXCEPT !.deadTok = @ \cup {tok}, !.ctl = Append(@, [t |-> "cdrop", tok |-> tok])]
AppAccept ==
    /\ s.nAcc < MaxAccept
    /\ s' = [s EXCEPT !.nAcc = @ + 1, !.chan = Append(@, s.nAcc + 1)]
AppAcceptAbandon(acc) ==
    /\ acc \in 1 .. s.nAcc /\ acc \notin s.deadAcc
    /\ \A h \in 1 .. Len(s.handed) : s.handed[h][1] # acc
    /\ s' = [s EXCEPT !.deadAcc = @ \cup {acc}]
StreamEnds(sid) ==      \* the connection task finishes: its receiver is dropped, then its guard notifies the dispatcher
    /\ sid \in s.alive /\ s.nEnd < MaxEnd
    /\ LET e == CHOOSE x \in s.streams : x.sid = sid IN
       s' = [s EXCEPT !.alive = @ \ {sid}, !.nEnd = @ + 1, !.ctl = Append(@, [t |-> "shutdown", key |-> e.key])]

\* dispatcher iterations, as in Dispatcher::run_once: `cleanup_accept_queue` runs first, then the task WAITS in select!
\* - applications and the network go on while it is parked, so the arm that is served sees a later state than the
\* cleanup did.  (Folding cleanup and arm into one atomic step hides exactly that window.)
DispCleanup ==
    /\ ~s.parked
    /\ s' = [Cleanup(s) EXCEPT !.parked = TRUE]
Arm(t) == [t EXCEPT !.parked = FALSE]
DispAcceptor ==
    /\ s.parked /\ s.ready = 0 /\ s.chan # <<>>
    /\ s' = Arm([s EXCEPT !.ready = Head(s.chan), !.chan = Tail(@)])
DispControl ==
    /\ s.parked /\ s.ctl # <<>>
    /\ s' = Arm(OnControl([s EXCEPT !.ctl = Tail(@)], Head(s.ctl)))
DispSyn(a, c) ==
    /\ s.parked /\ s.nSyn < MaxSyn
    /\ s' = Arm(OnRecv(s, a, c, "syn", 0))
DispState(a, c, ack) ==      \* a SYN-ACK (or any ST_STATE): for a pending connect's id, or a stale / foreign one
    /\ s.parked
    /\ s' = Arm(OnRecv(s, a, c, "state", ack))
DispData(a, c) ==
    /\ s.parked
    /\ s' = Arm(OnRecv(s, a, c, "data", 0))

Next ==
    \/ \E a \in Addrs : AppConnect(a)
    \/ \E tok \in 1 .. MaxConnect : AppConnectAbandon(tok)
    \/ AppAccept
    \/ \E acc \in 1 .. MaxAccept : AppAcceptAbandon(acc)
    \/ \E sid \in s.alive : StreamEnds(sid)
    \/ DispCleanup
    \/ DispAcceptor
    \/ DispControl
    \/ \E a \in Addrs, c \in SynCids : DispSyn(a, c)
    \/ \E p \in s.conn : DispState(p.addr, p.cid, p.seq)                 \* the honest SYN-ACK
    \/ \E e \in s.streams : DispData(e.key[1], e.key[2])                 \* (a datagram for no stream changes nothing)

Spec == Init /\ [][Next]_s

(***************************************************************************)
(* Properties                                                              *)
(***************************************************************************)
\* C12 "connection ids in use between one address pair are unique (pending outgoing connects included)"
KeyUnique ==
    /\ \A e1, e2 \in s.streams : e1.key = e2.key => e1 = e2
    /\ \A p1, p2 \in s.conn : (p1.addr = p2.addr /\ p1.cid = p2.cid) => p1 = p2
    /\ \A p \in s.conn : <<p.addr, p.cid>> \notin Keys(s)
    /\ "C12.KeyUnique" \notin s.bad
\* C12 "The number of live connections never exceeds the configured limit"
LimitRespected == R_C12_LimitRespected(AsTab(s))
\* C12 "No live entry is evicted": a connection whose task still runs stays reachable under its key
NoEviction == \A sid \in s.alive : \E e \in s.streams : e.sid = sid
\* C13 "at most a fixed backlog of unaccepted requests is retained and the excess is refused with a reset"
BacklogBound == R_C13_BacklogBound(Len(s.syns), Backlog)
RefusedOnlyWhenFull == \A n \in s.refusedAt : n >= Backlog
\* C13 "pending connection requests are handed to accept calls in arrival order"; "exactly one accepted stream"
AcceptFifo == \A i, j \in 1 .. Len(s.handed) : i < j => s.handed[i][2] < s.handed[j][2]
AcceptCallOrder == \A i, j \in 1 .. Len(s.handed) : i < j => s.handed[i][1] < s.handed[j][1]
\* C08/C13 slot accounting: pending connects per address are bounded
SlotsBounded == \A a \in Addrs : Cardinality({ p \in s.conn : p.addr = a }) <= Slots
\* a retained SYN and an idle acceptor never coexist once the dispatcher has looked (after Cleanup), unless the table is full
NoIdleAcceptor == LET t == Cleanup(s) IN (t.syns # <<>> /\ ~Full(t)) => (t.ready = 0 /\ t.chan = <<>>)

\* C13 "so later calls are not starved": a dispatcher that waits in select! with nothing left to wake it up does not sit
\* on both an accept call and a retained request (the model counterpart of the trace rule C13.NotStarved)
ParkedNotStarved ==
    (s.parked /\ s.chan = <<>> /\ s.ctl = <<>>) => ~(s.syns # <<>> /\ s.ready # 0 /\ s.ready \notin s.deadAcc /\ ~Full(s))

TypeOK == /\ s.ready \in 0 .. MaxAccept
          /\ s.nextCid \in Cid
          /\ Len(s.syns) <= Backlog
=============================================================================
