------------------------------ MODULE UtpTrace ------------------------------
(***************************************************************************)
(* Trace specification: replays an ND-JSON trace recorded from the real    *)
(* library (harness/, hooks under cfg librqbit_utp_verif) through the      *)
(* contract of Endpoint.tla.  Each line must be an instance of a spec      *)
(* action; the action's effect advances the specification state and the    *)
(* rules attached to the action are *evaluated* on the recorded values     *)
(* (not used as enabling conditions), so one pass reports every broken     *)
(* rule with its line.                                                     *)
(*                                                                         *)
(*   viol : set of <<line, rule, endpoint, context>>                       *)
(*   cov  : rule -> number of times its precondition held                  *)
(*                                                                         *)
(* The verdict is printed by the invariant Report in the state after the   *)
(* last line; TraceAccepted (POSTCONDITION) checks that every line was     *)
(* consumed.                                                               *)
(***************************************************************************)
EXTENDS Endpoint, SocketTab, Wire, Conn, TLC, TLCExt, Json, IOUtils

Rec == ndJsonDeserialize(IOEnv.TRACE)
N == Len(Rec)

VARIABLES
    l,       \* next line
    run,     \* number of the current run (reset lines)
    now,     \* virtual time, microseconds
    meta,    \* facts about the run: schedule class, latency
    eps,     \* endpoint key <<"local|remote", recv conn id>> -> endpoint record
    sendIdx, \* <<"from|to", wire conn id>> -> endpoint key of the sender
    app,     \* application endpoint name -> endpoint key
    infl,    \* datagram id -> endpoint key of its sender (datagrams in flight)
    sk,      \* socket address -> dispatcher tables (SocketTab)
    pairs,   \* connect/accept pairing: keys returned by connect, keys returned by accept
    last,    \* scratch: facts about the immediately preceding lines (last tx, last recv per endpoint)
    viol, cov

vars == <<l, run, now, meta, eps, sendIdx, app, infl, sk, pairs, last, viol, cov>>

RuleNames == {
    "C01.NoGarbage", "C01.SegStable", "C01.SegContiguous", "C01.ReadIsPrefix", "C01.ReadWithinWritten",
    "C02.IdleWrite", "C02.IdleShutdown", "C02.NoStall", "C02.Silence", "C02.CompletesOk", "C02.ReaderWoken", "C02.InWindowTaken",
    "C03.FlushHonest", "C03.EofOnlyAfterFin", "C03.SuccessMeansDelivered", "C03.AbortSurfaces", "C03.NoSuccessAfterAbort", "C03.FinInSequence", "C03.EofAfterAllBytes",
    "C04.AckExact", "C04.AckMonotone", "C04.SackExact", "C04.WindowHonest", "C04.WithinBuffer",
    "C04.ConsumeExact", "C04.OutOfOrderIsAhead", "C04.DuplicateIsOld", "C04.AlreadyPresentIsHeld",
    "C05.WindowRespected", "C05.ZeroWindowSilence", "C05.SlowStartBound", "C05.OneSegmentAfterRto",
    "C06.SegStable", "C06.NeverRetxAcked", "C06.Cap", "C06.CapReason", "C06.RetxAllowed", "C06.RtoNotEarly",
    "C06.Backoff", "C06.RtoRange", "C06.FastRetx", "C06.RtoFires", "C06.TimerArmed",
    "C07.NoSpontaneousAck", "C07.DelayedAck", "C07.ImmediateAck",
    "C08.SilentAfterEnd", "C08.SlotFreed", "C08.EndsInTime",
    "C08.LimitReusable",
    "C10.NoPanic", "C10.NoBugError", "C10.BoundedBuffers",
    "C12.KeyUnique", "C12.LimitRespected", "C12.TableAgrees", "C12.RouteAgrees", "C12.DeliverToNamed", "C12.NoEviction", "C12.DeadCleanup", "C12.NoSpontaneousClose",
    "C13.AcceptFifo", "C13.BacklogBound", "C13.RefusedOnlyWhenFull", "C13.ExcessRefused", "C13.ResetMatches",
    "C13.AcceptReturnsMatched", "C13.AcceptCallOrder", "C13.PairOnce", "C13.ReleaseOnAbandon", "C13.NotStarved",
    "C18.NagleHold", "C18.NoHoldWhenOff", "C18.NagleDrain",
    "C11.EmitWellFormed", "C11.EmitConnId",
    "C14.NeverAboveLink", "C14.OrdinaryWithinProven", "C14.OneProbe", "C14.Converges", "C14.LogProbes", "C14.CeilingOnlyByFailure",
    "C17.FinSeq", "C17.FinAfterData", "C17.NothingAfterFin", "C17.PeerFinInOrder", "C17.FinAnswered",
    "C17.ResetAborts", "C17.ResetNoReply", "C17.SynAckForm", "C17.SynAckRepeats", "C17.Transition", "C17.HandshakeGate", "C17.FinTimerArmed",
    "C19.TxBounded", "C19.WriteNotStuck" }

EmptyFn == << >>
NoMeta == [class |-> "", lat |-> 0, backlog |-> 32, path |-> 0, cancelled |-> FALSE]
NoPairs == [connected |-> {}, accepted |-> {}, acceptedN |-> 0]

Init ==
    /\ l = 1 /\ run = 0 /\ now = 0 /\ meta = NoMeta
    /\ eps = EmptyFn /\ sendIdx = EmptyFn /\ app = EmptyFn /\ infl = EmptyFn
    /\ sk = EmptyFn /\ pairs = NoPairs
    /\ last = [tx |-> [k |-> <<>>], rx |-> EmptyFn]
    /\ viol = {} /\ cov = [r \in RuleNames |-> 0]

(* rs: set of <<endpoint key, rule name, applicable, applicable => holds, context>> *)
JudgeAll(rs) ==
    LET broken == { x \in rs : x[3] /\ ~x[4] }
        c == { x[2] : x \in { y \in rs : y[3] } }
        \* (bounded per signature = rule + context, not in total: a finding that repeats on every packet must not
        \*  crowd out a different one later in the trace)
        fresh == { x \in broken : Cardinality({ v \in viol : v[2] = x[2] /\ v[4] = x[5] }) < 4 }
    IN  /\ viol' = IF broken = {} THEN viol ELSE viol \cup { <<l, x[2], x[1], x[5]>> : x \in fresh }
        /\ cov' = IF c = {} THEN cov ELSE [r \in RuleNames |-> cov[r] + IF r \in c THEN 1 ELSE 0]
JudgeCtx(k, rs, ctx) == JudgeAll({ <<k, x[1], x[2], x[3], ctx>> : x \in rs })
Judge(k, rs) == JudgeCtx(k, rs, "")
NoJudge == UNCHANGED <<viol, cov>>

Has(r, f) == f \in DOMAIN r
Key(r) == <<r.lr, r.cid>>
Live(k) == k \in DOMAIN eps

IpUdp(cfg) == IF cfg.v6 THEN 48 ELSE 28
Sock(a) == IF a \in DOMAIN sk THEN sk[a] ELSE NewSock(-1)
SetSock(a, s) == sk' = Put(sk, a, s)
SKey(r) == <<r.remote, r.cid>>
SockRules(a, rs) == { <<<<a, -1>>, x[1], x[2], x[3], "">> : x \in rs }
IsBug(s) == Len(s) >= 3 /\ SubSeq(s, 1, 3) = "bug"

---------------------------------------------------------------------------
Reset(r) ==
    /\ run' = run + 1 /\ now' = 0
    /\ meta' = [class |-> IF Has(r.cfg, "info") /\ Has(r.cfg.info, "class") THEN r.cfg.info.class ELSE "",
                lat |-> r.cfg.latency_us,
                backlog |-> IF Has(r.cfg, "info") /\ Has(r.cfg.info, "backlog") THEN r.cfg.info.backlog ELSE 32,
                path |-> IF Has(r.cfg, "info") /\ Has(r.cfg.info, "path_payload") THEN r.cfg.info.path_payload ELSE 0,
                cancelled |-> FALSE]      \* a socket of this run was cancelled by the script
    /\ eps' = EmptyFn /\ sendIdx' = EmptyFn /\ app' = EmptyFn /\ infl' = EmptyFn
    /\ sk' = EmptyFn /\ pairs' = NoPairs
    /\ last' = [tx |-> [k |-> <<>>], rx |-> EmptyFn]
    /\ NoJudge

(***************************************************************************)
(* Time advances: every open obligation is checked against the new time.   *)
(***************************************************************************)
ConnInFlight(k, pk) == \E i \in DOMAIN infl : infl[i] = k \/ infl[i] = pk

\* the connection of endpoint k is stalled: accepted bytes are undelivered, the reader is waiting, nothing is
\* in flight and no timer that the properties name is running
Stalled(k) ==
    LET e == eps[k]
        alive == ~e.ended /\ e.dying = ""
        pk == e.cfg.peer
        hasPeer == Live(pk)
        p == IF hasPeer THEN eps[pk] ELSE e
    IN  /\ meta.class \in {"fair-lossy", "loss-free"}
        /\ hasPeer /\ e.wr > p.rd /\ p.readPend /\ ~p.ended /\ p.dying = "" /\ alive /\ ~p.rDropped
        /\ ~(\E i \in DOMAIN infl : infl[i] = k \/ infl[i] = pk)
        /\ (e.tRtx < 0) /\ (p.tRtx < 0) /\ e.ackDue < 0 /\ p.ackDue < 0
        /\ e.tAck < 0 /\ p.tAck < 0

TickRules(k, t) ==
    LET e == eps[k]
        alive == ~e.ended /\ e.dying = ""
        pk == e.cfg.peer
        hasPeer == Live(pk)
        p == IF hasPeer THEN eps[pk] ELSE e
        undel == hasPeer /\ e.wr > p.rd /\ p.readPend /\ ~p.ended /\ p.dying = "" /\ alive /\ ~p.rDropped
        quiet == /\ ~ConnInFlight(k, pk)
                 /\ (e.tRtx < 0) /\ (p.tRtx < 0) /\ e.ackDue < 0 /\ p.ackDue < 0
                 /\ e.tAck < 0 /\ p.tAck < 0
        fair == meta.class \in {"fair-lossy", "loss-free"}
    IN  { <<k, "C07.ImmediateAck", e.ackImm > 0 /\ alive /\ ~e.txPending, FALSE, "">>,
          \* "... once the unacknowledged bytes reach twice its own segment size" (its segment size at this instant)
          <<k, "C07.ImmediateAck", e.unackedB > 0 /\ alive /\ ~e.txPending, e.unackedB < 2 * OwnMss(e), "2mss">>,
          <<k, "C07.DelayedAck", e.ackDue >= 0 /\ alive /\ ~e.txPending, R_C07_DelayedAck(e, t), "">>,
          <<k, "C06.FastRetx", e.frDue > 0 /\ alive /\ ~e.txPending, FALSE, "">>,
          <<k, "C06.RtoFires", (SentUnacked(e) \/ FinUnacked(e)) /\ alive /\ e.tRtx >= 0 /\ ~e.txPending,
                               t <= e.tRtx + Eps, "">>,
          <<k, "C02.IdleWrite", e.idleWr > 0 /\ alive /\ ~e.txPending, FALSE, "">>,
          <<k, "C02.ReaderWoken", e.eofDue > 0 /\ e.readPend /\ ~e.rDropped, FALSE, "">>,
          \* C18 "small writes are coalesced into the next full segment or sent when the pipe drains"
          <<k, "C18.NagleDrain", e.drainDue > 0 /\ alive /\ ~e.txPending, FALSE, "">>,
          <<k, "C02.IdleShutdown", e.idleFin > 0 /\ alive /\ ~e.txPending, FALSE, "">>,
          <<k, "C17.FinAnswered", e.finAnsDue > 0 /\ alive /\ ~e.txPending, FALSE, "">>,
          <<k, "C17.ResetAborts", e.resetAt > 0 /\ ~e.ended, FALSE, "">>,
          <<k, "C08.SlotFreed", e.slotDue > 0, FALSE, "">>,
          <<k, "C08.EndsInTime", ~e.ended /\ e.released >= 0,
                                 \* (bounded: the configured inactivity timeout, the final-chance delay after the FIN, and the
                                 \*  task wrapper's 5 s tick, which is what notices a dropped reader)
                                 \* ("under any network behaviour": only packets that bring something - there can only be
                                 \*  finitely many once nobody reads - move the deadline, not any packet)
                                 t <= Max(e.released, e.lastGainAt) + e.cfg.inactivity + 1000000 + 5000000 + Eps, "">>,
          <<k, "C03.AbortSurfaces", e.ended /\ e.pend # {}, FALSE, "">>,
          <<k, "C19.WriteNotStuck", "write" \in e.pend /\ alive, R_C19_WriteNotStuck(e), "">>,
          \* (known finding D4: the sender believes the window is zero although the receiver has since advertised
          \*  a non-zero one - that acknowledgement was lost and nothing repeats it)
          \* (... and nothing is cut: with segments queued the pinned code's retransmission timer keeps running and
          \*  doubles as a window probe, see D6)
          <<k, "C02.NoStall", fair /\ undel, ~quiet,
                              IF e.pwnd = 0 /\ hasPeer /\ p.lastWnd > 0 /\ e.rxCount > 0 /\ e.segd = 0 THEN "pwnd=0" ELSE "">>,
          <<k, "C02.Silence", meta.class = "loss-free" /\ undel,
                              t - Max(e.lastWire, p.lastWire) <= 2 * meta.lat + ACK_DELAY + Eps, "">> }

Tick(r) ==
    /\ now' = r.now
    /\ UNCHANGED <<run, meta, sendIdx, app, infl, pairs, last>>
    /\ JudgeAll(UNION { TickRules(k, r.now) : k \in DOMAIN eps }
                \cup UNION { SockRules(a, { <<"C13.ExcessRefused", sk[a].rstDue # {}, FALSE>>,
                      \* C13 "pending connection requests are handed to accept calls ..., so later calls are not starved":
                      \* the dispatcher acts in no time, so when the clock advances no accept call is left waiting
                      \* while a request is retained and the table has room
                      <<"C13.NotStarved", Len(sk[a].calls) > Len(sk[a].matched) /\ sk[a].synq # <<>>
                                          /\ Cardinality(sk[a].streams) < sk[a].limit /\ ~meta.cancelled, FALSE>> }) : a \in DOMAIN sk })
    /\ sk' = [a \in DOMAIN sk |-> [sk[a] EXCEPT !.rstDue = {}]]
    \* an obligation is reported once
    /\ eps' = [k \in DOMAIN eps |->
                 [eps[k] EXCEPT !.ackImm = 0, !.frDue = 0, !.idleWr = 0, !.idleFin = 0, !.finAnsDue = 0, !.drainDue = 0,
                                !.eofDue = 0, !.trans = [@ EXCEPT !.on = FALSE],
                                !.slotDue = 0,
                                !.resetAt = 0,
                                !.ackDue = IF @ >= 0 /\ r.now > @ + Eps THEN -1 ELSE @,
                                !.pend = IF eps[k].ended THEN {} ELSE @,
                                !.stalled = IF @ = "" /\ (Stalled(k) \/ (Live(eps[k].cfg.peer) /\ Stalled(eps[k].cfg.peer)))
                                            THEN (IF \/ (eps[k].pwnd = 0 /\ eps[k].segd = 0 /\ Live(eps[k].cfg.peer) /\ eps[eps[k].cfg.peer].lastWnd > 0)
                                                     \/ (Live(eps[k].cfg.peer) /\ eps[eps[k].cfg.peer].pwnd = 0 /\ eps[eps[k].cfg.peer].segd = 0
                                                         /\ eps[k].lastWnd > 0)
                                                  THEN "after-zero-window-stall" ELSE "after-stall")
                                            ELSE @]]

ConnNew(r) ==
    LET k == Key(r)
        cfg == [rx_buf |-> r.rx_buf, tx_init |-> r.tx_init, tx_max |-> r.tx_max, nagle |-> r.nagle,
                max_retx |-> r.max_retx, inactivity |-> r.inactivity, wait_last_ack |-> r.wait_last_ack,
                probe_retx |-> r.probe_retx, link_mtu |-> r.link_mtu, limit |-> r.limit,
                incoming |-> r.incoming, cid_send |-> r.cid_send, peer |-> <<r.rl, r.cid_send>>,
                mss0 |-> r.mss, v6 |-> r.v6, local |-> r.local, remote |-> r.remote]
        e == NewEndpoint(cfg, r.seq_nr, r.rnxt, r.pwnd, now)
    IN  /\ eps' = Put(eps, k, e)
        /\ sendIdx' = Put(sendIdx, <<r.lr, r.cid_send>>, k)
        /\ UNCHANGED <<run, now, meta, app, infl, sk, pairs, last>> /\ NoJudge

---------------------------------------------------------------------------
(* A datagram handed to the network by a connection endpoint.              *)
TxEndpoint(r, h, k) ==
    LET e == eps[k]
        wnd == Wnd(h)
        isData == h.type = ST_DATA
        isFin == h.type = ST_FIN
        s == h.seq
        sack == SackBytes(h)
        abort == e.dying \notin {"", "ok"}
        handshake == e.cfg.incoming /\ e.rxCount = 0
        common == {
            <<"C11.EmitConnId", TRUE, h.cid = e.cfg.cid_send>>,
            <<"C14.NeverAboveLink", TRUE, r.len <= e.cfg.link_mtu - IpUdp(e.cfg)>>,
            <<"C04.AckExact", TRUE, R_C04_AckExact(e, h.ack)>>,
            <<"C04.AckMonotone", e.lastAck >= 0, R_C04_AckMonotone(e, h.ack)>>,
            \* (once the peer's FIN has been taken in the stream is complete: packets "beyond" it are not out-of-order
            \*  data of the stream, and what is reported about them is not judged)
            <<"C04.SackExact", h.type = ST_STATE /\ e.peerFin < 0,
                               R_C04_SackExact(e, h.ack, HasSack(h), SackSet(sack))>>,
            <<"C04.WindowHonest", TRUE, R_C04_WindowHonest(e, wnd)>>,
            <<"C08.SilentAfterEnd", e.ended, FALSE>>,
            \* (an acknowledgement that was already owed for earlier packets is not a reply to the RESET)
            <<"C17.ResetNoReply", e.resetAt > 0 /\ e.ackImm = 0 /\ e.ackDue < 0, FALSE>>,
            <<"C07.NoSpontaneousAck", h.type = ST_STATE /\ e.state = "established" /\ e.rxCount > 0 /\ ~abort,
                                      R_C07_NoSpontaneousAck(e, wnd)>>,
            <<"C17.SynAckForm", handshake, h.type \in {ST_STATE, ST_FIN}>>,
            \* (the SYN-ACK and its timer-driven repeats; an ACK provoked by the application, e.g. a window change,
            \*  is not a repeat)
            <<"C17.SynAckRepeats", handshake /\ h.type = ST_STATE /\ (e.txCount = 0 \/ ~e.stim), e.synAcks + 1 <= e.cfg.max_retx>> }
        \* (once the peer's FIN has been taken in this implementation is closing in both directions: it answers with a
        \*  FIN numbered after the last segment it TRANSMITTED and may still transmit segments it had cut before, under
        \*  numbers that collide with that FIN; the peer has closed and discards them.  The sender-side clauses are about
        \*  an open sending direction and are not judged from there on - the same scoping as in Xmit.)
        data == IF ~isData THEN {} ELSE IF e.peerFin >= 0 THEN { <<"C01.NoGarbage", TRUE, R_NoGarbage(r.runs)>> } ELSE {
            <<"C01.NoGarbage", TRUE, R_NoGarbage(r.runs)>>,
            <<"C01.SegStable", Known(e, s), R_SegStable(e, s, r.runs, r.alts, r.amb, r.plen)>>,
            <<"C06.SegStable", Known(e, s), R_SegStable(e, s, r.runs, r.alts, r.amb, r.plen)>>,
            <<"C01.SegContiguous", ~Known(e, s) /\ s = e.nxt,
                                   R_SegContiguous(e, s, r.runs, r.alts, r.amb, r.plen)>>,
            <<"C06.NeverRetxAcked", IsRetx(e, s), R_C06_NeverRetxAcked(e, s)>>,
            <<"C17.NothingAfterFin", e.fin.seq >= 0 /\ e.fin.own, R_C17_NothingAfterFin(e, s)>> }
        fin == IF ~isFin THEN {} ELSE {
            \* C12 "they do not evict or corrupt existing ones": a connection whose channel from the dispatcher is taken
            \* away closes as if its application had asked for it - a first FIN that nobody asked for (no shutdown, not both
            \* halves dropped, no FIN from the peer, no abort) is that symptom
            <<"C12.NoSpontaneousClose", e.fin.seq < 0 /\ e.peerFin < 0 /\ ~abort /\ e.resetAt = 0,
                                        e.shutAt >= 0 \/ (e.wDropped /\ e.rDropped)>>,
            \* (the FIN clauses are about an endpoint closing on its own initiative, or aborting)
            <<"C17.FinSeq", abort \/ e.peerFin < 0 \/ (e.fin.seq >= 0 /\ e.fin.own), R_C17_FinSeq(e, s, abort)>>,
            <<"C17.FinAfterData", ~abort /\ e.peerFin < 0 /\ e.fin.seq < 0, R_C17_FinAfterData(e)>> }
        pos == IF isData /\ Len(r.runs) >= 1 THEN r.runs[1][1] ELSE -1
        first == isData /\ (~Known(e, s) \/ IsSplit(e, s, r.plen))
        e1 == IF isData THEN TxData(e, s, pos, r.plen, now)
              ELSE IF isFin THEN TxFin(e, s, abort, now) ELSE e
        post == IF ~isData THEN {} ELSE { <<"C06.Cap", TRUE, R_C06_Cap(e1, s)>> }
        pk == e.cfg.peer
        splitDel == isData /\ IsSplit(e, s, r.plen) /\ Live(pk) /\ D(s, eps[pk].rnxt) <= 0
        e2 == [Emitted(e1, h.ack, wnd, now) EXCEPT !.splitDelivered = @ \/ splitDel, !.lastEmitAt = now,
                                                   !.splitWhy = IF ~e.splitDelivered /\ splitDel THEN e.popWhy ELSE @,
                                                   !.synAcks = IF handshake /\ h.type = ST_STATE /\ (e.txCount = 0 \/ ~e.stim) THEN @ + 1 ELSE @,
                                                   !.idleWr = IF isData THEN 0 ELSE @,
                                                   !.drainDue = IF isData THEN 0 ELSE @]
    IN  /\ JudgeCtx(k, common \cup data \cup fin \cup post, SplitCtx(e))
        /\ eps' = [eps EXCEPT ![k] = e2]
        /\ infl' = IF r.fate \in {"deliver", "dup"} THEN Put(infl, r.id, k) ELSE infl
        /\ last' = [last EXCEPT !.tx = [k |-> k, type |-> h.type, seq |-> s, first |-> first,
                                        plen |-> r.plen, line |-> l]]

Tx(r) ==
    IF r.res # "ok"
    THEN \* the transport refused the datagram (EMSGSIZE): nothing was emitted.  (A RESET the dispatcher owed for a
         \* refused SYN counts as attempted: it cannot do more.)
         LET h0 == ParseMessage(r.hdr, r.len) so0 == Sock(r.from) IN
         /\ UNCHANGED <<run, now, meta, eps, sendIdx, app, infl, pairs, last>> /\ NoJudge
         /\ IF h0.ok /\ h0.type = ST_RESET /\ ~Has(r, "raw") /\ <<r.ft, h0.cid>> \notin DOMAIN sendIdx
            THEN SetSock(r.from, ResetSent(so0, r.to, h0.cid, h0.ack)) ELSE UNCHANGED sk
    ELSE
    LET h == ParseMessage(r.hdr, r.len)
        skey == IF h.ok THEN <<r.ft, h.cid>> ELSE <<>>
        raw == Has(r, "raw")
        isRst == h.ok /\ h.type = ST_RESET /\ ~raw
        so == Sock(r.from)
    IN  /\ UNCHANGED <<run, now, meta, sendIdx, app, pairs>>
        /\ IF ~h.ok
           THEN \* only library sockets are held to C11; the scripted raw peer may emit anything
                /\ (IF raw THEN NoJudge ELSE Judge(<<r.ft, -1>>, { <<"C11.EmitWellFormed", TRUE, FALSE>> }))
                /\ UNCHANGED <<eps, last, infl, sk>>
           ELSE IF skey \in DOMAIN sendIdx /\ ~raw
           THEN TxEndpoint(r, h, sendIdx[skey]) /\ UNCHANGED sk
           ELSE /\ (IF raw THEN NoJudge
                    ELSE Judge(<<r.ft, h.cid>>, { <<"C11.EmitWellFormed", TRUE, TRUE>>,
                                                 \* C13 "the excess is refused with a reset": a dispatcher RESET answers a refused SYN
                                                 <<"C13.ResetMatches", isRst, R_C13_ResetMatches(so, r.to, h.cid, h.ack)>>,
                                                 \* C11 "carries the connection id owed to its direction": the refused initiator
                                                 \* receives on the id of its own SYN
                                                 <<"C11.EmitConnId", isRst, R_C13_ResetMatches(so, r.to, h.cid, h.ack)>> }))
                /\ infl' = IF r.fate \in {"deliver", "dup"} THEN Put(infl, r.id, <<r.ft, h.cid>>) ELSE infl
                /\ (IF isRst THEN SetSock(r.from, ResetSent(so, r.to, h.cid, h.ack)) ELSE UNCHANGED sk)
                /\ UNCHANGED <<eps, last>>

TxFail(r) ==   \* transport back-pressure: the endpoint could not hand the datagram over
    /\ UNCHANGED <<run, now, meta, sendIdx, app, infl, sk, pairs, last, eps>> /\ NoJudge

Dup(r) ==
    /\ infl' = IF r.of \in DOMAIN infl THEN Put(infl, r.id, infl[r.of]) ELSE infl
    /\ UNCHANGED <<run, now, meta, eps, sendIdx, app, sk, pairs, last>> /\ NoJudge

Deliver(r) ==
    /\ infl' = Del(infl, {r.id})
    /\ UNCHANGED <<run, now, meta, eps, sendIdx, app, sk, pairs, last>> /\ NoJudge

(* The hook after a data / FIN transmission: flow-control and retransmission rules. *)
Xmit(r) ==
    LET k == Key(r) IN
    /\ UNCHANGED <<run, now, meta, sendIdx, app, infl, sk, pairs, last>>
    /\ IF ~Live(k) THEN NoJudge /\ UNCHANGED eps
       ELSE LET e == eps[k]
                isFin == r.tag = "fin"
                first == ~isFin /\ last.tx.k = k /\ last.tx.seq = r.seq /\ last.tx.first
                retx == ~isFin /\ ~first
                isRto == r.tag = "rto"
                ordinary == ~r.probe
                \* once the peer's FIN has been accepted the connection is closing in both directions (this
                \* implementation fails the local writer and drops unsent data): the sending rules no longer apply
                rules == IF isFin \/ e.peerFin >= 0 THEN { <<"C06.RtoRange", TRUE, R_C06_RtoRange(r.rto)>> } ELSE {
                    <<"C05.WindowRespected", first, R_C05_WindowRespected(e, r.recovering)>>,
                    <<"C05.ZeroWindowSilence", first, R_C05_ZeroWindowSilence(e, r.recovering)>>,
                    <<"C05.SlowStartBound", first, R_C05_SlowStartBound(e, r.mss)>>,
                    <<"C05.OneSegmentAfterRto", e.rtoMode, R_C05_OneSegmentAfterRto(e, r.tag)>>,
                    <<"C06.RetxAllowed", retx, R_C06_RetxAllowed(e, r.seq, r.tag)>>,
                    <<"C06.RtoNotEarly", retx /\ isRto, R_C06_RtoNotEarly(e, now)>>,
                    <<"C06.Backoff", retx /\ isRto /\ ordinary /\ e.rtoMode, R_C06_Backoff(e, r.rto)>>,
                    <<"C06.RtoRange", TRUE, R_C06_RtoRange(r.rto)>>,
                    \* C14 "ordinary segments never exceed the largest payload size already proven deliverable (or the protocol minimum)"
                    \* (a peer that acknowledges sequence numbers never transmitted - among them a probe that was cut but
                    \*  not sent - has "proven" a size by lying; only its own connection is affected)
                    <<"C14.OrdinaryWithinProven", first /\ ordinary /\ ~e.peerLied, r.len <= OwnMss(e)>>,
                    \* C14 "at most one oversized probe is outstanding and it is the newest segment"
                    <<"C14.OneProbe", first, e.probeOut < 0 \/ e.probeOut = r.seq>>,
                    \* C14 "settles, after a logarithmic number of probes": a binary search over at most 2^14 sizes
                    <<"C14.LogProbes", first /\ ~ordinary, e.probes + 1 <= 16>> }
                e1 == [e EXCEPT
                        !.lossSeen = @ \/ retx \/ r.recovering \/ isRto,
                        !.rtoMode = IF isRto /\ retx THEN TRUE ELSE @,
                        !.rtoLast = IF isRto /\ retx /\ ordinary THEN r.rto ELSE @,
                        !.rtxBase = IF isRto THEN now ELSE @,
                        !.recPoint = IF isRto /\ retx THEN Nx(e.nxt, SeqMod - 1) ELSE @,
                        !.frDue = IF retx \/ r.recovering THEN 0 ELSE @,
                        !.probeOut = IF first /\ ~ordinary THEN r.seq ELSE @,
                        !.probes = IF first /\ ~ordinary THEN @ + 1 ELSE @,
                        !.newSegs = IF first THEN @ + 1 ELSE @,
                        \* after a timeout every other outstanding segment is presumed lost (go-back-N)
                        !.segs = IF isRto /\ retx
                                 THEN [s \in DOMAIN @ |->
                                        IF s # r.seq /\ @[s].counted
                                        THEN [@[s] EXCEPT !.lost = TRUE, !.counted = FALSE] ELSE @[s]]
                                 ELSE IF r.seq \in DOMAIN @ THEN [@ EXCEPT ![r.seq].probe = r.probe] ELSE @,
                        !.flight = IF isRto /\ retx
                                   THEN (IF r.seq \in DOMAIN e.segs THEN e.segs[r.seq].len ELSE 0)
                                   ELSE @ ]
                \* known finding: the implementation keeps the retransmission timer running for data that is
                \* segmented but was never transmitted; a timeout then comes early for what is sent meanwhile
                ctx == "tag=" \o r.tag \o (IF isRto /\ e.idleArmed >= 0 /\ e.idleArmed = e.tRtx THEN ",idle-armed" ELSE "")
            IN  JudgeCtx(k, rules, ctx) /\ eps' = [eps EXCEPT ![k] = e1]

---------------------------------------------------------------------------
(* The connection task processes one packet (entry of process_incoming_message). *)
ActsOn(e, r) ==   \* the packets whose acknowledgement fields the connection honours
    /\ r.t \in {ST_DATA, ST_STATE, ST_FIN}
    /\ ~(r.t = ST_FIN /\ e.peerFin < 0 /\ r.seq # Nx(e.rnxt, 1))
    /\ ~(r.state = "syn-ack-sent" /\ r.t # ST_FIN /\ r.ack # Nx(e.nxt, SeqMod - 1))
    /\ ~(r.state = "last-ack" /\ r.t = ST_DATA /\ e.peerFin >= 0 /\ D(r.seq, e.peerFin) > 0)
    /\ r.state # "closed"

Recv(r) ==
    LET k == Key(r) IN
    /\ UNCHANGED <<run, now, meta, sendIdx, app, infl, pairs>>
    /\ IF ~Live(k) THEN UNCHANGED <<eps, last, sk>> /\ NoJudge
       ELSE LET e == eps[k]
                e1 == IF ActsOn(e, r)
                      THEN RecvAck(e, r.ack, r.wnd, r.has_sack, IF r.has_sack THEN SackSet(r.sack) ELSE {},
                                   r.t = ST_STATE, now, l)
                      ELSE e
                \* (the window must have room for any pre-cut segment: uTP does not re-segment)
                drain == /\ SentUnacked(e) /\ ~SentUnacked(e1) /\ e1.nextOff < e1.wr /\ e1.pwnd >= e1.cfg.link_mtu
                         /\ r.state = "established" /\ e1.peerFin < 0 /\ ~e1.txPending
                e2 == [e1 EXCEPT !.state = r.state, !.stim = TRUE, !.rxCount = @ + 1, !.lastRxAt = now,
                                 !.lastGainAt = IF e1.acked # e.acked \/ r.state # e.state \/ e1.fin # e.fin \/ e.rxCount = 0
                                                   \/ DOMAIN e1.segs # DOMAIN e.segs THEN now ELSE @,
                                 !.peerLied = @ \/ (r.t \in {ST_DATA, ST_STATE, ST_FIN} /\ D(r.ack, Nx(e.nxt, SeqMod - 1)) > 0
                                                     /\ ~(e.fin.seq >= 0 /\ r.ack = e.fin.seq)),
                                 !.lastDataRxAt = IF r.t \in {ST_DATA, ST_FIN} THEN now ELSE @,
                                 !.maxArr = IF r.t = ST_DATA /\ ActsOn(e, r) THEN Max(@, r.plen) ELSE @,
                                 !.drainDue = IF drain THEN l ELSE @,
                                 !.lastWire = now,
                                 !.resetAt = IF r.t = ST_RESET THEN l ELSE @,
                                 !.stateAtReset = IF r.t = ST_RESET THEN r.state ELSE @]
                \* C17: the state this packet meets must be one the previous packet was allowed to leave behind
                \* (our FIN's number: the one transmitted, else the one designated when the peer's FIN was taken in -
                \*  this implementation may still transmit segments it had already cut under that number, see DESIGN.md)
                ourFin == IF e.fin.seq >= 0 THEN e.fin.seq ELSE IF e.finDesig >= 0 THEN e.finDesig ELSE e.nxt
                tr == [on |-> TRUE, st |-> r.state,
                       t |-> CASE r.t = ST_DATA -> "data" [] r.t = ST_STATE -> "state" [] r.t = ST_FIN -> "fin"
                               [] r.t = ST_RESET -> "reset" [] OTHER -> "syn",
                       ackSyn |-> r.ack = Nx(e.nxt, SeqMod - 1), ackFin |-> r.ack = ourFin, seqNext |-> r.seq = Nx(e.rnxt, 1)]
            IN  /\ eps' = [eps EXCEPT ![k] = [e2 EXCEPT !.trans = tr]]
                \* (a local step - the application closing - may come between two packets when they are taken in
                \*  separate polls)
                /\ Judge(k, { <<"C17.Transition", e.trans.on, ~e.trans.on \/ r.state \in LocalClosure(Allowed(e.trans.st, e.trans))>>,
                              <<"C06.FastRetx", e1.frDue > 0 /\ e.frDue = 0, TRUE>>,
                              <<"C17.ResetAborts", r.t = ST_RESET, TRUE>>,
                              <<"C18.NagleDrain", drain, TRUE>>,
                              <<"C12.DeliverToNamed", TRUE, R_C12_DeliverToNamed(Sock(r.local), SKey(r))>> })
                /\ SetSock(r.local, Processed(Sock(r.local), SKey(r)))
                /\ last' = [last EXCEPT !.rx = Put(@, k, [seq |-> r.seq, plen |-> r.plen, t |-> r.t, line |-> l,
                                                             gated |-> r.state = "syn-ack-sent" /\ r.t # ST_FIN
                                                                       /\ r.ack # Nx(e.nxt, SeqMod - 1)])]

(* Disposition of a DATA / FIN packet by the receive side. *)
Disp(r) ==
    LET k == Key(r) IN
    /\ UNCHANGED <<run, now, meta, sendIdx, app, infl, sk, pairs, last>>
    /\ IF ~Live(k) THEN NoJudge /\ UNCHANGED eps
       ELSE LET e == eps[k]
                s == r.seq
                plen == IF k \in DOMAIN last.rx /\ last.rx[k].seq = s THEN last.rx[k].plen ELSE 0
                w == r.what
                e1 == CASE w = "consumed" /\ s = Nx(e.rnxt, 1) -> DispConsumed(e, s, plen, now, l)
                        [] w = "out_of_order" /\ s \notin DOMAIN e.held /\ D(s, Nx(e.rnxt, 1)) > 0 -> DispOutOfOrder(e, s, plen, now, l)
                        [] w \in {"duplicate", "already_present"} -> DispDuplicate(e, now, l)
                        \* (a FIN taken in out of sequence does not move the specification's in-order point: the ACK that
                        \*  follows then breaks C04.AckExact as well as the FIN rules)
                        [] w = "fin_accepted" /\ R_C17_PeerFinInOrder(e, s) -> DispFinAccepted(e, s, now, l)
                        [] w = "fin_repeat" -> DispDuplicate(e, now, l)
                        [] OTHER -> e
                rules == {
                    <<"C04.ConsumeExact", w = "consumed", R_C04_ConsumeExact(e, s, r.n, r.bytes, plen)>>,
                    <<"C04.OutOfOrderIsAhead", w = "out_of_order", R_C04_OutOfOrderIsAhead(e, s)>>,
                    <<"C04.DuplicateIsOld", w = "duplicate", R_C04_DuplicateIsOld(e, s)>>,
                    <<"C04.AlreadyPresentIsHeld", w = "already_present", R_C04_AlreadyPresentIsHeld(e, s)>>,
                    <<"C04.WithinBuffer", w \in {"consumed", "out_of_order"}, R_C04_WithinBuffer(e1)>>,
                    \* C04 "the advertised receive window never exceeds the free space actually left" / C02 "progress never waits
                    \* for a retransmission": the next in-order packet, no larger than the window last advertised, with nothing
                    \* held out of order, is not turned away.  (The window was advertised together with an acknowledgement
                    \* number: what has been taken in since that emission counts against it.)
                    \* (Not judged once the application has dropped the read half: nothing is handed over any more, the
                    \*  packets are parked in the reassembly queue whose capacity is counted in packets, and a peer that
                    \*  sends tiny packets fills it below the advertised byte count - DESIGN.md 0.3, observations.)
                    <<"C04.WindowHonest", w = "unavailable" /\ s = Nx(e.rnxt, 1) /\ DOMAIN e.held = {} /\ e.txCount > 0
                                          /\ plen > 0 /\ e.unackedB + plen <= e.lastWnd /\ ~e.rDropped, FALSE>>,
                    <<"C02.InWindowTaken", w \in {"unavailable", "consumed"} /\ s = Nx(e.rnxt, 1) /\ DOMAIN e.held = {}
                                           /\ e.txCount > 0 /\ plen > 0 /\ e.unackedB + plen <= e.lastWnd /\ ~e.rDropped,
                                           w # "unavailable">>,
                    <<"C17.PeerFinInOrder", w = "fin_accepted", R_C17_PeerFinInOrder(e, s)>>,
                    \* C17 "until the initiator's first packet arrives": while the endpoint waits for the packet that
                    \* acknowledges its SYN-ACK, a packet that does not is dropped as a whole - its payload is not taken in
                    <<"C17.HandshakeGate", w \in {"consumed", "out_of_order"} /\ k \in DOMAIN last.rx /\ last.rx[k].seq = s,
                                           ~(k \in DOMAIN last.rx) \/ ~last.rx[k].gated>>,
                    \* C03 "a reader sees end-of-stream only after every byte that preceded the peer's FIN": the end-of-stream
                    \* marker enters the reassembly queue only at the position following the last in-order byte
                    <<"C03.FinInSequence", w = "fin_accepted", R_C17_PeerFinInOrder(e, s)>>,
                    \* obligations opened here (coverage: an obligation counts as exercised when it is opened;
                    \* it is judged when the clock advances)
                    <<"C07.ImmediateAck", e1.ackImm > 0 /\ e.ackImm = 0, TRUE>>,
                    <<"C07.DelayedAck", e1.ackDue >= 0 /\ e.ackDue < 0, TRUE>>,
                    <<"C17.FinAnswered", e1.finAnsDue > 0, TRUE>> }
                \* C02 "blocked readers/writers are always woken when their condition changes": end-of-stream became
                \* readable while a read was waiting
                e2 == [e1 EXCEPT !.eofDue = IF w = "fin_accepted" /\ e.readPend THEN l ELSE @,
                                 \* C08 "whatever the peer does": payload taken in after the read half was dropped only
                                 \* counts as progress while the reassembly queue can still hold it - a peer that keeps
                                 \* sending must not keep an abandoned connection alive for ever
                                 !.orphanPk = IF e.rDropped /\ w \in {"consumed", "out_of_order"} THEN @ + 1 ELSE @,
                                 !.lastGainAt = IF w = "fin_accepted"
                                                   \/ (w \in {"consumed", "out_of_order"} /\ (~e.rDropped \/ e.orphanPk < Slots(e)))
                                                THEN now ELSE @]
                \* known finding D1b, second shape: the probe was still on its way when the sender cut its bytes again
                \* under the same number, and is taken in now - with a length the sender no longer has for that number
                pk == e.cfg.peer
                lateProbe == /\ w \in {"consumed", "out_of_order"} /\ Live(pk) /\ pk # k /\ s \in DOMAIN eps[pk].segs
                             /\ eps[pk].segs[s].ver > 1 /\ plen # eps[pk].segs[s].len
            IN  /\ Judge(k, rules \cup { <<"C02.ReaderWoken", e2.eofDue > 0 /\ e.eofDue = 0, TRUE>> })
                /\ eps' = IF lateProbe
                           THEN [eps EXCEPT ![k] = e2,
                                            ![pk] = [@ EXCEPT !.splitDelivered = TRUE,
                                                              !.splitWhy = IF eps[pk].splitDelivered THEN @ ELSE eps[pk].popWhy]]
                           ELSE [eps EXCEPT ![k] = e2]

---------------------------------------------------------------------------
(* Application calls.                                                      *)
Call(r) ==
    /\ UNCHANGED <<run, now, sendIdx, app, infl, pairs, last>>
    \* (coverage of the obligation judged when the clock advances: an accept call that finds requests waiting)
    /\ IF r.op = "accept" THEN JudgeAll(SockRules(r.sock, { <<"C13.NotStarved", Sock(r.sock).synq # <<>>, TRUE>> })) ELSE NoJudge
    /\ meta' = IF r.op = "cancel" THEN [meta EXCEPT !.cancelled = TRUE] ELSE meta
    /\ (IF r.op = "accept" THEN SetSock(r.sock, AcceptCalled(Sock(r.sock), r.ep)) ELSE UNCHANGED sk)
    /\ IF r.ep \in DOMAIN app /\ Live(app[r.ep]) /\ r.op = "shutdown"
       THEN eps' = [eps EXCEPT ![app[r.ep]].shutAt = r.arg, ![app[r.ep]].stim = TRUE]
       ELSE UNCHANGED eps

Pend(r) ==
    /\ UNCHANGED <<run, now, meta, sendIdx, app, infl, sk, pairs, last>>
    /\ IF r.ep \in DOMAIN app /\ Live(app[r.ep])
       THEN LET k == app[r.ep] e == eps[k] IN
            /\ Judge(k, { <<"C02.IdleShutdown", r.op = "shutdown" /\ Idle(e) /\ ~e.txPending, TRUE>>,
                          <<"C19.WriteNotStuck", r.op = "write", TRUE>> })
            /\ eps' = [eps EXCEPT ![k] = [e EXCEPT
                      !.pend = @ \cup {r.op},
                      !.readPend = IF r.op = "read" THEN TRUE ELSE @,
                      \* C02 "a shutdown on an idle connection emits its FIN at once"
                      !.idleFin = IF r.op = "shutdown" /\ Idle(e) /\ ~e.txPending THEN l ELSE @]]
       ELSE UNCHANGED eps /\ NoJudge

Ret(r) ==
    /\ UNCHANGED <<run, now, meta, sendIdx, infl, last>>
    /\ IF r.op \in {"connect", "accept"}
       THEN /\ app' = IF r.res = "ok" THEN Put(app, r.ep, <<r.lr, r.cid>>) ELSE app
            /\ UNCHANGED eps
            /\ IF r.op = "accept" /\ r.res = "ok"
               THEN LET so == Sock(r.local) key == <<r.remote, r.cid>> IN
                    /\ Judge(<<r.local, -1>>, {
                          <<"C13.AcceptReturnsMatched", TRUE, R_C13_AcceptReturnsMatched(so, key)>>,
                          <<"C13.AcceptCallOrder", TRUE, R_C13_AcceptCallOrder(so, r.ep)>>,
                          \* "Each successful connect is matched by exactly one accepted stream"
                          <<"C13.PairOnce", TRUE, <<r.lr, r.cid>> \notin pairs.accepted>> })
                    /\ SetSock(r.local, AcceptReturned(so, r.ep, key))
                    /\ pairs' = [pairs EXCEPT !.accepted = @ \cup {<<r.lr, r.cid>>}, !.acceptedN = @ + 1]
               ELSE IF r.op = "accept" /\ r.res = "abandoned"
               THEN /\ NoJudge /\ UNCHANGED pairs
                    /\ (IF Has(r, "sock") THEN SetSock(r.sock, AcceptAbandoned(Sock(r.sock), r.ep)) ELSE UNCHANGED sk)
               ELSE IF r.op = "connect" /\ r.res = "ok"
               THEN /\ NoJudge /\ UNCHANGED sk
                    /\ pairs' = [pairs EXCEPT !.connected = @ \cup {<<r.rl, (r.cid + 1) % 65536>>}]
               ELSE /\ Judge(<<"", -1>>, {
                          <<"C02.CompletesOk", meta.class \in {"fair-lossy", "loss-free"} /\ r.res = "err", FALSE>>,
                          \* C13 "an abandoned or timed-out connect releases its slot" - its own, not another call's: a
                          \* connect / accept call whose channel to the dispatcher is taken away fails with this error
                          \* although the socket is alive
                          <<"C13.ReleaseOnAbandon", r.res = "err" /\ Has(r, "err") /\ ~meta.cancelled, ~Has(r, "err") \/ r.err # "dispatcher dead">> })
                    /\ UNCHANGED <<sk, pairs>>
       ELSE IF r.ep \notin DOMAIN app \/ ~Live(app[r.ep]) THEN UNCHANGED <<app, eps, sk, pairs>> /\ NoJudge
       ELSE LET k == app[r.ep]
                e0 == eps[k]
                e == [e0 EXCEPT !.pend = @ \ {r.op}, !.readPend = IF r.op = "read" THEN FALSE ELSE @]
                pk == e.cfg.peer
                hasPeer == Live(pk)
                fair == meta.class \in {"fair-lossy", "loss-free"}
                okc == { <<"C02.CompletesOk", fair /\ r.op \in {"read", "write", "flush", "shutdown"}, r.res # "err">> }
                dctx == IF e.deathCtx # "" THEN e.deathCtx ELSE IF hasPeer /\ eps[pk].deathCtx # "" THEN eps[pk].deathCtx ELSE ""
            IN  /\ UNCHANGED <<app, sk, pairs>>
                /\ CASE r.op = "read" /\ r.res = "ok" ->
                          /\ JudgeCtx(k, okc \cup {
                               <<"C01.ReadIsPrefix", TRUE, R_C01_ReadIsPrefix(e, r.runs, r.n)>>,
                               <<"C01.ReadWithinWritten", hasPeer, ~hasPeer \/ R_C01_ReadWithinWritten(e, r.n, eps[pk].wr)>> },
                               IF hasPeer THEN SplitCtx(eps[pk]) ELSE "")
                          \* C07 "... immediately ... when the receive window re-opens from zero": the last packet advertised a
                          \* zero window because the buffer was full, and this read frees room for two segments or more
                          \* (strictest reading of "re-opens"; open sending direction of the peer)
                          /\ LET e1 == AppRead(e, r.n, r.want)
                                 seg == Max(e.codeMss, OwnMss(e))
                                 reopen == /\ e.lastWnd = 0 /\ e.txCount > 0 /\ e.peerFin < 0 /\ e.dying = "" /\ ~e.ended
                                           /\ e.state \in {"established", "fin-wait-1", "fin-wait-2"}
                                           /\ e.cfg.rx_buf - Stored(e) < seg
                                           /\ e.cfg.rx_buf - Stored(e1) >= 2 * seg
                             IN  eps' = [eps EXCEPT ![k] = [e1 EXCEPT !.ackImm = IF reopen /\ @ = 0 THEN l ELSE @]]
                     [] r.op = "read" /\ r.res \in {"eof", "err"} ->
                          /\ JudgeCtx(k, okc \cup {
                               <<"C03.EofOnlyAfterFin", r.res = "eof", R_C03_EofOnlyAfterFin(e)>>,
                               \* "... only after every byte that preceded the peer's FIN": with both applications in view,
                               \* a clean end-of-stream means that everything the peer's application wrote has been read
                               \* (when the peer closed on its own initiative: a FIN that only answers ours is sent at once by
                               \*  this implementation, without the bytes its application had queued - DESIGN.md 0.3, observations)
                               \* (and did not abort: an aborting connection tells ITS application so and sends a FIN numbered
                               \*  after what it had transmitted)
                               <<"C03.EofAfterAllBytes", r.res = "eof" /\ hasPeer /\ eps[pk].fin.own /\ ~AbortedWithError(eps[pk])
                                                         /\ eps[pk].dying \in {"", "ok"},
                                                         ~hasPeer \/ e.rd >= eps[pk].wr>>,
                               <<"C03.SuccessMeansDelivered", hasPeer, ~hasPeer \/ R_C03_SuccessMeansDelivered(e, eps[pk].flushMark)>> }, dctx)
                          /\ eps' = [eps EXCEPT ![k] = e]
                     [] r.op = "write" /\ r.res = "ok" ->
                          LET e1 == AppWrite(e, r.n, l) IN
                          /\ Judge(k, okc \cup {
                               <<"C19.TxBounded", TRUE, R_C19_TxBounded(e1)>>,
                               <<"C02.IdleWrite", e1.idleWr > 0 /\ e.idleWr = 0, TRUE>>,
                               <<"C03.NoSuccessAfterAbort", AbortedWithError(e), r.n = 0>> })
                          /\ eps' = [eps EXCEPT ![k] = e1]
                     [] r.op \in {"flush", "shutdown"} /\ r.res = "ok" ->
                          /\ Judge(k, okc \cup { <<"C03.FlushHonest", TRUE, R_C03_FlushHonest(e, r.pos)>> })
                          /\ eps' = [eps EXCEPT ![k] = [e EXCEPT !.flushMark = Max(@, r.pos),
                                                                 !.released = IF r.op = "shutdown" /\ @ < 0 THEN now ELSE @]]
                     [] r.op = "drop_r" ->
                          /\ Judge(k, { <<"C08.EndsInTime", e.wDropped /\ e.released < 0, TRUE>> })
                          /\ eps' = [eps EXCEPT ![k] = [e EXCEPT !.rDropped = TRUE, !.stim = TRUE,
                                                                 !.released = IF e.wDropped /\ @ < 0 THEN now ELSE @]]
                     [] r.op = "drop_w" ->
                          /\ Judge(k, { <<"C08.EndsInTime", e.rDropped /\ e.released < 0, TRUE>> })
                          /\ eps' = [eps EXCEPT ![k] = [e EXCEPT !.wDropped = TRUE, !.stim = TRUE,
                                                                 !.released = IF e.rDropped /\ @ < 0 THEN now ELSE @]]
                     [] OTHER -> JudgeCtx(k, okc, dctx) /\ eps' = [eps EXCEPT ![k] = e]

WaitTimeout(r) ==
    /\ UNCHANGED <<run, now, meta, eps, sendIdx, app, infl, sk, pairs, last>>
    \* C02 "every byte accepted by write is eventually readable at the peer, flush and shutdown eventually return":
    \* a write / flush / shutdown still waiting, or a read waiting while the peer has accepted bytes it has not got.
    \* (A read that only waits for the end of stream is not covered: this implementation gives a closing connection
    \*  one second, so a FIN lost when the retransmission timeout exceeds that is never repeated - DESIGN.md 0.3.)
    /\ LET starved(n) == n \in DOMAIN app /\ Live(app[n]) /\ Live(eps[app[n]].cfg.peer)
                          /\ eps[eps[app[n]].cfg.peer].wr > eps[app[n]].rd
           bad == IF Has(r, "reads") THEN r.others # <<>> \/ \E i \in 1 .. Len(r.reads) : starved(r.reads[i])
                  ELSE TRUE
       IN  Judge(<<"", -1>>, { <<"C02.CompletesOk", meta.class \in {"fair-lossy", "loss-free"}, ~bad>> })

(* The segmentation decision (the instant the implementation fixes a segment's size; uTP never re-segments). *)
SegEv(r) ==
    LET k == Key(r) IN
    /\ UNCHANGED <<run, now, meta, sendIdx, app, infl, sk, pairs, last>>
    /\ IF ~Live(k) THEN UNCHANGED eps /\ NoJudge
       ELSE LET e == eps[k] IN
            /\ Judge(k, {
                  \* C18 "never transmits a new data segment smaller than the segment size it could have used while any
                  \*      earlier data is still unacknowledged, unless the peer's window is what limits it"
                  \* (room: the strictest reading of what the window still allows, so any looser accounting passes)
                  \* (earlier data: transmitted and unacknowledged, or cut earlier in the same pass - segments are sent in
                  \*  order and never re-cut, so the segments queued in front of this one go out before it)
                  <<"C18.NagleHold", r.nagle /\ (SentUnacked(e) \/ r.segmented > 0) /\ ~r.probe /\ e.peerFin < 0,
                                     r.len >= Min(OwnMss(e), Max(0, r.pwnd - r.segmented))>> })
            /\ eps' = [eps EXCEPT ![k].probeQ = IF r.probe THEN TRUE ELSE @]

Poll(r) ==
    LET k == Key(r) IN
    /\ UNCHANGED <<run, now, meta, sendIdx, app, infl, sk, pairs, last>>
    /\ IF ~Live(k) THEN UNCHANGED eps /\ NoJudge
       ELSE LET e == eps[k] IN
            /\ Judge(k, {
                  \* C17: at the end of the poll the state is what the last packet allowed, or a local step further
                  <<"C17.Transition", e.trans.on, ~e.trans.on \/ r.state \in LocalClosure(Allowed(e.trans.st, e.trans))>>,
                  \* the retransmission timer runs while transmitted data or a FIN awaits acknowledgement
                  <<"C06.TimerArmed", (SentUnacked(e) \/ FinUnacked(e)) /\ e.dying = "" /\ r.state # "closed",
                                      r.t_rtx >= 0>>,
                  \* C17 "its FIN ... is retransmitted on timeout until acknowledged or the connection gives up"
                  <<"C17.FinTimerArmed", FinUnacked(e) /\ e.dying = "" /\ r.state # "closed", r.t_rtx >= 0>>,
                  <<"C06.RtoFires", (SentUnacked(e) \/ FinUnacked(e)) /\ r.t_rtx >= 0 /\ r.t_rtx # e.tRtx, TRUE>>,
                  <<"C06.RtoRange", TRUE, R_C06_RtoRange(r.rto)>>,
                  \* C14 "settles ... on the largest payload size that fits": the search ceiling comes down only on evidence that a
                  \* size does not fit - a probe refused by the local interface or a transmitted probe that expired - not because a
                  \* probe was put back for lack of window
                  <<"C14.CeilingOnlyByFailure", e.codeMaxSs > 0 /\ r.max_ss < e.codeMaxSs, e.popSince \in {"emsgsize", "expired"}>>,
                  \* C10 "what one connection buffers stays bounded by its configured sizes times the maximum datagram size"
                  \* (16384: the socket's datagram read buffer)
                  <<"C10.BoundedBuffers", TRUE, /\ r.rx_parked <= Slots(e) * 16384
                                                /\ r.rx_slots <= Slots(e)
                                                /\ r.rx_user <= e.cfg.rx_buf + Slots(e) * 16384
                                                /\ r.ring_len <= Max(e.cfg.tx_init, e.cfg.tx_max)>>,
                  \* C18 "With Nagle disabled partial segments are not held back: whenever the connection next processes an
                  \*      event everything buffered is sent, limited only by window and congestion control"
                  <<"C18.NoHoldWhenOff", ~e.cfg.nagle /\ r.state = "established" /\ e.peerFin < 0 /\ e.dying = ""
                                          /\ e.probeOut < 0 /\ ~e.probeQ /\ ~r.pending /\ r.ring_len > 0,
                                         ~(r.ring_len > r.segmented /\ r.segmented < r.pwnd)>> })
            /\ eps' = [eps EXCEPT ![k] = [e EXCEPT !.state = r.state, !.tRtx = r.t_rtx, !.tAck = r.t_ack,
                                                   !.trans = [@ EXCEPT !.on = FALSE], !.segd = r.segmented, !.popSince = "",
                                                   !.codeMss = r.mss, !.codeMaxSs = r.max_ss,
                                                   !.idleArmed = IF ~SentUnacked(e) /\ ~FinUnacked(e) THEN r.t_rtx
                                                                 ELSE IF @ = r.t_rtx THEN @ ELSE -1,
                                                   !.ringCap = r.ring_cap, !.txPending = r.pending]]

\* the endpoint took a DATA / FIN packet in more than 100 ms ago and has emitted nothing since
Silent(x) == eps[x].lastDataRxAt >= 0 /\ eps[x].lastEmitAt < eps[x].lastDataRxAt /\ now - eps[x].lastDataRxAt > 100000

Dying(r) ==
    LET k == Key(r) IN
    /\ UNCHANGED <<run, now, meta, sendIdx, app, infl, sk, pairs, last>>
    /\ IF ~Live(k) THEN UNCHANGED eps /\ NoJudge
       ELSE /\ Judge(k, { <<"C10.NoBugError", TRUE, ~IsBug(r.result)>>,
                          \* C17: a state machine that meets a packet it has no answer for (an internal "bug" error) did not
                          \* follow the documented graph
                          <<"C17.Transition", IsBug(r.result), FALSE>>,
                          \* (a connection that dies of an error other than a RESET may be in any state)
                          <<"C17.Transition", eps[k].trans.on /\ (r.result = "ok" \/ eps[k].trans.t = "reset"),
                                              ~eps[k].trans.on \/ r.state \in LocalClosure(Allowed(eps[k].trans.st, eps[k].trans))>> })
            /\ eps' = [eps EXCEPT ![k].dying = r.result, ![k].trans = [@ EXCEPT !.on = FALSE],
                                  \* known finding: the inactivity abort fires while a retransmission is still
                                  \* scheduled (RTO back-off can exceed the inactivity timeout)
                                  \* (that finding is about packets the NETWORK lost: it does not cover an endpoint that took
                                  \*  a data packet in and never answered it)
                                  ![k].deathCtx = IF r.result = "remote was inactive for too long"
                                                     /\ ~Silent(k) /\ ~(Live(eps[k].cfg.peer) /\ Silent(eps[k].cfg.peer))
                                                     /\ \/ ((SentUnacked(eps[k]) \/ FinUnacked(eps[k])) /\ eps[k].tRtx >= now)
                                                        \/ (LET pk == eps[k].cfg.peer IN
                                                             Live(pk) /\ (SentUnacked(eps[pk]) \/ FinUnacked(eps[pk])) /\ eps[pk].tRtx >= now)
                                                  THEN "inactivity-before-rto"
                                                  ELSE IF eps[k].stalled # "" THEN eps[k].stalled ELSE "",
                                  ![k].released = IF @ < 0 THEN now ELSE @]

EndOf(k, result) ==
    LET e == eps[k] IN
    /\ pairs' = [pairs EXCEPT !.accepted = @ \ {k}]
    /\ Judge(k, {
          \* C17 "a RESET aborts the connection at once, with an error unless the close handshake was already answered"
          <<"C17.ResetAborts", e.resetAt > 0, result # "ok" \/ e.stateAtReset = "last-ack">>,
          \* C06: the retransmission limit is a legitimate reason to fail only when it was reached
          <<"C08.SlotFreed", result # "cancelled", TRUE>>,
          \* C14 "On a path that silently discards datagrams above some size the connection ... settles ... on the largest
          \*      payload size that fits" (judged for senders that transmitted enough segments for the search to finish)
          <<"C14.Converges", meta.path > 0 /\ e.newSegs >= 300 /\ ~e.splitDelivered,
                             e.codeMss = Min(meta.path, LinkCeiling(e))>>,
          <<"C03.AbortSurfaces", e.pend # {} /\ result # "ok", TRUE>>,
          <<"C06.CapReason", result = "max number of retransmissions reached",
                             \E s \in DOMAIN e.segs : e.segs[s].cnt >= e.cfg.max_retx + 1>> })
    /\ eps' = [eps EXCEPT ![k] = [e EXCEPT !.ended = TRUE, !.endedAt = now, !.result = result,
                                           \* (a connection object that is let go without ever running - its accept call was
                                           \*  abandoned after the dispatcher had matched it - owes its table entry back as well;
                                           \*  when a whole socket is cancelled the table goes with it)
                                           !.slotDue = IF result = "cancelled" /\ meta.cancelled THEN 0 ELSE l, !.resetAt = 0,
                                           !.ackImm = 0, !.ackDue = -1, !.frDue = 0,
                                           !.idleWr = 0, !.idleFin = 0, !.finAnsDue = 0]]

End(r) ==
    LET k == Key(r) IN
    /\ UNCHANGED <<run, now, meta, sendIdx, app, infl, sk, last>>
    /\ IF ~Live(k) THEN UNCHANGED <<eps, pairs>> /\ NoJudge ELSE EndOf(k, r.result)

VsockDrop(r) ==   \* the task object is gone; if it never completed it was cancelled
    LET k == Key(r) IN
    /\ UNCHANGED <<run, now, meta, sendIdx, app, infl, sk, last>>
    /\ IF ~Live(k) \/ eps[k].ended THEN UNCHANGED <<eps, pairs>> /\ NoJudge ELSE EndOf(k, "cancelled")

LiveOn(a) == { k \in DOMAIN eps : eps[k].cfg.local = a /\ ~eps[k].ended }

Tab(r) ==
    LET a == r.local
        so0 == Sock(a)
        so == [so0 EXCEPT !.limit = r.limit]
        w == r.what
        key == IF Has(r, "remote") THEN SKey(r) ELSE <<"", -1>>
        ek == IF Has(r, "lr") THEN Key(r) ELSE <<"", -1>>
        so1 == CASE w \in {"stream_insert_in", "stream_insert_out"} -> StreamInsert(so, key)
                 [] w \in {"stream_remove", "stream_remove_dead"} -> StreamRemove(so, key)
                 [] w = "connecting_insert" -> PendingInsert(so, key)
                 [] w = "connecting_remove" -> [so EXCEPT !.pending = @ \ {key}]
                 [] w = "connect_dropped" -> PendingDropSome(so, r.remote)
                 [] w = "syn_cached" -> SynCached(so, key)
                 [] w = "syn_refused" -> SynRefused(so)
                 [] w = "syn_clash_cached" -> SynClashCached(so)
                 [] OTHER -> so
        rules == {
            <<"C12.KeyUnique", w = "stream_insert_in", R_C12_KeyUniqueIn(so, key)>>,
            <<"C12.KeyUnique", w = "stream_insert_out", R_C12_KeyUniqueOut(so, key)>>,
            <<"C12.KeyUnique", w = "connecting_insert", R_C12_KeyUniquePending(so, key)>>,
            <<"C12.KeyUnique", w = "stream_overwrite", FALSE>>,
            <<"C12.LimitRespected", TRUE, r.streams <= r.limit>>,
            <<"C12.TableAgrees", Has(r, "streams") /\ w # "stream_overwrite", R_C12_TableAgrees(so1, r.streams)>>,
            \* C12 "attempts beyond it fail or wait, they do not evict or corrupt existing ones": an entry is removed
            \* only by its own connection's end (or because nobody took the freshly created stream)
            <<"C12.NoEviction", w = "stream_remove" /\ Live(ek), ~Live(ek) \/ eps[ek].ended>>,
            \* the other removal path (a datagram found the entry's stream gone): same condition.  The stream's own
            \* "ended" notification is then still queued and must not remove a newer entry under the same key
            \* (MCSocket.tla, variant "stale_shutdown"; that removal is a "stream_remove" judged by the rule above)
            <<"C12.DeadCleanup", w = "stream_remove_dead" /\ Live(ek), ~Live(ek) \/ eps[ek].ended>>,
            <<"C13.BacklogBound", Has(r, "syns"), R_C13_BacklogBound(r.syns, meta.backlog)>>,
            <<"C13.PairOnce", w = "syn_cached", R_C13_NoPhantomRequest(so, key)>>,
            <<"C13.RefusedOnlyWhenFull", w = "syn_refused", R_C13_RefusedOnlyWhenFull(so, meta.backlog)>>,
            <<"C13.ExcessRefused", w = "syn_refused", TRUE>>,
            <<"C13.ReleaseOnAbandon", w = "connect_dropped", TRUE>>,
            \* C08 "its entry in the socket's connection table and its share of the connection limit are released":
            \* a connect is refused for lack of room only while that many connections are really alive
            <<"C08.LimitReusable", w = "connect_refused_full", Cardinality(LiveOn(a)) >= r.limit>> }
    IN  /\ UNCHANGED <<run, now, meta, sendIdx, app, infl, pairs, last>>
        /\ JudgeAll(SockRules(a, rules))
        /\ SetSock(a, so1)
        /\ IF w \in {"stream_remove", "stream_remove_dead"} /\ Live(ek)
           THEN eps' = [eps EXCEPT ![ek].slotDue = 0]
           ELSE UNCHANGED eps

Route(r) ==
    LET a == r.local so == Sock(a) key == SKey(r) IN
    /\ UNCHANGED <<run, now, meta, eps, sendIdx, app, infl, pairs, last>>
    /\ JudgeAll(SockRules(a, { <<"C12.RouteAgrees", TRUE, R_C12_RouteAgrees(so, key, r.found)>> }))
    /\ SetSock(a, IF r.found THEN Routed(so, key) ELSE so)

SynArrivedEv(r) ==
    /\ UNCHANGED <<run, now, meta, eps, sendIdx, app, infl, pairs, last>> /\ NoJudge
    /\ SetSock(r.local, SynArrived(Sock(r.local), r.remote, r.syn_cid, r.syn_seq))

SynMatchedEv(r) ==
    LET a == r.local so == Sock(a) key == SKey(r) IN
    /\ UNCHANGED <<run, now, meta, eps, sendIdx, app, infl, pairs, last>>
    /\ JudgeAll(SockRules(a, { <<"C13.AcceptFifo", TRUE, R_C13_AcceptFifo(so, key)>>,
                               <<"C13.PairOnce", TRUE, R_C13_PairOnceSyn(so, <<r.remote, r.cid, r.syn_seq>>)>> }))
    /\ SetSock(a, [SynMatched(so, key) EXCEPT !.everMatched = @ \cup {<<r.remote, r.cid, r.syn_seq>>}])

EndRun(r) ==
    /\ UNCHANGED <<run, now, meta, eps, sendIdx, app, infl, sk, pairs, last>>
    \* C13 "Each successful connect is matched by exactly one accepted stream on the listener" (library listeners only)
    /\ Judge(<<"", -1>>, {
          <<"C13.PairOnce", pairs.connected # {} /\ meta.class \in {"fair-lossy", "loss-free"},
                            \A k \in pairs.connected : (k[1] \in { kk[1] : kk \in DOMAIN eps } => k \in pairs.accepted \/ k \in DOMAIN eps)>>,
          <<"C02.CompletesOk", meta.class \in {"fair-lossy", "loss-free"}, r.pending = <<>>>> })

Panic(r) ==
    /\ UNCHANGED <<run, now, meta, eps, sendIdx, app, infl, sk, pairs, last>>
    /\ Judge(<<"", -1>>, { <<"C10.NoPanic", TRUE, FALSE>> })

Skip == UNCHANGED <<run, now, meta, eps, sendIdx, app, infl, sk, pairs, last>> /\ NoJudge

---------------------------------------------------------------------------
Next ==
    /\ l <= N
    /\ l' = l + 1
    /\ LET r == Rec[l] IN
       CASE r.ev = "tick"      -> Tick(r)
         [] r.ev = "reset"     -> Reset(r)
         [] r.ev = "tx"        -> Tx(r)
         [] r.ev = "txfail"    -> TxFail(r)
         [] r.ev = "dup"       -> Dup(r)
         [] r.ev = "deliver"   -> Deliver(r)
         [] r.ev = "xmit"      -> Xmit(r)
         [] r.ev = "recv"      -> Recv(r)
         [] r.ev = "disp"      -> Disp(r)
         [] r.ev = "call"      -> Call(r)
         [] r.ev = "pend"      -> Pend(r)
         [] r.ev = "ret"       -> Ret(r)
         [] r.ev = "wait_timeout" -> WaitTimeout(r)
         [] r.ev = "poll"      -> Poll(r)
         [] r.ev = "seg"       -> SegEv(r)
         [] r.ev = "probe_pop" ->
              (LET k == Key(r) IN
               /\ UNCHANGED <<run, now, meta, sendIdx, app, infl, sk, pairs, last>> /\ NoJudge
               /\ IF ~Live(k) THEN UNCHANGED eps
                  ELSE eps' = [eps EXCEPT ![k] = [ProbePopped(@, r.seq, r.why = "expired") EXCEPT !.popWhy = r.why,
                                                       !.popSince = IF @ \in {"emsgsize", "expired"} THEN @ ELSE r.why]])
         [] r.ev = "conn_new"  -> ConnNew(r)
         [] r.ev = "dying"     -> Dying(r)
         [] r.ev = "end"       -> End(r)
         [] r.ev = "vsock_drop" -> VsockDrop(r)
         [] r.ev = "tab"       -> Tab(r)
         [] r.ev = "route"     -> Route(r)
         [] r.ev = "syn_arrived" -> SynArrivedEv(r)
         [] r.ev = "syn_matched" -> SynMatchedEv(r)
         [] r.ev = "end_run"   -> EndRun(r)
         [] r.ev = "panic"     -> Panic(r)
         [] OTHER              -> Skip

Spec == Init /\ [][Next]_vars

---------------------------------------------------------------------------
(* Verdict: printed once, in the state after the last line.                *)
Report ==
    (l = N + 1) =>
        PrintT(<<"VERDICT", ToJson([lines |-> N, runs |-> run,
                                    viol |-> { [line |-> v[1], rule |-> v[2], ep |-> ToString(v[3]), ctx |-> v[4]] : v \in viol },
                                    cov |-> cov])>>)

TraceAccepted ==
    LET d == TLCGet("stats").diameter IN
    IF d - 1 = N THEN TRUE
    ELSE Print(<<"TRACE NOT ACCEPTED: consumed", d - 1, "of", N>>, FALSE)
=============================================================================
