------------------------------ MODULE UtpTrace ------------------------------
(***************************************************************************)
(* Trace specification: replays an ND-JSON trace recorded from the real    *)
(* library (harness/, hooks under cfg librqbit_utp_verif) through the      *)
(* contract of Endpoint.tla.  Each line must be an instance of a spec      *)
(* action; the action's effect advances the specification state and the    *)
(* rules attached to the action are *evaluated* on the recorded values     *)
(* (not used as enabling conditions), so one pass reports every broken     *)
(* rule with its line number.                                              *)
(*                                                                         *)
(*   viol : set of <<line, rule, endpoint>>                                *)
(*   cov  : rule -> number of times its precondition held                  *)
(*                                                                         *)
(* The verdict is printed by the invariant Report in the state after the   *)
(* last line; TraceAccepted (POSTCONDITION) checks that every line was     *)
(* consumed.                                                               *)
(***************************************************************************)
EXTENDS Endpoint, Wire, TLC, TLCExt, Json, IOUtils

Rec == ndJsonDeserialize(IOEnv.TRACE)
N == Len(Rec)

VARIABLES
    l,       \* next line
    run,     \* number of the current run (reset lines)
    now,     \* virtual time, microseconds
    eps,     \* endpoint key <<"local|remote", recv conn id>> -> endpoint record
    sendIdx, \* <<"from|to", wire conn id>> -> endpoint key of the sender
    app,     \* application endpoint name -> endpoint key
    last,    \* scratch: facts about the immediately preceding lines (last tx, last recv per endpoint)
    viol, cov

vars == <<l, run, now, eps, sendIdx, app, last, viol, cov>>

RuleNames == {
    "C01.NoGarbage", "C01.SegStable", "C01.SegContiguous", "C01.ReadIsPrefix", "C01.ReadWithinWritten",
    "C04.AckExact", "C04.AckMonotone", "C04.SackExact", "C04.WindowHonest",
    "C04.ConsumeExact", "C04.OutOfOrderIsAhead", "C04.DuplicateIsOld", "C04.AlreadyPresentIsHeld",
    "C05.WindowRespected", "C05.ZeroWindowSilence", "C05.SlowStartBound", "C05.OneSegmentAfterRto",
    "C11.EmitWellFormed", "C11.EmitConnId",
    "C14.NeverAboveLink",
    "C19.TxBounded",
    "C10.NoPanic" }

EmptyFn == << >>

Init ==
    /\ l = 1 /\ run = 0 /\ now = 0
    /\ eps = EmptyFn /\ sendIdx = EmptyFn /\ app = EmptyFn
    /\ last = [tx |-> [k |-> <<>>], rx |-> EmptyFn]
    /\ viol = {} /\ cov = [r \in RuleNames |-> 0]

(* rs: set of <<rule name, applicable, applicable => holds>> *)
Broken(rs)  == { x[1] : x \in { y \in rs : y[2] /\ ~y[3] } }
Covered(rs) == { x[1] : x \in { y \in rs : y[2] } }
Judge(k, rs) ==
    /\ viol' = IF Cardinality(viol) >= 40 THEN viol
               ELSE viol \cup { <<l, b, k>> : b \in Broken(rs) }
    /\ cov' = LET c == Covered(rs) IN [r \in RuleNames |-> cov[r] + IF r \in c THEN 1 ELSE 0]
NoJudge == UNCHANGED <<viol, cov>>

Has(r, f) == f \in DOMAIN r
Key(r) == <<r.lr, r.cid>>
Live(k) == k \in DOMAIN eps

IpUdp(cfg) == IF cfg.v6 THEN 48 ELSE 28

---------------------------------------------------------------------------
Reset(r) ==
    /\ run' = run + 1 /\ now' = 0
    /\ eps' = EmptyFn /\ sendIdx' = EmptyFn /\ app' = EmptyFn
    /\ last' = [tx |-> [k |-> <<>>], rx |-> EmptyFn]
    /\ NoJudge

Tick(r) == now' = r.now /\ UNCHANGED <<run, eps, sendIdx, app, last>> /\ NoJudge

ConnNew(r) ==
    LET k == Key(r)
        cfg == [rx_buf |-> r.rx_buf, tx_init |-> r.tx_init, tx_max |-> r.tx_max, nagle |-> r.nagle,
                max_retx |-> r.max_retx, inactivity |-> r.inactivity, wait_last_ack |-> r.wait_last_ack,
                probe_retx |-> r.probe_retx, link_mtu |-> r.link_mtu, limit |-> r.limit,
                incoming |-> r.incoming, cid_send |-> r.cid_send, peer |-> <<r.rl, r.cid_send>>,
                mss0 |-> r.mss, v6 |-> FALSE]
        e == NewEndpoint(cfg, r.seq_nr, r.rnxt, r.pwnd)
    IN  /\ eps' = Put(eps, k, e)
        /\ sendIdx' = Put(sendIdx, <<r.lr, r.cid_send>>, k)
        /\ UNCHANGED <<run, now, app, last>> /\ NoJudge

---------------------------------------------------------------------------
(* A datagram handed to the network.                                       *)
TxEndpoint(r, h, k) ==
    LET e == eps[k]
        wnd == Wnd(h)
        isData == h.type = ST_DATA
        s == h.seq
        sack == SackBytes(h)
        common == {
            <<"C11.EmitConnId", TRUE, h.cid = e.cfg.cid_send>>,
            <<"C14.NeverAboveLink", TRUE, r.len <= e.cfg.link_mtu - IpUdp(e.cfg)>>,
            <<"C04.AckExact", TRUE, R_C04_AckExact(e, h.ack)>>,
            <<"C04.AckMonotone", e.lastAck >= 0, R_C04_AckMonotone(e, h.ack)>>,
            <<"C04.SackExact", h.type = ST_STATE,
                               R_C04_SackExact(e, h.ack, HasSack(h), SackSet(sack))>>,
            <<"C04.WindowHonest", TRUE, R_C04_WindowHonest(e, wnd)>> }
        data == IF ~isData THEN {} ELSE {
            <<"C01.NoGarbage", TRUE, R_NoGarbage(r.runs)>>,
            <<"C01.SegStable", Known(e, s), R_SegStable(e, s, r.runs, r.alts, r.amb, r.plen)>>,
            <<"C01.SegContiguous", ~Known(e, s) /\ s = e.nxt,
                                   R_SegContiguous(e, s, r.runs, r.alts, r.amb, r.plen)>> }
        pos == IF isData /\ Len(r.runs) >= 1 THEN r.runs[1][1] ELSE -1
        first == isData /\ (~Known(e, s) \/ IsSplit(e, s, r.plen))
        e1 == IF isData THEN TxData(e, s, pos, r.plen, now) ELSE e
        e2 == Emitted(e1, h.ack, wnd)
    IN  /\ Judge(k, common \cup data)
        /\ eps' = [eps EXCEPT ![k] = e2]
        /\ last' = [last EXCEPT !.tx = [k |-> k, type |-> h.type, seq |-> s, first |-> first,
                                        plen |-> r.plen, line |-> l]]

Tx(r) ==
    LET h == ParseMessage(r.hdr, r.len)
        sk == IF h.ok THEN <<r.ft, h.cid>> ELSE <<>>
    IN  /\ UNCHANGED <<run, now, sendIdx, app>>
        /\ IF ~h.ok
           THEN \* only library sockets are held to C11; the scripted raw peer may emit anything
                /\ IF Has(r, "raw") THEN NoJudge
                   ELSE Judge(<<r.ft, -1>>, { <<"C11.EmitWellFormed", TRUE, FALSE>> })
                /\ UNCHANGED <<eps, last>>
           ELSE IF sk \in DOMAIN sendIdx /\ ~Has(r, "raw")
           THEN TxEndpoint(r, h, sendIdx[sk])
           ELSE /\ (IF Has(r, "raw") THEN NoJudge
                    ELSE Judge(<<r.ft, h.cid>>, { <<"C11.EmitWellFormed", TRUE, TRUE>> }))
                /\ UNCHANGED <<eps, last>>

(* The hook after a data / FIN transmission: flow-control rules.           *)
Xmit(r) ==
    LET k == Key(r) IN
    /\ UNCHANGED <<run, now, sendIdx, app, last>>
    /\ IF ~Live(k) THEN NoJudge /\ UNCHANGED eps
       ELSE LET e == eps[k]
                isFin == r.tag = "fin"
                first == ~isFin /\ last.tx.k = k /\ last.tx.seq = r.seq /\ last.tx.first
                rules == IF isFin THEN {} ELSE {
                    <<"C05.WindowRespected", first, R_C05_WindowRespected(e, r.recovering)>>,
                    <<"C05.ZeroWindowSilence", first, R_C05_ZeroWindowSilence(e, r.recovering)>>,
                    <<"C05.SlowStartBound", first, R_C05_SlowStartBound(e, r.mss)>>,
                    <<"C05.OneSegmentAfterRto", e.rtoMode, R_C05_OneSegmentAfterRto(e, r.seq, r.tag)>> }
                retx == ~isFin /\ ~first
                e1 == [e EXCEPT
                        !.lossSeen = @ \/ retx \/ r.recovering \/ r.tag = "rto",
                        !.rtoMode = IF r.tag = "rto" /\ retx THEN TRUE ELSE @,
                        !.rtoSeq = IF r.tag = "rto" /\ retx THEN r.seq ELSE @,
                        \* after a timeout every other outstanding segment is presumed lost (go-back-N)
                        !.segs = IF r.tag = "rto" /\ retx
                                 THEN [s \in DOMAIN @ |->
                                        IF s # r.seq /\ @[s].counted
                                        THEN [@[s] EXCEPT !.lost = TRUE, !.counted = FALSE] ELSE @[s]]
                                 ELSE IF r.seq \in DOMAIN @ THEN [@ EXCEPT ![r.seq].probe = r.probe] ELSE @,
                        !.flight = IF r.tag = "rto" /\ retx
                                   THEN (IF r.seq \in DOMAIN e.segs THEN e.segs[r.seq].len ELSE 0)
                                   ELSE @ ]
            IN  Judge(k, rules) /\ eps' = [eps EXCEPT ![k] = e1]

---------------------------------------------------------------------------
(* The connection task processes one packet (entry of process_incoming_message). *)
ActsOn(e, r) ==   \* the packets whose acknowledgement fields the connection honours
    /\ r.t \in {ST_DATA, ST_STATE, ST_FIN}
    /\ ~(r.t = ST_FIN /\ e.peerFin < 0 /\ r.seq # Nx(e.rnxt, 1))
    /\ ~(r.state = "syn-ack-sent" /\ r.t # ST_FIN /\ r.ack # Nx(e.nxt, SeqMod - 1))
    /\ ~(r.state = "last-ack" /\ r.t = ST_DATA /\ e.peerFin >= 0 /\ D(r.seq, e.peerFin) > 0)
    /\ r.state # "closed"

Recv(r) ==
    LET k == Key(r) IN
    /\ UNCHANGED <<run, now, sendIdx, app>> /\ NoJudge
    /\ IF ~Live(k) THEN UNCHANGED <<eps, last>>
       ELSE LET e == eps[k]
                e1 == IF ActsOn(e, r)
                      THEN RecvAck(e, r.ack, r.wnd, IF r.has_sack THEN SackSet(r.sack) ELSE {}, r.t = ST_STATE)
                      ELSE e
            IN  /\ eps' = [eps EXCEPT ![k] = [e1 EXCEPT !.state = r.state]]
                /\ last' = [last EXCEPT !.rx = Put(@, k, [seq |-> r.seq, plen |-> r.plen, t |-> r.t, line |-> l])]

(* Disposition of a DATA / FIN packet by the receive side. *)
Disp(r) ==
    LET k == Key(r) IN
    /\ UNCHANGED <<run, now, sendIdx, app, last>>
    /\ IF ~Live(k) THEN NoJudge /\ UNCHANGED eps
       ELSE LET e == eps[k]
                s == r.seq
                plen == IF k \in DOMAIN last.rx /\ last.rx[k].seq = s THEN last.rx[k].plen ELSE 0
                w == r.what
                rules == {
                    <<"C04.ConsumeExact", w = "consumed", R_C04_ConsumeExact(e, s, r.n, r.bytes, plen)>>,
                    <<"C04.OutOfOrderIsAhead", w = "out_of_order", R_C04_OutOfOrderIsAhead(e, s)>>,
                    <<"C04.DuplicateIsOld", w = "duplicate", R_C04_DuplicateIsOld(e, s)>>,
                    <<"C04.AlreadyPresentIsHeld", w = "already_present", R_C04_AlreadyPresentIsHeld(e, s)>> }
                e1 == CASE w = "consumed" /\ s = Nx(e.rnxt, 1) -> DispConsumed(e, s, plen)
                        [] w = "out_of_order" /\ s \notin DOMAIN e.held /\ D(s, Nx(e.rnxt, 1)) > 0 -> DispOutOfOrder(e, s, plen)
                        [] w = "fin_accepted" -> DispFinAccepted(e, s)
                        [] OTHER -> e
            IN  Judge(k, rules) /\ eps' = [eps EXCEPT ![k] = e1]

---------------------------------------------------------------------------
(* Application call returns.                                               *)
Ret(r) ==
    /\ UNCHANGED <<run, now, sendIdx, last>>
    /\ IF r.op \in {"connect", "accept"}
       THEN /\ app' = IF r.res = "ok" THEN Put(app, r.ep, <<r.lr, r.cid>>) ELSE app
            /\ UNCHANGED eps /\ NoJudge
       ELSE IF r.ep \notin DOMAIN app \/ ~Live(app[r.ep]) THEN UNCHANGED <<app, eps>> /\ NoJudge
       ELSE LET k == app[r.ep]
                e == eps[k]
                pk == e.cfg.peer
            IN  /\ UNCHANGED app
                /\ CASE r.op = "read" /\ r.res = "ok" ->
                          /\ Judge(k, {
                               <<"C01.ReadIsPrefix", TRUE, R_C01_ReadIsPrefix(e, r.runs, r.n)>>,
                               <<"C01.ReadWithinWritten", Live(pk), R_C01_ReadWithinWritten(e, r.n, eps[pk].wr)>> })
                          /\ eps' = [eps EXCEPT ![k] = AppRead(e, r.n, r.n)]
                     [] r.op = "write" /\ r.res = "ok" ->
                          LET e1 == AppWrite(e, r.n) IN
                          /\ Judge(k, { <<"C19.TxBounded", TRUE, R_C19_TxBounded(e1)>> })
                          /\ eps' = [eps EXCEPT ![k] = e1]
                     [] OTHER -> UNCHANGED eps /\ NoJudge

Poll(r) ==
    LET k == Key(r) IN
    /\ UNCHANGED <<run, now, sendIdx, app, last>> /\ NoJudge
    /\ IF ~Live(k) THEN UNCHANGED eps
       ELSE eps' = [eps EXCEPT ![k].state = r.state]

Dying(r) ==
    LET k == Key(r) IN
    /\ UNCHANGED <<run, now, sendIdx, app, last>> /\ NoJudge
    /\ IF ~Live(k) THEN UNCHANGED eps ELSE eps' = [eps EXCEPT ![k].dying = r.result]

End(r) ==
    LET k == Key(r) IN
    /\ UNCHANGED <<run, now, sendIdx, app, last>> /\ NoJudge
    /\ IF ~Live(k) THEN UNCHANGED eps
       ELSE eps' = [eps EXCEPT ![k].ended = TRUE, ![k].result = r.result]

Panic(r) ==
    /\ UNCHANGED <<run, now, eps, sendIdx, app, last>>
    /\ Judge(<<"", -1>>, { <<"C10.NoPanic", TRUE, FALSE>> })

Skip == UNCHANGED <<run, now, eps, sendIdx, app, last>> /\ NoJudge

---------------------------------------------------------------------------
Next ==
    /\ l <= N
    /\ l' = l + 1
    /\ LET r == Rec[l] IN
       CASE r.ev = "tick"     -> Tick(r)
         [] r.ev = "reset"    -> Reset(r)
         [] r.ev = "tx"       -> Tx(r)
         [] r.ev = "xmit"     -> Xmit(r)
         [] r.ev = "recv"     -> Recv(r)
         [] r.ev = "disp"     -> Disp(r)
         [] r.ev = "ret"      -> Ret(r)
         [] r.ev = "poll"     -> Poll(r)
         [] r.ev = "conn_new" -> ConnNew(r)
         [] r.ev = "dying"    -> Dying(r)
         [] r.ev = "end"      -> End(r)
         [] r.ev = "panic"    -> Panic(r)
         [] OTHER             -> Skip

Spec == Init /\ [][Next]_vars

---------------------------------------------------------------------------
(* Verdict: printed once, in the state after the last line.                *)
Report ==
    (l = N + 1) =>
        PrintT(<<"VERDICT", ToJson([lines |-> N, runs |-> run,
                                    viol |-> { [line |-> v[1], rule |-> v[2], ep |-> ToString(v[3])] : v \in viol },
                                    cov |-> cov])>>)

TraceAccepted ==
    LET d == TLCGet("stats").diameter IN
    IF d - 1 = N THEN TRUE
    ELSE Print(<<"TRACE NOT ACCEPTED: consumed", d - 1, "of", N>>, FALSE)
=============================================================================
