SPECIFICATION Spec
CONSTANTS
    M = 65536
    W = 1024
INVARIANT Report
POSTCONDITION TraceAccepted
CHECK_DEADLOCK FALSE
