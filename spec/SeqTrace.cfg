SPECIFICATION Spec
CONSTANTS
    M = 65536
    W = 32767
INVARIANT Report
POSTCONDITION TraceAccepted
CHECK_DEADLOCK FALSE
