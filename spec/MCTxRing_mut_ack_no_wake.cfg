SPECIFICATION Spec
VIEW View
CONSTANTS
    Quiet <- QuietOn
    Ack <- AckNoWake
INVARIANT Inv
INVARIANT Honest
INVARIANT ClosedResolves
INVARIANT AckedCompletes
INVARIANT GrowthHelps
INVARIANT Progress
CHECK_DEADLOCK FALSE
