SPECIFICATION Spec
CONSTANTS
    M = 256
    W = 127
    DocW = 16
    AllPairs = TRUE
    Band = 0
    Chunks = 16
    ASel = "all"
    CoreDLt = TRUE
    Emit = FALSE
INVARIANTS
    OffsetAgrees
    ClosedForm
    DependsOnDLt
    Antisym
    ZeroIffEqual
    OrdAgrees
    OrdIsPlainBeyond
    OrdInvertedAcrossWrap
    OrdTotalAtMaxTolerance
    OffsetAgreesCore
    FormsCoincide
    AllLemmas
    AddSubWrap
    WindowOrder
    NegativeWitness
CHECK_DEADLOCK FALSE
