------------------------------- MODULE Rtte -------------------------------
(***************************************************************************)
(* C16  "Retransmission-timeout estimator stays within bounds"             *)
(*                                                                         *)
(*   "The retransmission timeout is always between 200 ms and 60 s, equals *)
(*    smoothed RTT plus four times its variance (at least the clock        *)
(*    granularity) after each sample, doubles on each timeout until the    *)
(*    cap and returns to the sample-derived value on the next sample; the  *)
(*    smoothed RTT always lies between the smallest and largest sample     *)
(*    seen."   Quantifier: all sequences of RTT samples (0 ns .. hours)    *)
(*    and timeout events.                                                  *)
(*                                                                         *)
(* The estimator of RFC 6298 (alpha = 1/8, beta = 1/4, K = 4, clock        *)
(* granularity 10 ms; first sample: srtt = R, rttvar = R/2) on EXACT       *)
(* integer nanoseconds, with the flooring integer division that            *)
(* std::time::Duration performs.                                           *)
(*                                                                         *)
(* TLC integers are 32-bit and 60 s = 6e10 ns does not fit, so a duration  *)
(* is a two-limb value <<ms, ns>>: ms whole milliseconds, ns in 0..999999; *)
(* its value is ms * 10^6 + ns nanoseconds.  All operators below are exact *)
(* on that value.  Domain: ms < 2^28 (74 hours), so that ms * 7 < 2^31;    *)
(* TLC raises an error on 32-bit overflow, it never wraps silently.        *)
(*                                                                         *)
(* Every constant below is taken from the property text (200 ms, 60 s,     *)
(* four, 10 ms, RFC 6298's 1/8 and 1/4), none from the code.  The property *)
(* does not state the timeout used before the first sample; it is the      *)
(* parameter InitialRto, constrained only by RtoBounds.                    *)
(***************************************************************************)
EXTENDS Integers, Sequences

CONSTANTS
    InitialRto,   \* <<ms, ns>>: retransmission timeout before the first sample (parameter)
    Samples       \* set of <<ms, ns>>: the RTT samples the bounded instances draw from

---------------------------------------------------------------------------
(* Two-limb exact duration arithmetic.                                     *)
Mega == 1000000

IsDur(d) == d[1] >= 0 /\ d[2] >= 0 /\ d[2] < Mega

Ms(m)       == <<m, 0>>
Zero        == <<0, 0>>
DNorm(m, n) == <<m + (n \div Mega), n % Mega>>                  \* n >= 0, possibly >= Mega
DAdd(a, b)  == DNorm(a[1] + b[1], a[2] + b[2])                  \* a[2] + b[2] < 2e6
DMul(a, k)  == DNorm(a[1] * k, a[2] * k)                        \* k in 1..7: a[2] * k < 7e6
(* floor((ms * 10^6 + ns) / k) = (ms div k) * 10^6 + floor(((ms mod k) * 10^6 + ns) / k); the second
   term is below 10^6 because (ms mod k) <= k - 1 and ns < 10^6. *)
DDiv(a, k)  == <<a[1] \div k, ((a[1] % k) * Mega + a[2]) \div k>>   \* k in 1..8: numerator < 8e6
DLe(a, b)   == a[1] < b[1] \/ (a[1] = b[1] /\ a[2] <= b[2])
DLt(a, b)   == ~DLe(b, a)
DMax(a, b)  == IF DLe(a, b) THEN b ELSE a
DMin(a, b)  == IF DLe(a, b) THEN a ELSE b
DSub(a, b)  == IF a[2] >= b[2] THEN <<a[1] - b[1], a[2] - b[2]>>                \* requires b <= a
                               ELSE <<a[1] - b[1] - 1, a[2] + Mega - b[2]>>     \* borrow one millisecond
DAbsDiff(a, b) == IF DLe(b, a) THEN DSub(a, b) ELSE DSub(b, a)

(* Unit tests of the limb arithmetic against hand-computed values (evaluated by TLC at start-up). *)
ASSUME DAdd(<<1, 999999>>, <<0, 1>>) = <<2, 0>>                              \* carry
ASSUME DAdd(<<59999, 999999>>, <<0, 999999>>) = <<60000, 999998>>
ASSUME DAdd(<<0, 0>>, <<0, 0>>) = <<0, 0>>
ASSUME DMul(<<0, 999999>>, 7) = <<6, 999993>>                                \* 6 999 993 ns
ASSUME DMul(<<10800000, 999999>>, 7) = <<75600006, 999993>>                  \* 3 h: 7.56e7 ms fits
ASSUME DMul(<<0, 250000>>, 4) = <<1, 0>>
ASSUME DMul(<<30000, 500000>>, 2) = <<60001, 0>>
ASSUME DMul(<<0, 333334>>, 3) = <<1, 2>>
ASSUME DDiv(<<1, 0>>, 2) = <<0, 500000>>
ASSUME DDiv(<<0, 1>>, 2) = <<0, 0>>                                          \* floor
ASSUME DDiv(<<0, 999>>, 2) = <<0, 499>>
ASSUME DDiv(<<3, 1>>, 4) = <<0, 750000>>                                     \* 3 000 001 / 4 = 750 000.25
ASSUME DDiv(<<7, 7>>, 8) = <<0, 875000>>                                     \* 7 000 007 / 8 = 875 000.875
ASSUME DDiv(<<15, 999999>>, 8) = <<1, 999999>>                               \* 15 999 999 / 8 = 1 999 999.875
ASSUME DDiv(<<10800000, 1>>, 8) = <<1350000, 0>>
ASSUME DDiv(<<61000, 0>>, 8) = <<7625, 0>>
ASSUME DDiv(<<59900, 1>>, 8) = <<7487, 500000>>                              \* 59 900 000 001 / 8 = 7 487 500 000.125
ASSUME DDiv(<<5, 3>>, 4) = <<1, 250000>>                                     \* 5 000 003 / 4 = 1 250 000.75
ASSUME DDiv(<<9, 999999>>, 1) = <<9, 999999>>
ASSUME DSub(<<2, 0>>, <<0, 1>>) = <<1, 999999>>                              \* borrow
ASSUME DSub(<<2, 5>>, <<2, 5>>) = <<0, 0>>
ASSUME DAbsDiff(<<0, 1>>, <<1, 0>>) = <<0, 999999>>
ASSUME DAbsDiff(<<1, 0>>, <<0, 1>>) = <<0, 999999>>
ASSUME DAbsDiff(<<3600000, 0>>, <<0, 999>>) = <<3599999, 999001>>
ASSUME DLe(<<1, 999999>>, <<2, 0>>) /\ ~DLe(<<2, 0>>, <<1, 999999>>) /\ DLe(<<2, 0>>, <<2, 0>>)
ASSUME DLt(<<0, 0>>, <<0, 1>>) /\ ~DLt(<<0, 1>>, <<0, 1>>)
ASSUME DMax(<<0, 5>>, <<0, 7>>) = <<0, 7>> /\ DMin(<<0, 5>>, <<0, 7>>) = <<0, 5>>
ASSUME DMax(<<1, 0>>, <<0, 999999>>) = <<1, 0>> /\ DMin(<<1, 0>>, <<0, 999999>>) = <<0, 999999>>
ASSUME IsDur(<<0, 999999>>) /\ ~IsDur(<<0, 1000000>>) /\ ~IsDur(<<-1, 0>>)

---------------------------------------------------------------------------
(* Constants of the property.                                              *)
MinRto      == Ms(200)      \* "between 200 ms ..."
MaxRto      == Ms(60000)    \* "... and 60 s"; also "the cap"
Granularity == Ms(10)       \* "the clock granularity"
K           == 4            \* "four times its variance"
\* RFC 6298 (2.3): alpha = 1/8, beta = 1/4 appear as the integer weights 7/8 + 1/8 and 3/4 + 1/4 below

Clamp(d) == IF DLt(d, MinRto) THEN MinRto ELSE IF DLt(MaxRto, d) THEN MaxRto ELSE d

(* "smoothed RTT plus four times its variance (at least the clock granularity)", kept within the bounds *)
CalcRto(srtt, rttvar) == Clamp(DAdd(srtt, DMax(DMul(rttvar, K), Granularity)))

ASSUME CalcRto(Ms(1000), Ms(500)) = Ms(3000)
ASSUME CalcRto(Zero, Zero) = Ms(200)                          \* 0 + max(0, 10 ms) = 10 ms, raised to 200 ms
ASSUME CalcRto(Ms(1000), <<2, 499999>>) = Ms(1010)            \* 4 * 2.499999 ms < 10 ms: granularity
ASSUME CalcRto(Ms(1000), <<2, 500001>>) = <<1010, 4>>
ASSUME CalcRto(Ms(59900), Ms(25)) = Ms(60000)                 \* exactly the cap
ASSUME CalcRto(Ms(59900), <<25, 1>>) = Ms(60000)              \* 60 000.000004 ms, cut to the cap
ASSUME CalcRto(Ms(190), Zero) = Ms(200) /\ CalcRto(<<190, 1>>, Zero) = <<200, 1>>

---------------------------------------------------------------------------
(* The estimator as pure functions on a state record.                      *)
(*   phase, srtt, rttvar, rto : the estimator proper (RFC 6298)            *)
(*   lo, hi, base, k          : observers for the property: smallest and   *)
(*                              largest sample seen, the timeout derived   *)
(*                              from the last sample (InitialRto before    *)
(*                              the first), timeouts since the last sample *)
StInit(rto0) ==
    [phase |-> "initial", srtt |-> Zero, rttvar |-> Zero, rto |-> rto0,
     lo |-> Zero, hi |-> Zero, base |-> rto0, k |-> 0]

StSample(s, r) ==
    LET first == s.phase = "initial"
        \* RFC 6298 (2.2) first measurement R: SRTT <- R, RTTVAR <- R/2
        \* RFC 6298 (2.3) RTTVAR <- (1 - beta) * RTTVAR + beta * |SRTT - R'|, then
        \*                SRTT   <- (1 - alpha) * SRTT + alpha * R'   (RTTVAR uses the old SRTT)
        var1  == IF first THEN DDiv(r, 2)
                 ELSE DAdd(DDiv(DMul(s.rttvar, 3), 4), DDiv(DAbsDiff(s.srtt, r), 4))
        srtt1 == IF first THEN r
                 ELSE DDiv(DAdd(DMul(s.srtt, 7), r), 8)
        rto1  == CalcRto(srtt1, var1)
    IN  [phase |-> "subsequent", srtt |-> srtt1, rttvar |-> var1, rto |-> rto1,
         lo |-> IF first THEN r ELSE DMin(s.lo, r),
         hi |-> IF first THEN r ELSE DMax(s.hi, r),
         base |-> rto1, k |-> 0]

(* RFC 6298 (5.5) "RTO <- RTO * 2 (back off the timer)", (2.5) maximum *)
StTimeout(s) == [s EXCEPT !.rto = DMin(DMul(s.rto, 2), MaxRto), !.k = s.k + 1]

ASSUME StSample(StInit(Ms(300)), Ms(1000)).rto = Ms(3000)
ASSUME LET s == StSample(StSample(StInit(Ms(300)), Ms(1000)), Ms(2000))
       IN  s.srtt = Ms(1125) /\ s.rttvar = Ms(625) /\ s.rto = Ms(3625) /\ s.lo = Ms(1000) /\ s.hi = Ms(2000)
ASSUME LET s == StSample(StSample(StInit(Ms(300)), <<0, 1>>), <<0, 999>>)
       \* rttvar: (0 * 3) / 4 + 998 / 4 = 249;  srtt: (7 + 999) / 8 = 125 (floor of 125.75)
       IN  s.srtt = <<0, 125>> /\ s.rttvar = <<0, 249>> /\ s.rto = Ms(200)
ASSUME StTimeout(StInit(Ms(300))).rto = Ms(600)
ASSUME StTimeout(StSample(StInit(Ms(300)), Ms(59900))).rto = Ms(60000)

---------------------------------------------------------------------------
(* The clauses of the property as predicates on values (shared with the    *)
(* trace specification, which evaluates them on recorded values).          *)

\* "The retransmission timeout is always between 200 ms and 60 s"
P_RtoBounds(rto) == DLe(MinRto, rto) /\ DLe(rto, MaxRto)

\* "equals smoothed RTT plus four times its variance (at least the clock granularity) after each sample"
\* (written out independently of CalcRto)
P_RtoFormula(rto, srtt, rttvar) ==
    LET v4   == DAdd(DAdd(rttvar, rttvar), DAdd(rttvar, rttvar))
        term == IF DLt(v4, Granularity) THEN Granularity ELSE v4
        raw  == DAdd(srtt, term)
    IN  rto = (IF DLt(raw, MinRto) THEN MinRto ELSE IF DLt(MaxRto, raw) THEN MaxRto ELSE raw)

\* "doubles on each timeout until the cap"
P_Doubling(before, after) == after = (IF DLe(MaxRto, DAdd(before, before)) THEN MaxRto ELSE DAdd(before, before))

\* closed form: k timeouts after the value b
RECURSIVE Backoff(_, _)
Backoff(b, k) == IF k = 0 \/ b = MaxRto THEN b ELSE Backoff(DMin(DMul(b, 2), MaxRto), k - 1)

\* "the smoothed RTT always lies between the smallest and largest sample seen"
P_SrttBetween(srtt, lo, hi) == DLe(lo, srtt) /\ DLe(srtt, hi)

---------------------------------------------------------------------------
(* The state machine over the calls.                                       *)
VARIABLE st
vars == <<st>>

Init      == st = StInit(InitialRto)
Sample(r) == st' = StSample(st, r)      \* RttEstimator::sample(r)
Timeout   == st' = StTimeout(st)        \* RttEstimator::on_rto_timeout()
Next      == (\E r \in Samples : Sample(r)) \/ Timeout
Spec      == Init /\ [][Next]_vars

TypeOK ==
    /\ st.phase \in {"initial", "subsequent"}
    /\ IsDur(st.srtt) /\ IsDur(st.rttvar) /\ IsDur(st.rto)
    /\ IsDur(st.lo) /\ IsDur(st.hi) /\ IsDur(st.base) /\ st.k >= 0

(* "The retransmission timeout is always between 200 ms and 60 s" -- in every reachable state,
   the one before the first sample included. *)
RtoBounds == P_RtoBounds(st.rto)

(* "equals smoothed RTT plus four times its variance (at least the clock granularity) after each
   sample": k = 0 in the subsequent phase means that the last call was a sample. *)
RtoFormula == (st.phase = "subsequent" /\ st.k = 0) => P_RtoFormula(st.rto, st.srtt, st.rttvar)

(* "doubles on each timeout until the cap and returns to the sample-derived value on the next sample":
   after k timeouts the timeout is the sample-derived value (InitialRto before the first sample) doubled
   k times and cut at 60 s; with k = 0 -- a sample was just taken -- that is the sample-derived value
   itself, whatever back-off preceded. *)
Doubling == st.rto = Backoff(st.base, st.k)

(* the same clause as a property of single steps (checked on every transition, merged states included):
   a timeout doubles up to the cap and touches nothing else; a sample makes the timeout the
   sample-derived value (the one RtoFormula describes), independently of the timeout before it *)
DoublingStep ==
    [][ /\ (st'.k = st.k + 1 => /\ P_Doubling(st.rto, st'.rto)
                                /\ st'.srtt = st.srtt /\ st'.rttvar = st.rttvar /\ st'.base = st.base)
        /\ (st'.k = 0 => st'.rto = st'.base) ]_vars

(* "the smoothed RTT always lies between the smallest and largest sample seen" *)
SrttBetween == st.phase = "subsequent" => P_SrttBetween(st.srtt, st.lo, st.hi)

(* not a clause of the property; keeps the 32-bit limbs honest: the variance never exceeds the largest
   sample (so 4 * rttvar and 7 * srtt stay below 2^31 ms for samples up to 74 hours) *)
VarBounded == st.phase = "subsequent" => DLe(st.rttvar, st.hi)
=============================================================================
