------------------------------ MODULE Recovery ------------------------------
(***************************************************************************)
(* The sender's loss-recovery state machine (src/recovery.rs, `Recovery`)  *)
(* as an abstract state machine over the calls the dispatcher makes, and   *)
(* the clauses of C06 (and the "outside loss recovery" boundary of C05)    *)
(* it serves.                                                              *)
(*                                                                         *)
(*   C06 "three duplicate acknowledgements or equivalent selective-ACK     *)
(*       evidence trigger a retransmission without waiting for the timeout *)
(*       (unless a timeout recovery is already in progress)"               *)
(*   C06 anchors: "duplicate-ACK / SACK counting and recovery entry at     *)
(*       threshold 3", "recovery retransmits only lost, undelivered        *)
(*       segments up to the recovery point"                                *)
(*   C05 "When an endpoint transmits new (never-sent) payload outside loss *)
(*       recovery ...": is_recovering() is that boundary.                  *)
(*                                                                         *)
(* Constants from the texts (never from the code): DupThreshold = 3        *)
(* ("three duplicate acknowledgements"; RFC 5681 3.2; RFC 6675 DupThresh), *)
(* 16-bit sequence numbers, "SACK bit i refers to sequence number ack_nr   *)
(* + 2 + i" (BEP-29), the stored selective ACK is 64 bits deep (C11).      *)
(*                                                                         *)
(* The sender as the component sees it:                                    *)
(*   una, q    SND.UNA and the queued segments una, una+1, ..; q[i] = the  *)
(*             peer acknowledged segment una+i-1 selectively (delivered)   *)
(*   last      the dispatcher's last_sent_seq_nr (SND.NXT - 1).  An RTO    *)
(*             rewinds it to the retransmitted segment (go-back-N).        *)
(*   high      the highest sequence number ever transmitted (SND.MAX - 1,  *)
(*             HighData of RFC 6675)                                       *)
(*   blocked   the dispatcher is in RTO mode: it sends nothing until an    *)
(*             ACK acknowledges something (C05 "immediately after a        *)
(*             retransmission timeout it sends a single segment until new  *)
(*             data is acknowledged")                                      *)
(*   mode      "open" | "rec" (fast recovery, NewReno / RFC 6675 loss      *)
(*             recovery) | "rto" (the ignore period after a timeout INSIDE *)
(*             an episode, RFC 6675 5.1)                                   *)
(*   point     recovery point of the episode / ignore period (-1 in "open")*)
(*   orp       the highest sequence number transmitted when the timer last *)
(*             fired OUTSIDE an episode, until a packet's ack_nr reaches   *)
(*             it (-1: none): the timeout recovery RFC 6582 4 would keep.  *)
(*             Observation only (see the end of this comment).             *)
(*   rtxd      the current "rec" episode has retransmitted something       *)
(*   sack      the peer has used the selective-ACK extension               *)
(*   pa, pw    ack_nr and window of the packet processed immediately       *)
(*             before (-1: none yet)                                       *)
(*   cnt       the reference count of duplicates (see below)               *)
(*   sd, ld    the strictest / loosest reading of the evidence             *)
(*   rep       length of the current run of identical ST_STATE packets     *)
(*   bl        where the baseline of the current count came from:          *)
(*             "exit" the ACK that ended an episode, "idle" an ACK that    *)
(*             arrived while nothing was in flight, "" any other packet    *)
(*                                                                         *)
(* Calls (an op is a tuple of integers, head = name):                      *)
(*   <<"n", una, nq, ns>>   fresh objects, nq segments queued, the first   *)
(*                          ns of them transmitted                         *)
(*   <<"q">>                one more segment is queued (not transmitted)   *)
(*   <<"d">>                the next segment is transmitted (send_tx_queue *)
(*                          new-data loop: the first undelivered segment   *)
(*                          above last; queued first if there is none)     *)
(*   <<"a", ack_nr, has, bytes, ty, wnd>>  a packet of type ty (2 ST_STATE, *)
(*                          0 ST_DATA) is processed: remove_up_to_ack,     *)
(*                          Recovery::on_ack, then the dispatcher's        *)
(*                          bookkeeping (leave RTO mode, last catches up   *)
(*                          with SND.UNA - 1)                              *)
(*   <<"t">>                the retransmission timer fires: the first      *)
(*                          segment is retransmitted, on_rto_timeout(last),*)
(*                          last is rewound to it, RTO mode                *)
(*   <<"x">>                one pass of the dispatcher's recovery branch   *)
(*                          (send_tx_queue, `if let Some(rec) =            *)
(*                          recovery.recovering_mut()`), behind the gate   *)
(*                          "We are in RTO retransmission mode, don't send *)
(*                          anything"                                      *)
(* Apply(s, op) = [st, ans, info].  ans = <<is_recovering, recovery point  *)
(* (-1: none), on_enter_recovery calls, on_recovered calls, fr>> is what   *)
(* the real objects must show after the call (fr: the sequence number the  *)
(* FIRST retransmission of the episode carries if this call makes it, else *)
(* -1); info carries what the rules need (evidence, the segments the       *)
(* episode may retransmit).                                                *)
(*                                                                         *)
(* THE CONTRACT IS A BAND.  The texts agree on when evidence is certainly  *)
(* there and certainly not there; in between they differ (does a window    *)
(* update, a data packet, a stale ACK reset the count?  does every packet  *)
(* with a selective ACK count?).  So:                                      *)
(*   must  the strictest reading reaches the threshold: entering is        *)
(*         OBLIGATORY (C06.FastRetxEnters)                                 *)
(*   may   the loosest reading reaches it: entering is PERMITTED only then *)
(*         (C06.NoSpuriousEntry)                                           *)
(*   cnt   the reference resolution inside the band (what Recov.ObsAgrees  *)
(*         compares with): a packet of a non-SACK peer is a duplicate iff  *)
(*         it is an ST_STATE with the ack_nr and window of the packet      *)
(*         before it; any other packet restarts the count and is the new   *)
(*         baseline; with a SACK peer every packet that carries the        *)
(*         extension counts and one whose bitmap has >= 3 bits set is      *)
(*         enough by itself; a packet without the extension restarts.      *)
(*         In every reading: nothing counts while no transmitted data is   *)
(*         outstanding ("repeats received while nothing is in flight are   *)
(*         not counted"), and the packet that ended an episode / a timeout *)
(*         recovery, or that arrived while nothing was in flight, is the   *)
(*         baseline: its first repeat is the first duplicate.              *)
(* MCRecovery checks must => reference => may on every transition.         *)
(*                                                                         *)
(* TIMEOUTS.  C06 is about retransmissions on the wire: "... trigger a     *)
(* retransmission without waiting for the timeout (unless a timeout        *)
(* recovery is already in progress)".  On the wire a timeout recovery is   *)
(* the dispatcher's RTO mode (blocked): while it lasts the recovery branch *)
(* sends nothing, whatever the state machine believes                      *)
(* (C06.NoEntryDuringRto, wire clause).  Inside the state machine:         *)
(*   - a timeout INSIDE an episode ends it and begins an ignore period     *)
(*     ("rto") up to last_sent_seq_nr: RFC 6675 5.1 "If an RTO occurs      *)
(*     during loss recovery ... RecoveryPoint MUST be set to HighData ...  *)
(*     a new recovery phase MUST NOT be initiated until HighACK is greater *)
(*     than or equal to the new value of RecoveryPoint"                    *)
(*     (C06.NoEntryDuringRto, state clause);                               *)
(*   - a timeout OUTSIDE an episode changes nothing in the state machine   *)
(*     (RFC 6675 5.1 read alone allows that): no ignore period, the        *)
(*     duplicate count is kept, and an episode that begins later takes the *)
(*     current - rewound - last_sent_seq_nr as its recovery point.  RFC    *)
(*     6582 4 ("After a retransmit timeout, record the highest sequence    *)
(*     number transmitted in the variable recover") would keep a timeout   *)
(*     recovery here too; what is lost by not doing so is congestion state *)
(*     (on_enter_recovery right after on_retransmission_timeout, ssthresh  *)
(*     of two segments after the next ACK), which C06 does not constrain.  *)
(*     Counted as observations, never violations:                          *)
(*       C06.NoEntryDuringRto.entryAfterOpenTimeout  an episode began      *)
(*           before ack_nr reached orp                                     *)
(*       C06.RecoveryPoint.rewound  its recovery point is a rewound        *)
(*           last_sent_seq_nr, below the highest sequence number sent      *)
(*       C06.NoEntryDuringRto.pointNotRaised  a further timeout inside an  *)
(*           ignore period with data transmitted beyond its point left the *)
(*           point where it was                                            *)
(***************************************************************************)
EXTENDS Integers, Sequences, FiniteSets, SeqArith

M == 65536
DupThreshold == 3
SackDepth == 64
ST_DATA == 0
ST_STATE == 2

Min2(a, b) == IF a <= b THEN a ELSE b
Max2(a, b) == IF a >= b THEN a ELSE b
B(x) == IF x THEN 1 ELSE 0
Bit(m, k) == (m \div (2 ^ k)) % 2 = 1

Pop8(b) == B(Bit(b, 0)) + B(Bit(b, 1)) + B(Bit(b, 2)) + B(Bit(b, 3)) + B(Bit(b, 4)) + B(Bit(b, 5)) + B(Bit(b, 6)) + B(Bit(b, 7))
RECURSIVE SumSeq(_)
SumSeq(t) == IF t = << >> THEN 0 ELSE Head(t) + SumSeq(Tail(t))
(* number of bits set in the stored part (64 bits) of a selective ACK *)
PopBits(bytes) == SumSeq([k \in 1..Min2(Len(bytes), SackDepth \div 8) |-> Pop8(bytes[k])])
(* "SACK bit i refers to sequence number ack_nr + 2 + i" *)
SackBit(bytes, i) == i >= 0 /\ i < SackDepth /\ i < 8 * Len(bytes) /\ Bit(bytes[(i \div 8) + 1], i % 8)

RECURSIVE LeadTrue(_)
LeadTrue(q) == IF q = << >> \/ ~Head(q) THEN 0 ELSE 1 + LeadTrue(Tail(q))

Prev(x) == SeqSubK(x, 1, M)
NQ(s) == Len(s.q)
SeqAt(s, i) == Add(s.una, i - 1, M)
(* transmitted data is outstanding: "sent and unacked" *)
Outstanding(s) == NQ(s) > 0 /\ Dist(s.last, s.una, M) >= 0

StNew(u) ==
    [una |-> u, q |-> << >>, last |-> Prev(u), high |-> Prev(u), blocked |-> FALSE,
     mode |-> "open", point |-> -1, orp |-> -1, rtxd |-> FALSE, sack |-> FALSE,
     pa |-> -1, pw |-> -1, cnt |-> 0, sd |-> 0, ld |-> 0, rep |-> 0, bl |-> ""]

NoInfo == [kind |-> "", must |-> FALSE, may |-> FALSE, out |-> FALSE, full |-> FALSE, allow |-> << >>,
           mustDup |-> FALSE, mustSack |-> FALSE, idleRepeat |-> FALSE, rtoEvidence |-> FALSE, pastPoint |-> FALSE,
           rawOnly |-> FALSE, bl |-> "", afterOpenTimeout |-> FALSE, rewound |-> FALSE, notRaised |-> FALSE,
           gated |-> FALSE]

Ans(s, ent, exi, fr) == <<B(s.mode = "rec"), IF s.mode = "rec" THEN s.point ELSE -1, ent, exi, fr>>

---------------------------------------------------------------------------
(* The calls.                                                              *)

Enqueue(s) ==
    LET s1 == [s EXCEPT !.q = Append(@, FALSE)]
    IN  [st |-> s1, ans |-> Ans(s1, 0, 0, -1), info |-> [NoInfo EXCEPT !.kind = "q"]]

(* send_tx_queue, new data: iter_mut_for_sending(last + 1) leaves delivered segments out *)
SendPos(s) ==
    LET k == Max2(Dist(s.last, s.una, M) + 1, 0)
        c == { j \in 1..NQ(s) : j > k /\ ~s.q[j] }
    IN  IF c = {} THEN NQ(s) + 1 ELSE CHOOSE j \in c : \A i \in c : j <= i
SendNext(s) ==
    LET p  == SendPos(s)
        sq == SeqAt(s, p)
        s1 == [s EXCEPT !.q = IF p > NQ(s) THEN Append(@, FALSE) ELSE @,
                        !.last = IF Dist(sq, @, M) > 0 THEN sq ELSE @,
                        !.high = IF Dist(sq, @, M) > 0 THEN sq ELSE @]
    IN  [st |-> s1, ans |-> Ans(s1, 0, 0, -1), info |-> [NoInfo EXCEPT !.kind = "d"]]

(* The retransmission timer fires (queue not empty): the first segment is  *)
(* resent, last_sent_seq_nr is rewound to it, RTO mode.  Inside an episode *)
(* the episode ends and an ignore period begins (RFC 6675 5.1, see         *)
(* TIMEOUTS above); outside, the state machine is left as it is.           *)
Rto(s) ==
    IF NQ(s) = 0 THEN [st |-> s, ans |-> Ans(s, 0, 0, -1), info |-> [NoInfo EXCEPT !.kind = "t"]]
    ELSE
    LET inEp == s.mode = "rec"
        s1 == [s EXCEPT !.mode = IF inEp THEN "rto" ELSE @,
                        !.point = IF inEp THEN s.last ELSE @,
                        !.rtxd = IF inEp THEN FALSE ELSE @,
                        !.orp = IF s.mode = "open" /\ Dist(s.high, s.una, M) >= 0 THEN s.high ELSE @,
                        !.last = s.una, !.high = IF Dist(s.una, @, M) > 0 THEN s.una ELSE @,
                        !.blocked = TRUE]
    IN  [st |-> s1, ans |-> Ans(s1, 0, 0, -1),
         info |-> [NoInfo EXCEPT !.kind = "t", !.notRaised = s.mode = "rto" /\ Dist(s.last, s.point, M) > 0]]

(* What a recovery episode may retransmit: "recovery retransmits only      *)
(* lost, undelivered segments up to the recovery point" (and C06 "A        *)
(* segment the peer has acknowledged (cumulatively or selectively) is      *)
(* never retransmitted").                                                  *)
Allowed(s) ==
    IF s.mode # "rec" THEN << >>
    ELSE LET idx == SelectSeq([i \in 1..NQ(s) |-> i], LAMBDA i : ~s.q[i] /\ Dist(SeqAt(s, i), s.point, M) <= 0)
         IN  [k \in 1..Len(idx) |-> SeqAt(s, idx[k])]

(* One pass of the recovery branch.  The first retransmission of an        *)
(* episode is unconditional ("we MUST transmit the first segment no matter *)
(* what") and carries the first unacknowledged segment: that is the fast   *)
(* retransmit of RFC 5681 3.2 step 2 / RFC 6675 5 step (4.3).              *)
(* In RTO mode the dispatcher returns before it ("not sending anything     *)
(* while in RTO processing"): nothing may be retransmitted.                *)
Retx(s) ==
    LET al == IF s.blocked THEN << >> ELSE Allowed(s)
        fr == IF s.mode = "rec" /\ ~s.rtxd /\ al # << >> THEN al[1] ELSE -1
        s1 == [s EXCEPT !.rtxd = @ \/ (s.mode = "rec" /\ al # << >>)]
    IN  [st |-> s1, ans |-> Ans(s1, 0, 0, fr),
         info |-> [NoInfo EXCEPT !.kind = "x", !.allow = al, !.gated = s.blocked /\ s.mode = "rec"]]

(* A packet is processed.                                                  *)
Ack(s, a, has, bytes, ty, w) ==
    LET n      == NQ(s)
        d      == Dist(a, s.una, M)
        (* 1. cumulative: the segments with sequence number <= ack_nr leave *)
        cum    == IF d >= 0 THEN Min2(d + 1, n) ELSE 0
        q1     == SubSeq(s.q, cum + 1, n)
        una1   == Add(s.una, cum, M)
        (* 2. selective: those a set bit refers to are delivered *)
        marked == { j \in 1..Len(q1) : has = 1 /\ SackBit(bytes, (Add(una1, j - 1, M) - a - 2) % M) }
        new    == { j \in marked : ~q1[j] }
        q2     == [j \in 1..Len(q1) |-> q1[j] \/ j \in marked]
        (* 3. delivered segments that are now the front leave as well *)
        fc     == LeadTrue(q2)
        q3     == SubSeq(q2, fc + 1, Len(q2))
        una3   == Add(una1, fc, M)
        acked  == cum + fc
        (* "while data is outstanding": transmitted and not acknowledged, as on_ack sees it (before
           the dispatcher lets last catch up) *)
        out    == Len(q3) > 0 /\ Dist(s.last, una3, M) >= 0
        sack1  == s.sack \/ has = 1
        pop    == IF has = 1 THEN PopBits(bytes) ELSE 0
        (* honest selective evidence: queued, transmitted segments above the first unacknowledged one
           that THIS packet's bitmap marks (RFC 6675 IsLost: "DupThresh discontiguous SACKed sequences
           have arrived above 'SeqNum'") *)
        hon    == Cardinality({ j \in marked : j > fc /\ Dist(Add(una1, j - 1, M), s.last, M) <= 0 })
        sb     == Cardinality({ j \in 1..Len(q3) : q3[j] })        \* the scoreboard above SND.UNA
        (* the reference count *)
        same   == ty = ST_STATE /\ a = s.pa /\ w = s.pw
        cnt1   == IF ~out THEN 0
                  ELSE IF sack1 THEN (IF has = 1 THEN (IF pop >= DupThreshold THEN DupThreshold ELSE s.cnt + 1) ELSE 0)
                  ELSE IF same THEN s.cnt + 1 ELSE 0
        (* strictest reading, RFC 5681 2: "(a) the receiver of the ACK has outstanding data, (b) the
           incoming acknowledgment carries no data, ... (d) the acknowledgment number is equal to the
           greatest acknowledgment received on the given connection and (e) the advertised window in
           the incoming acknowledgment equals the advertised window in the last incoming
           acknowledgment"; consecutive; a peer that never used selective ACKs *)
        sdup   == out /\ ~sack1 /\ ty = ST_STATE /\ acked = 0 /\ a = Prev(una3) /\ a = s.pa /\ w = s.pw
        sd1    == IF sdup THEN s.sd + 1 ELSE 0
        (* loosest reading: every packet that does not advance SND.UNA (ST_STATE or carrying a selective
           ACK) counts, whatever its window or ack_nr, and every packet with a selective ACK counts even
           if it advances; only a plain cumulative ACK that advances restarts *)
        ld1    == IF ~out THEN 0
                  ELSE IF acked > 0 /\ has = 0 THEN 0
                  ELSE IF has = 1 \/ (acked = 0 /\ ty = ST_STATE) THEN Min2(s.ld + 1, DupThreshold)
                  ELSE s.ld
        (* "(unless a timeout recovery is already in progress)": no obligation before ack_nr reaches the
           highest sequence number that had been transmitted when the timer fired *)
        inOrp  == s.orp >= 0 /\ Dist(a, s.orp, M) < 0
        must   == s.mode = "open" /\ out /\ ~inOrp /\ (sd1 >= DupThreshold \/ hon >= DupThreshold)
        mayEv  == out /\ (ld1 >= DupThreshold \/ pop >= DupThreshold \/ sb >= DupThreshold)
        enter  == s.mode = "open" /\ out /\ cnt1 >= DupThreshold
        (* RFC 6582 3.2 "Full acknowledgments: If this ACK acknowledges all of the data up to and
           including recover"; RFC 6675 5.1 "until HighACK is greater than or equal to the new value of
           RecoveryPoint".  Read on the packet's ack_nr. *)
        full   == s.mode # "open" /\ Dist(a, s.point, M) >= 0
        (* the dispatcher: "Exit RTO mode", "everything below SND.UNA has been sent and acknowledged" *)
        last1  == IF acked > 0 /\ Dist(s.last, Prev(una3), M) < 0 THEN Prev(una3) ELSE s.last
        high1  == IF Dist(last1, s.high, M) > 0 THEN last1 ELSE s.high
        counted == s.mode = "open" /\ out /\ ~sack1 /\ same
        s1 == [s EXCEPT
                 !.una = una3, !.q = q3, !.last = last1, !.high = high1,
                 !.blocked = IF acked > 0 \/ new # {} THEN FALSE ELSE @,
                 !.mode = IF enter THEN "rec" ELSE IF full THEN "open" ELSE @,
                 !.point = IF enter THEN s.last ELSE IF full THEN -1 ELSE @,
                 !.orp = IF inOrp THEN @ ELSE -1,
                 !.rtxd = IF enter \/ full THEN FALSE ELSE @,
                 !.sack = sack1, !.pa = a, !.pw = w,
                 !.cnt = IF s.mode = "open" /\ ~enter THEN cnt1 ELSE 0,
                 !.sd = IF s.mode = "open" /\ ~enter THEN Min2(sd1, DupThreshold) ELSE 0,
                 !.ld = IF s.mode = "open" /\ ~enter THEN ld1 ELSE 0,
                 !.rep = IF same THEN Min2(@ + 1, DupThreshold) ELSE 0,
                 !.bl = IF enter THEN "" ELSE IF full THEN "exit" ELSE IF s.mode # "open" THEN @
                        ELSE IF ~out THEN "idle" ELSE IF counted THEN @ ELSE ""]
    IN  [st |-> s1,
         ans |-> Ans(s1, B(enter), B(s.mode = "rec" /\ full), -1),
         info |-> [NoInfo EXCEPT !.kind = "a", !.must = must, !.may = mayEv, !.out = out, !.full = full,
                     !.mustDup = must /\ sd1 >= DupThreshold, !.mustSack = must /\ hon >= DupThreshold,
                     !.idleRepeat = s.mode = "open" /\ ~out /\ Len(q3) > 0 /\ same,
                     !.rtoEvidence = s.mode = "rto" /\ ~full /\ out /\ (pop >= DupThreshold \/ (same /\ s.rep >= DupThreshold - 1)),
                     !.pastPoint = s.mode # "open" /\ ~full /\ Dist(Prev(una3), s.point, M) >= 0,
                     !.rawOnly = mayEv /\ ld1 < DupThreshold /\ sb < DupThreshold,
                     !.bl = s.bl, !.afterOpenTimeout = enter /\ inOrp, !.rewound = enter /\ s.last # s.high]]

IsOp(op) == op[1] \in {"q", "d", "a", "t", "x"}
Apply(s, op) ==
    CASE op[1] = "q" -> Enqueue(s)
      [] op[1] = "d" -> SendNext(s)
      [] op[1] = "a" -> Ack(s, op[2], op[3], op[4], op[5], op[6])
      [] op[1] = "t" -> Rto(s)
      [] op[1] = "x" -> Retx(s)

RECURSIVE Fill(_, _, _)
Fill(s, nq, ns) ==
    IF NQ(s) < nq THEN Fill(Enqueue(s).st, nq, ns)
    ELSE IF Dist(s.last, s.una, M) + 1 < ns THEN Fill(SendNext(s).st, nq, ns)
    ELSE s
(* <<"n", una, nq, ns>> (ns <= nq) *)
Fresh(op) == Fill(StNew(op[2]), op[3], op[4])

(* What the driver can see of the sender besides ans:                      *)
(* <<snd_una, total_len_packets, last_sent_seq_nr, RTO mode, positions     *)
(*   (0-based) of the delivered segments>>                                 *)
Obs(s) == <<s.una, NQ(s), s.last, B(s.blocked), SelectSeq([i \in 1..NQ(s) |-> i - 1], LAMBDA i : s.q[i + 1])>>

---------------------------------------------------------------------------
(* State invariants (checked by MCRecovery).                               *)

(* a queue never starts with a delivered segment; last never passes high   *)
(* nor falls behind SND.UNA - 1; the counts are ordered strictest <=       *)
(* reference <= loosest and vanish outside "open"                          *)
Shape(s) ==
    /\ NQ(s) > 0 => ~s.q[1]
    /\ Dist(s.last, s.high, M) <= 0
    /\ Dist(s.last, Prev(s.una), M) >= 0
    /\ s.mode = "open" <=> s.point = -1
    /\ s.orp >= 0 => Dist(s.orp, s.high, M) <= 0
    /\ s.sd <= s.cnt /\ s.cnt <= s.ld /\ s.cnt < DupThreshold
    /\ s.mode # "open" => s.cnt = 0 /\ s.sd = 0 /\ s.ld = 0

(* the band: must => reference => may (on the answer to a packet)          *)
BandOK(s, r) ==
    r.info.kind = "a" =>
        /\ r.info.must => r.ans[3] = 1
        /\ r.ans[3] = 1 => (s.mode = "open" /\ r.info.may)

---------------------------------------------------------------------------
(* The clauses on an answer.  rs: set of <<rule, applicable, holds>>.      *)
RuleNames == {
    "C06.FastRetxEnters", "C06.NoSpuriousEntry", "C06.NoEntryDuringRto", "C06.RecoveryPoint",
    "C06.ExitsOnFullAck", "C06.OnlyLostRetransmitted", "Recov.ObsAgrees", "Recov.NoPanic",
    \* coverage markers (which branch of a rule a line exercised); never violated
    "C06.FastRetxEnters.dupacks", "C06.FastRetxEnters.sack", "C06.FastRetxEnters.baseExit",
    "C06.FastRetxEnters.baseIdle", "C06.FastRetxEnters.retransmits",
    "C06.NoSpuriousEntry.idleRepeat", "C06.NoSpuriousEntry.below", "C06.NoSpuriousEntry.rawBitsOnly",
    "C06.NoEntryDuringRto.evidence", "C06.NoEntryDuringRto.gated",
    \* observations (see TIMEOUTS): counted, never violated
    "C06.NoEntryDuringRto.entryAfterOpenTimeout", "C06.NoEntryDuringRto.pointNotRaised", "C06.RecoveryPoint.rewound",
    "C06.ExitsOnFullAck.full", "C06.ExitsOnFullAck.partial", "C06.ExitsOnFullAck.unaPastPoint",
    "C06.OnlyLostRetransmitted.some", "C06.OnlyLostRetransmitted.skipsDelivered" }

Broken(rs)  == { x[1] : x \in { y \in rs : y[2] /\ ~y[3] } }
Covered(rs) == { x[1] : x \in { y \in rs : y[2] } }

SeqSet(t) == { t[k] : k \in 1..Len(t) }

(* s   the specification's state before the call                           *)
(* pv  <<is_recovering, recovery point>> observed before the call          *)
(* o   [ans, rtx, obs, aux, panic]: the answer of the real objects: ans as *)
(*     above, rtx the sequence numbers the recovery pass retransmitted,    *)
(*     obs as Obs, aux = <<Recovery::cwnd() is Some, remaining_cwnd() is   *)
(*     Some>>, panic "" or where the code panicked                         *)
(* r   Apply(s, op), e  Obs(r.st)                                          *)
RulesX(s, pv, op, o, r, e) ==
    LET ok    == o.panic = ""
        k     == op[1]
        isA   == k = "a"
        i     == r.info
        rec0  == pv[1] = 1
        rec1  == ok /\ o.ans[1] = 1
        entered == ok /\ (o.ans[3] > 0 \/ (~rec0 /\ rec1))
        al    == SeqSet(i.allow)
    IN {
      <<"Recov.NoPanic", TRUE, ok>>,
      (* every observable equals the specification's; the congestion-window accessors are Some exactly
         while recovering (C05: that is the "outside loss recovery" boundary the dispatcher reads) *)
      <<"Recov.ObsAgrees", ok,
          /\ o.ans = r.ans
          /\ o.obs = e
          /\ o.aux = <<o.ans[1], o.ans[1]>>
          /\ (k # "x" => o.rtx = << >>)>>,

      (* C06 "three duplicate acknowledgements or equivalent selective-ACK evidence trigger a
         retransmission without waiting for the timeout": the episode begins exactly with the packet
         that completes the evidence (strictest reading: obligatory), the congestion controller is told
         once, and the first pass of the recovery branch retransmits the first unacknowledged segment *)
      <<"C06.FastRetxEnters", (isA /\ i.must) \/ (k = "x" /\ r.ans[5] >= 0),
          ok /\ (isA => (o.ans[1] = 1 /\ o.ans[3] = 1))
             /\ (k = "x" => (o.ans[5] = s.una /\ Len(o.rtx) > 0 /\ o.rtx[1] = s.una))>>,
      <<"C06.FastRetxEnters.dupacks", isA /\ i.mustDup, TRUE>>,
      <<"C06.FastRetxEnters.sack", isA /\ i.mustSack, TRUE>>,
      (* "the ACK that ended the previous recovery episode or that arrived on an empty TX queue is the
         baseline for counting" *)
      <<"C06.FastRetxEnters.baseExit", isA /\ i.mustDup /\ i.bl = "exit", TRUE>>,
      <<"C06.FastRetxEnters.baseIdle", isA /\ i.mustDup /\ i.bl = "idle", TRUE>>,
      <<"C06.FastRetxEnters.retransmits", k = "x" /\ r.ans[5] >= 0, TRUE>>,

      (* "... and not before": an episode begins only on a packet, only while transmitted data is
         outstanding, and only when even the loosest reading of the evidence reaches three ("never on
         fewer than 3 duplicates / SACKed segments, never when nothing is outstanding"; "repeats
         received while nothing is in flight are not counted").  Inside a timeout recovery the next
         rule speaks. *)
      <<"C06.NoSpuriousEntry", entered /\ s.mode # "rto", isA /\ s.mode = "open" /\ i.may>>,
      <<"C06.NoSpuriousEntry.idleRepeat", isA /\ i.idleRepeat, TRUE>>,
      <<"C06.NoSpuriousEntry.below", isA /\ s.mode = "open" /\ i.out /\ ~i.may /\ (s.ld > 0 \/ s.cnt > 0), TRUE>>,
      (* observation, not a violation: the episode began on the raw number of bits in the packet's
         bitmap alone (they do not refer to >= 3 queued segments, e.g. a stale or bogus selective ACK) *)
      <<"C06.NoSpuriousEntry.rawBitsOnly", isA /\ entered /\ s.mode = "open" /\ i.rawOnly, TRUE>>,

      (* "(unless a timeout recovery is already in progress)".  State clause, RFC 6675 5.1: in the ignore
         period after a timeout inside an episode "a new recovery phase MUST NOT be initiated until HighACK
         is greater than or equal to the new value of RecoveryPoint".  Wire clause: while the dispatcher is
         in RTO mode (until a packet acknowledges or selectively acknowledges something new) a pass of the
         recovery branch retransmits nothing. *)
      <<"C06.NoEntryDuringRto", (isA /\ s.mode = "rto") \/ (k = "x" /\ s.blocked),
          ok /\ (isA => (o.ans[1] = 0 /\ o.ans[3] = 0)) /\ (k = "x" => (o.rtx = << >> /\ o.ans[5] = -1))>>,
      <<"C06.NoEntryDuringRto.evidence", isA /\ i.rtoEvidence, TRUE>>,
      <<"C06.NoEntryDuringRto.gated", k = "x" /\ i.gated, TRUE>>,
      <<"C06.NoEntryDuringRto.entryAfterOpenTimeout", isA /\ entered /\ i.afterOpenTimeout, TRUE>>,
      <<"C06.NoEntryDuringRto.pointNotRaised", k = "t" /\ i.notRaised, TRUE>>,

      (* RFC 6675 5 (4.1) "RecoveryPoint = HighData"; RFC 6582 3.2 step 2 "record the highest sequence
         number transmitted in the variable recover": fixed when the episode begins, to the highest
         sequence number sent as the dispatcher keeps it (last_sent_seq_nr); unchanged while it lasts *)
      <<"C06.RecoveryPoint", rec1,
          IF entered THEN o.ans[2] = s.last ELSE (o.ans[2] = pv[2] /\ (s.mode = "rec" => o.ans[2] = s.point))>>,
      <<"C06.RecoveryPoint.rewound", isA /\ entered /\ i.rewound, TRUE>>,

      (* RFC 6582 3.2 step 3 "Full acknowledgments ... exit the fast recovery procedure", "Partial
         acknowledgments ... do not exit": the episode ends with the packet whose ack_nr reaches the
         recovery point (the congestion controller is told once) and with no earlier one *)
      <<"C06.ExitsOnFullAck", isA /\ s.mode = "rec" /\ rec0,
          ok /\ IF i.full THEN o.ans[1] = 0 /\ o.ans[4] = 1
                ELSE o.ans[1] = 1 /\ o.ans[4] = 0 /\ o.ans[2] = s.point>>,
      <<"C06.ExitsOnFullAck.full", isA /\ s.mode = "rec" /\ i.full, TRUE>>,
      <<"C06.ExitsOnFullAck.partial", isA /\ s.mode = "rec" /\ ~i.full, TRUE>>,
      (* observation: SND.UNA passed the recovery point (delivered segments became the front) while the
         packet's ack_nr did not reach it; the episode lasts until a later packet's ack_nr does *)
      <<"C06.ExitsOnFullAck.unaPastPoint", isA /\ i.pastPoint, TRUE>>,

      (* "recovery retransmits only lost, undelivered segments up to the recovery point"; C06 "A segment
         the peer has acknowledged (cumulatively or selectively) is never retransmitted" *)
      <<"C06.OnlyLostRetransmitted", k = "x", ok /\ SeqSet(o.rtx) \subseteq al>>,
      <<"C06.OnlyLostRetransmitted.some", k = "x" /\ ok /\ Len(o.rtx) > 0, TRUE>>,
      <<"C06.OnlyLostRetransmitted.skipsDelivered",
          k = "x" /\ ok /\ Len(o.rtx) > 0 /\ \E j \in 1..NQ(s) : s.q[j] /\ Dist(SeqAt(s, j), s.point, M) <= 0, TRUE>>
    }

Rules(s, pv, op, o) ==
    UNION { RulesX(s, pv, op, o, v[1], v[2]) : v \in { <<x, Obs(x.st)>> : x \in {Apply(s, op)} } }

ModeCtx(s) == s.mode
=============================================================================
