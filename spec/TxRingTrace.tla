----------------------------- MODULE TxRingTrace -----------------------------
(***************************************************************************)
(* Trace specification for the sender's application half: replays an       *)
(* ND-JSON recording of calls made on the real UserTx / UtpStreamWriteHalf *)
(* (unit/src/bin/unit_utx.rs: record mode, or the full answers to a        *)
(* replayed case) through the operators of TxRing.tla.  One step per line: *)
(* the step advances the specification's own state with Apply (the SAME    *)
(* operators MCTxRing checks) and *evaluates* the rules of TxRing.tla on   *)
(* the recorded values, so one pass reports every broken rule with its     *)
(* line.                                                                   *)
(*                                                                         *)
(* A line (every line has every field):                                    *)
(*   op     new | write | flush | shutdown | drop | ack | grow | close     *)
(*          | regdisp | read | panic (res: the call that panicked)         *)
(*   a, b   write: a = length of the buffer handed over (vectored: of the  *)
(*          first buffer that is not empty), b = total length;             *)
(*          ack: a = bytes acknowledged;  read: a = offset, b = length;    *)
(*          new: a = initial, b = maximum size of the transmit buffer      *)
(*   res    write / flush / shutdown: ok | pending | err;  grow: grown |   *)
(*          none;  others: ok (err: the call failed)                       *)
(*   n      bytes accepted / acknowledged / read; the new capacity         *)
(*   err    "" | closed | shutdown | other                                 *)
(*   wwake, dwake  wake-ups of the writer's / connection task's waker in   *)
(*          the call                                                       *)
(*   runs   read: the bytes read, run-length compressed: maximal runs      *)
(*          [first value, count] of values going up by one modulo 251      *)
(*   len cap wreg dreg shut dropped wrapped content   after the call:      *)
(*          occupied length and capacity of the ring, writer_waker /       *)
(*          dispatcher_waker is set, is_writer_shutdown, is_writer_dropped,*)
(*          the ring's second slice is not empty, the bytes in the ring    *)
(*          (both slices, as runs)                                         *)
(*                                                                         *)
(* A write that answered Pending and woke its own waker in the call is a   *)
(* cooperative yield (TxRing.Yield): the specification does not say when a *)
(* writer yields, only that a yield changes nothing and is not repeated.   *)
(*                                                                         *)
(* Rules: see TxRing.tla (Rules / RuleNames).  viol accumulates            *)
(* <<line, rule, context>>, cov counts how often each rule was applicable. *)
(***************************************************************************)
EXTENDS TxRing, TLC, TLCExt, Json, IOUtils

Rec == ndJsonDeserialize(IOEnv.TRACE)
N == Len(Rec)

VARIABLES
    l,      \* next line
    runs,   \* number of `new` lines so far
    st,     \* the specification's state
    g,      \* [acc, ack]: bytes accepted according to the recorded answers / acknowledged by the recorded calls
    viol, cov

vars == <<l, runs, st, g, viol, cov>>

Init ==
    /\ l = 1 /\ runs = 0
    /\ st = StNew(1, 1)
    /\ g = [acc |-> 0, ack |-> 0]
    /\ viol = {} /\ cov = [r \in RuleNames |-> 0]

Judge(rs, ctx, ctxObs) ==
    /\ viol' = IF Cardinality(viol) >= 60 THEN viol
               ELSE viol \cup { <<l, b, IF b = "TxRing.ObsAgrees" THEN ctxObs ELSE ctx>> : b \in Broken(rs) }
    /\ cov' = LET c == Covered(rs) IN [r \in RuleNames |-> cov[r] + IF r \in c THEN 1 ELSE 0]

(* the recorded answer as the record the rules read *)
Answer(r) ==
    [res |-> r.res, n |-> r.n, err |-> r.err, wwake |-> r.wwake, dwake |-> r.dwake, runs |-> r.runs,
     len |-> r.len, cap |-> r.cap, wreg |-> r.wreg, dreg |-> r.dreg, shut |-> r.shut, dropped |-> r.dropped,
     wrapped |-> r.wrapped, content |-> r.content]

RECURSIVE Join(_)
Join(S) == IF S = {} THEN "" ELSE LET f == CHOOSE x \in S : TRUE IN " " \o f \o Join(S \ {f})

NewLine(r) ==
    LET s0 == StNew(r.a, r.b)
        e  == Expected(Outcome(s0, "ok", 0))
        a  == Answer(r)
    IN  /\ st' = s0
        /\ g' = [acc |-> 0, ack |-> 0]
        /\ runs' = runs + 1
        /\ Judge(<< <<"TxRing.ObsAgrees", TRUE, Agrees(a, e)>>,
                    <<"TxRing.NoPanic", TRUE, TRUE>>,
                    <<"C19.GrowthBounded", TRUE, r.cap = r.a>> >>,
                 "new", "new:" \o Join(Differing(a, e)))

CallLine(r) ==
    LET op == IF r.op = "write" /\ r.res = "pending" /\ r.wwake >= 1 THEN "yield" ELSE r.op
        c  == [op |-> op, a |-> r.a, b |-> r.b]
        x  == Apply(st, c)
        e  == Expected(x)
        a  == Answer(r)
        g1 == [acc |-> g.acc + (IF r.op = "write" /\ r.res = "ok" THEN r.n ELSE 0),
               ack |-> g.ack + (IF r.op = "ack" /\ r.res = "ok" THEN r.a ELSE 0)]
    IN  /\ st' = x.st
        /\ g' = g1
        /\ UNCHANGED runs
        /\ Judge(Rules(st, c, x, e, a, g1) \o << <<"TxRing.NoPanic", TRUE, TRUE>> >>,
                 op \o "/" \o r.res,
                 op \o "/" \o r.res \o ":" \o Join(Differing(a, e)))

(* a panic (r.res names the call it happened in) also breaks what that call owes *)
PanicLine(r) ==
    /\ UNCHANGED <<st, g, runs>>
    /\ Judge(<< <<"TxRing.NoPanic", TRUE, FALSE>>,
                <<"C19.WriteAcceptsWhatFits", r.res \in {"write", "new"}, FALSE>>,
                <<"C19.GrowthBounded", r.res = "grow", FALSE>>,
                <<"C01.GrowthPreservesContent", r.res = "grow", FALSE>>,
                <<"C01.TruncateExact", r.res = "ack", FALSE>>,
                <<"C01.RingIsFifo", r.res \in {"read", "regdisp"}, FALSE>>,
                <<"C03.FlushOnlyWhenEmpty", r.res = "flush", FALSE>>,
                <<"C03.ShutdownOnlyWhenEmpty", r.res = "shutdown", FALSE>>,
                <<"C03.ClosedSurfaces", r.res \in {"close", "drop"}, FALSE>> >>,
             "panic/" \o r.res, "panic/" \o r.res)

Next ==
    /\ l <= N
    /\ l' = l + 1
    /\ LET r == Rec[l] IN
       CASE r.op = "new"   -> NewLine(r)
         [] r.op = "panic" -> PanicLine(r)
         [] OTHER          -> CallLine(r)

Spec == Init /\ [][Next]_vars

---------------------------------------------------------------------------
(* Verdict: printed once, in the state after the last line.                *)
Report ==
    (l = N + 1) =>
        PrintT(<<"VERDICT", ToJson([lines |-> N, runs |-> runs,
                                    viol |-> { [line |-> v[1], rule |-> v[2], ctx |-> v[3], ep |-> ""] : v \in viol },
                                    cov |-> cov])>>)

TraceAccepted ==
    LET d == TLCGet("stats").diameter IN
    IF d - 1 = N THEN TRUE
    ELSE Print(<<"TRACE NOT ACCEPTED: consumed", d - 1, "of", N>>, FALSE)
=============================================================================
