SPECIFICATION Spec
INVARIANT TypeOK
INVARIANT Inv
INVARIANT EmitS
CHECK_DEADLOCK FALSE
