SPECIFICATION Spec
CONSTANTS
    M = 64
    W = 4
    Band = 64
    Chunks = 4
    ASel = "all"
    CoreDLt = TRUE
    Emit = FALSE
INVARIANTS
    OffsetAgrees
    ClosedForm
    DependsOnDLt
    Antisym
    ZeroIffEqual
    OrdAgrees
    OrdIsPlainBeyond
    OrdInvertedAcrossWrap
    OffsetAgreesCore
    FormsCoincide
    AllLemmas
    AddSubWrap
    Transitive
    NegativeWitness
CHECK_DEADLOCK FALSE
