SPECIFICATION Spec
CONSTANTS
    M = 64
    W = 4
    DocW = 4
    AllPairs = TRUE
    Band = 0
    Chunks = 4
    ASel = "all"
    CoreDLt = TRUE
    Emit = FALSE
INVARIANTS
    OffsetAgrees
    ClosedForm
    DependsOnDLt
    Antisym
    ZeroIffEqual
    OrdAgrees
    OrdIsPlainBeyond
    OrdInvertedAcrossWrap
    OrdTotalAtMaxTolerance
    OffsetAgreesCore
    FormsCoincide
    AllLemmas
    AddSubWrap
    WindowOrder
    NegativeWitness
CHECK_DEADLOCK FALSE
