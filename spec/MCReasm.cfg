SPECIFICATION Spec
VIEW View
INVARIANT Inv
INVARIANT StreamInv
INVARIANT Drains
CHECK_DEADLOCK FALSE
