SPECIFICATION Spec
VIEW View
CONSTANTS
    Quiet <- QuietOn
    Flush <- FlushWhenNotFull
INVARIANT Inv
INVARIANT Honest
INVARIANT ClosedResolves
INVARIANT AckedCompletes
INVARIANT GrowthHelps
INVARIANT Progress
CHECK_DEADLOCK FALSE
