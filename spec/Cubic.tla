------------------------------- MODULE Cubic -------------------------------
(***************************************************************************)
(* C15 "CUBIC congestion window stays sane and reacts to loss".            *)
(*                                                                         *)
(* A CONTRACT in bytes for a congestion controller driven through          *)
(*   new(mss)  set_mss(m)  set_remote_window(W)  on_ack(now, len, rtt)     *)
(*   on_retransmission_timeout(now)  on_enter_recovery(now)                *)
(*   on_recovered(cwnd_bytes, ssthresh_bytes)                              *)
(* It is deliberately not a transcription of the cubic curve: growth in    *)
(* congestion avoidance is any value inside the clamp.  What the property  *)
(* constrains are the observables                                          *)
(*   w  window()      the effective window, bytes                          *)
(*   s  sshthresh()   the slow-start threshold, bytes                      *)
(*   u  the congestion window proper: what window() answers once a         *)
(*      practically unbounded peer window has been applied (the driver     *)
(*      reads it off a copy of the controller; w = min(u, peer window) in  *)
(*      the code, but the contract does not require that equation)         *)
(* before and after every call.  Every clause of the property is one named *)
(* rule R_C15_* over (state before, call, observables after); Rules(...)   *)
(* collects them as <<name, applicable, holds>>.  The same operators are   *)
(* used by the bounded model (MCCubic: the rules must be jointly           *)
(* satisfiable from every reachable state, witness Ref) and by the trace   *)
(* specification (CubicTrace: evaluated on values recorded from the code). *)
(*                                                                         *)
(* Constants are hard-wired from the property text: 0.7, two segments.     *)
(*                                                                         *)
(* Numbers.  TLC's integers are 32 bit; the driver saturates every value   *)
(* at Huge = 2^31-1 and Huge is read as "not a finite number" (the code's  *)
(* f64 -> usize cast maps inf to usize::MAX; the initial, infinite         *)
(* ssthresh legitimately shows up as Huge).  Tol absorbs the float ->      *)
(* integer truncation of the implementation (the code keeps windows in     *)
(* f64 MSS units: trunc(x * mss) of the same real quantity computed along  *)
(* two routes differs by at most one, and floor(0.7 x) adds another).      *)
(*                                                                         *)
(* The peer window "most recently applied".  set_remote_window(W) applies  *)
(* W under the segment size current at that moment.  After set_mss(m) with *)
(* m different from the current segment size, and before the next          *)
(* set_remote_window, the applied peer window is STALE (the code keeps it  *)
(* in units of the old MSS, so window() may be above or below W); the      *)
(* property says "once the peer window is re-applied", so the clamp and    *)
(* the rescale clause are evaluated after the pair set_mss;                *)
(* set_remote_window - the connection issues them together on every        *)
(* packet (stream_dispatch.rs process_incoming_message), and covers the    *)
(* gap after a lone set_mss (delivered payload) by an own                  *)
(* min(last_remote_window).  A fresh controller has no peer window applied *)
(* yet and is stale in the same sense.  The rules that do not mention the  *)
(* peer window are evaluated always.                                       *)
(***************************************************************************)
EXTENDS Integers, Sequences, FiniteSets

Huge == 2147483647
Tol  == 2
IsFin(x) == x < Huge

Min(a, b) == IF a <= b THEN a ELSE b
Max(a, b) == IF a >= b THEN a ELSE b

(* floor(0.7 x) without leaving 32 bits                                    *)
Beta(x) == 7 * (x \div 10) + (7 * (x % 10)) \div 10
(* "two segments"                                                          *)
Floor2(m) == 2 * m
(* "between two segments (or the peer window if smaller) and the peer window" *)
ClampLo(m, rw) == Min(Floor2(m), rw)

ASSUME Beta(0) = 0 /\ Beta(10) = 7 /\ Beta(19) = 13 /\ Beta(1452 * 2) = 2032
ASSUME Beta(Huge) = 1503238552 /\ Beta(1073741824) = 751619276

Ops == {"new", "set_mss", "set_rwnd", "ack", "rto", "enter_recovery", "recovered"}

---------------------------------------------------------------------------
(* Contract state: what has to be remembered between calls.                *)
(*   mss    current segment size                                           *)
(*   rw     peer window most recently applied (bytes)                      *)
(*   stale  rw was applied under another segment size / never              *)
(*   pu,po  congestion window proper and segment size before the first     *)
(*          set_mss of a pending (not yet re-applied) MSS change; pu = -1: *)
(*          none                                                           *)
(*   w,u,s  the observables after the last call                            *)
St0 == [mss |-> 1, rw |-> 0, stale |-> TRUE, pu |-> -1, po |-> 1, w |-> 0, u |-> 2, s |-> Huge]

MssAfter(st, c) == IF c.op \in {"new", "set_mss"} THEN c.mss ELSE st.mss
RwAfter(st, c)  == IF c.op = "new" THEN 0 ELSE IF c.op = "set_rwnd" THEN c.win ELSE st.rw
StaleAfter(st, c) ==
    CASE c.op = "new"      -> TRUE
      [] c.op = "set_rwnd" -> FALSE
      [] c.op = "set_mss"  -> st.stale \/ c.mss # st.mss
      [] OTHER             -> st.stale
ChangesMss(st, c) == c.op = "set_mss" /\ c.mss # st.mss

(* State after call c answered with observables o = [w, u, s, nan, panic]. *)
Post(st, c, o) ==
    [mss   |-> MssAfter(st, c),
     rw    |-> RwAfter(st, c),
     stale |-> StaleAfter(st, c),
     pu    |-> IF c.op # "set_mss" THEN -1
               ELSE IF st.pu >= 0 THEN st.pu ELSE IF ChangesMss(st, c) THEN st.u ELSE -1,
     po    |-> IF c.op # "set_mss" THEN 1
               ELSE IF st.pu >= 0 THEN st.po ELSE IF ChangesMss(st, c) THEN st.mss ELSE 1,
     w |-> o.w, u |-> o.u, s |-> o.s]

---------------------------------------------------------------------------
(* C15 "the congestion window is a finite number between two segments (or  *)
(* the peer window if smaller) and the peer window" - after every call     *)
(* that leaves a peer window applied under the current segment size.       *)
(* The upper bound is exact; the lower bound allows Tol (the code stores   *)
(* W / mss and multiplies back).                                           *)
R_C15_Clamp(m, rw, o) == ClampLo(m, rw) - Tol <= o.w /\ o.w <= rw

(* C15 "is a finite number": no call panics; nothing the controller shows  *)
(* is NaN; the window is finite whenever a finite peer window is applied;  *)
(* u and s stay finite when they were (s: from the first loss event or     *)
(* recovery exit on - the initial threshold is unbounded by convention;    *)
(* u: a stale peer window may let on_ack run the window up to a stale      *)
(* clamp, which is outside the property's "once re-applied").              *)
R_C15_Finite(st, c, o) ==
    LET uFin == CASE c.op \in {"new", "recovered"} -> TRUE
                  [] c.op = "ack" -> IsFin(st.u) /\ ~st.stale
                  [] OTHER -> IsFin(st.u)
        sFin == CASE c.op = "recovered" -> TRUE
                  [] c.op \in {"rto", "enter_recovery"} -> IsFin(st.u)
                  [] c.op = "new" -> FALSE
                  [] OTHER -> IsFin(st.s)
    IN  /\ ~o.panic /\ ~o.nan
        /\ (~StaleAfter(st, c) /\ IsFin(RwAfter(st, c))) => IsFin(o.w)
        /\ uFin => IsFin(o.u)
        /\ sFin => IsFin(o.s)

(* C15 "between two segments ... in slow start one acknowledgement grows   *)
(* the window by at most the bytes it acknowledged": a fresh controller is *)
(* in slow start and nothing has been acknowledged, so its congestion      *)
(* window is the two-segment floor (C05 calls it "two segments plus the    *)
(* bytes acknowledged so far").                                            *)
R_C15_InitialWindow(c, o) == o.u = Floor2(c.mss)

(* C15 "a retransmission timeout or entry into fast recovery never         *)
(* increases it and sets the slow-start threshold to 0.7 of the previous   *)
(* window (at least two segments)".  "Previous window" is read loosely:    *)
(* anything between 0.7 x the effective window w and 0.7 x the congestion  *)
(* window proper u (w <= u; the code uses its internal cwnd, which is u    *)
(* whenever it is above the floor, and both readings give the two-segment  *)
(* minimum when it is below).  The upper bound needs a finite u.           *)
R_C15_LossReaction(st, o) ==
    /\ o.w <= st.w /\ o.u <= st.u
    /\ o.s >= Max(Beta(st.w), Floor2(st.mss)) - Tol
    /\ IsFin(st.u) => o.s <= Max(Beta(st.u), Floor2(st.mss)) + Tol

(* C15 "in slow start one acknowledgement grows the window by at most the  *)
(* bytes it acknowledged".  Slow start = the effective window is strictly  *)
(* below the threshold (strictest precondition).  Both the effective       *)
(* window and the congestion window proper are held to it.                 *)
InSlowStart(st) == st.w < st.s
R_C15_SlowStartGrowth(st, c, o) ==
    /\ o.w - st.w <= c.len + Tol
    /\ (IsFin(st.u) /\ IsFin(o.u)) => o.u - st.u <= c.len + Tol

(* C15 "Changing the MSS rescales the window (same bytes once the peer     *)
(* window is re-applied, above the two-segment floor) instead of resetting *)
(* it."  With B the bytes of the congestion window before the change (pu   *)
(* under segment size po), the window afterwards is max(B, 2 m), capped by *)
(* the re-applied peer window W.  When pu is AT the old floor the bytes    *)
(* actually held may be anything up to that floor (the code keeps one      *)
(* segment internally after a timeout while answering two), so only        *)
(* [2 m, max(pu, 2 m)] can be required; strictly above the old floor the   *)
(* value is determined.  Evaluated on u after set_mss (u is by definition  *)
(* read with a peer window re-applied) and on w after the set_remote_window*)
(* that completes the pair.                                                *)
RescaleHi(pu, m) == Max(pu, Floor2(m))
RescaleLo(pu, po, m) == IF pu > Floor2(po) THEN Max(pu, Floor2(m)) ELSE Floor2(m)
R_C15_Rescale_U(st, c, o) ==
    LET pu == IF st.pu >= 0 THEN st.pu ELSE st.u
        po == IF st.pu >= 0 THEN st.po ELSE st.mss
    IN  RescaleLo(pu, po, c.mss) - Tol <= o.u /\ o.u <= RescaleHi(pu, c.mss) + Tol
R_C15_Rescale_W(st, c, o) ==
    /\ Min(RescaleLo(st.pu, st.po, st.mss), c.win) - Tol <= o.w
    /\ o.w <= Min(RescaleHi(st.pu, st.mss), c.win) + Tol

RuleNames == {"C15.Clamp", "C15.Finite", "C15.InitialWindow", "C15.LossReaction",
              "C15.SlowStartGrowth", "C15.Rescale"}

(* <<rule, applicable, applicable => holds>> for call c made in state st   *)
(* and answered o (=> short-circuits: a rule's body is evaluated only on   *)
(* the calls that carry its arguments).                                    *)
Rules(st, c, o) ==
    LET ok  == ~o.panic
        aCl == ok /\ ~StaleAfter(st, c)
        aIn == ok /\ c.op = "new"
        aLo == ok /\ c.op \in {"rto", "enter_recovery"}
        aSs == ok /\ c.op = "ack" /\ InSlowStart(st)
        aRu == ok /\ ChangesMss(st, c) /\ IsFin(IF st.pu >= 0 THEN st.pu ELSE st.u)
        aRw == ok /\ c.op = "set_rwnd" /\ st.pu >= 0 /\ IsFin(st.pu)
    IN {
    <<"C15.Finite", TRUE, R_C15_Finite(st, c, o)>>,
    <<"C15.Clamp", aCl, aCl => R_C15_Clamp(MssAfter(st, c), RwAfter(st, c), o)>>,
    <<"C15.InitialWindow", aIn, aIn => R_C15_InitialWindow(c, o)>>,
    <<"C15.LossReaction", aLo, aLo => R_C15_LossReaction(st, o)>>,
    <<"C15.SlowStartGrowth", aSs, aSs => R_C15_SlowStartGrowth(st, c, o)>>,
    <<"C15.Rescale", aRu, aRu => R_C15_Rescale_U(st, c, o)>>,
    <<"C15.Rescale", aRw, aRw => R_C15_Rescale_W(st, c, o)>> }

Broken(rs)  == { x[1] : x \in { y \in rs : y[2] /\ ~y[3] } }
Covered(rs) == { x[1] : x \in { y \in rs : y[2] } }

---------------------------------------------------------------------------
(* A witness that the contract is satisfiable: one allowed answer to every *)
(* call in every state (slow start takes all the acknowledged bytes,       *)
(* congestion avoidance answers any of cands - the bounded model offers    *)
(* "hold" and "jump to the peer window" -, a timeout falls to the floor,   *)
(* recovery entry to the new threshold, recovery exit installs what it is  *)
(* given inside the clamp, an MSS change keeps the bytes).                 *)
ObsOf(w, u, s) == [w |-> w, u |-> u, s |-> s, nan |-> FALSE, panic |-> FALSE]

RefU(st, c) ==   \* the set of candidate values of u after the call
    LET m == MssAfter(st, c) IN
    CASE c.op = "new"      -> {Floor2(m)}
      [] c.op = "set_rwnd" -> {st.u}
      [] c.op = "set_mss"  -> {Max(st.u, Floor2(m))}
      [] c.op = "ack" ->
            IF c.len = 0 \/ st.stale \/ st.u >= st.rw THEN {st.u}
            ELSE IF InSlowStart(st)
                 THEN {Max(Floor2(m), IF c.len >= st.rw - st.u THEN st.rw ELSE st.u + c.len)}
                 ELSE {st.u, Max(Floor2(m), st.rw)}
      [] c.op = "rto" -> {Floor2(m)}
      [] c.op = "enter_recovery" -> {Max(Beta(st.u), Floor2(m))}
      [] c.op = "recovered" -> {Max(Min(c.cwnd, st.rw), Floor2(m))}

RefS(st, c) ==
    CASE c.op = "new" -> Huge
      [] c.op \in {"rto", "enter_recovery"} -> Max(Beta(st.u), Floor2(st.mss))
      [] c.op = "recovered" -> c.ssthresh
      [] OTHER -> st.s

Ref(st, c) == { ObsOf(Min(u, RwAfter(st, c)), u, RefS(st, c)) : u \in RefU(st, c) }

(* One step of the contract's witness machine; Assert makes an             *)
(* inconsistency of the rules (an allowed state from which a call has no   *)
(* allowed answer in Ref) a model-checking error.                          *)
StepOK(st, c, o) == Broken(Rules(st, c, o)) = {}

(* State-level consequences of the rules, checked on the bounded model.    *)
StateClamp(st)  == ~st.stale => (ClampLo(st.mss, st.rw) - Tol <= st.w /\ st.w <= st.rw)
StateFinite(st) == IsFin(st.u) /\ (~st.stale => IsFin(st.w))
StateFloor(st)  == st.u >= Floor2(st.mss) - Tol
=============================================================================
