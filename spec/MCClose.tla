------------------------------- MODULE MCClose -------------------------------
(***************************************************************************)
(* Bounded model of handshake completion and teardown: two endpoints that  *)
(* follow the state machine of Conn.tla, a few data segments each way, an  *)
(* application that may close either side at any time, and a network that  *)
(* may lose, duplicate and reorder datagrams and deliver stale ones.       *)
(*                                                                         *)
(* A is the initiator (its connection object exists once the SYN-ACK has   *)
(* arrived: it starts "established"); B is the acceptor (starts            *)
(* "syn-received", sends the SYN-ACK, is established by A's first packet). *)
(* This implementation has no half-close: taking the peer's FIN in closes  *)
(* the local sending side too (unsent data is dropped, the writer fails).  *)
(*                                                                         *)
(* Decided here (C17, C03, C08):                                           *)
(*   FinSeq            a FIN carries the number following the last data    *)
(*   FinAfterData      own-initiative FIN only after all accepted data was *)
(*                     transmitted; NothingAfterFin                        *)
(*   EofAfterAllData   end of stream is readable only after every segment  *)
(*                     that preceded the peer's FIN                        *)
(*   SuccessMeansDelivered  our FIN acknowledged => the peer took in every *)
(*                     segment we sent                                     *)
(*   ResetNoReply, SilentAfterEnd                                          *)
(*   SynAckBound       the SYN-ACK is sent at most MaxSynAck times         *)
(*   Termination       (liveness, under fairness of timers) both ends end  *)
(***************************************************************************)
EXTENDS Conn, Sequences, TLC

CONSTANTS Writers,      \* which applications write data
          MaxData,      \* data segments each writing application may write
          MaxSynAck,    \* SYN-ACK transmissions
          MaxFinTx,     \* FIN transmissions
          MaxRetx,      \* data retransmissions (total, per endpoint)
          LossBudget, DupBudget,
          Variant       \* "code", or a design mutant

VARIABLES ep, net, losses, dups, rstSeen
vars == <<ep, net, losses, dups, rstSeen>>

Ends == {"A", "B"}
Other(x) == IF x = "A" THEN "B" ELSE "A"

\* sequence numbers: the SYN / SYN-ACK took number 0; data segments are 1, 2, ...; the FIN follows the last data
NewEp(st) == [ st |-> st,
               want |-> 0,        \* segments accepted from the application
               sent |-> 0,        \* data segments transmitted at least once (numbers 1 .. sent)
               una |-> 0,         \* highest of our numbers the peer acknowledged
               cons |-> 0,        \* last number of the peer's taken in order
               consData |-> 0,    \* data segments handed towards the reader
               fin |-> 0,         \* our FIN's number (0: none yet)
               finSent |-> 0,     \* transmissions of our FIN
               rfin |-> 0,        \* the peer's FIN's number (0: not taken in)
               closeReq |-> FALSE,
               eof |-> FALSE,     \* end of stream is readable
               synAcks |-> 0,
               retx |-> 0,
               ended |-> "" ]     \* "", "ok", "err"

Init ==
    /\ ep = [x \in Ends |-> NewEp(IF x = "A" THEN "established" ELSE "syn-received")]
    /\ net = [x \in Ends |-> {}]          \* net[x]: datagrams on their way TO x
    /\ losses = 0 /\ dups = 0 /\ rstSeen = {}

Msg(t, seq, ack) == [t |-> t, seq |-> seq, ack |-> ack]
Send(x, m) == net' = [net EXCEPT ![Other(x)] = @ \cup {m}]
Alive(x) == ep[x].ended = ""
OurFin(e) == IF e.fin > 0 THEN e.fin ELSE e.sent + 1

(***************************************************************************)
(* Local actions                                                           *)
(***************************************************************************)
SendSynAck(x) ==     \* first transmission and timer-driven repeats
    /\ Alive(x) /\ ep[x].st \in {"syn-received", "syn-ack-sent"} /\ ep[x].synAcks < MaxSynAck
    /\ ep' = [ep EXCEPT ![x].st = "syn-ack-sent", ![x].synAcks = @ + 1]
    /\ Send(x, Msg("state", 1, 0))
    /\ UNCHANGED <<losses, dups, rstSeen>>
SynAckGiveUp(x) ==   \* "repeats it at most the configured number of times ..., then fails"
    /\ Alive(x) /\ ep[x].st = "syn-ack-sent" /\ ep[x].synAcks = MaxSynAck
    /\ ep' = [ep EXCEPT ![x].ended = "err"]
    /\ UNCHANGED <<net, losses, dups, rstSeen>>

Write(x) ==
    /\ x \in Writers
    /\ Alive(x) /\ ep[x].st \in {"established", "syn-ack-sent"} /\ ~ep[x].closeReq /\ ep[x].want < MaxData
    /\ ep' = [ep EXCEPT ![x].want = @ + 1]
    /\ UNCHANGED <<net, losses, dups, rstSeen>>
SendData(x) ==
    /\ Alive(x) /\ ep[x].st = "established" /\ ep[x].sent < ep[x].want
    /\ ep' = [ep EXCEPT ![x].sent = @ + 1]
    /\ Send(x, Msg("data", ep[x].sent + 1, ep[x].cons))
    /\ UNCHANGED <<losses, dups, rstSeen>>
RetxData(x) ==
    /\ Alive(x) /\ ep[x].st \in {"established", "fin-wait-1"} /\ ep[x].una < ep[x].sent /\ ep[x].retx < MaxRetx
    /\ ep' = [ep EXCEPT ![x].retx = @ + 1]
    /\ Send(x, Msg("data", ep[x].una + 1, ep[x].cons))
    /\ UNCHANGED <<losses, dups, rstSeen>>

Close(x) ==      \* the application closes / drops the stream
    /\ Alive(x) /\ ~ep[x].closeReq /\ ep[x].st \in {"established", "syn-ack-sent"}
    /\ ep' = [ep EXCEPT ![x].closeReq = TRUE]
    /\ UNCHANGED <<net, losses, dups, rstSeen>>
SendFin(x) ==    \* own-initiative FIN: only when everything accepted has been transmitted
    /\ Alive(x) /\ ep[x].st = "established" /\ ep[x].closeReq
    /\ (Variant = "fin_before_data" \/ ep[x].sent = ep[x].want)
    /\ ep' = [ep EXCEPT ![x].st = "fin-wait-1", ![x].fin = ep[x].sent + 1, ![x].finSent = 1]
    /\ Send(x, Msg("fin", ep[x].sent + 1, ep[x].cons))
    /\ UNCHANGED <<losses, dups, rstSeen>>
AnswerFin(x) ==  \* "answered with the endpoint's own FIN" (state last-ack entered by the packet)
    /\ Alive(x) /\ ep[x].st = "last-ack" /\ ep[x].finSent = 0
    /\ ep' = [ep EXCEPT ![x].finSent = 1]
    /\ Send(x, Msg("fin", ep[x].fin, ep[x].cons))
    /\ UNCHANGED <<losses, dups, rstSeen>>
RetxFin(x) ==    \* "retransmitted on timeout until acknowledged or the connection gives up"
    /\ Alive(x) /\ ep[x].st \in {"fin-wait-1", "last-ack"} /\ ep[x].finSent \in 1 .. MaxFinTx - 1
    /\ ep' = [ep EXCEPT ![x].finSent = @ + 1]
    /\ Send(x, Msg("fin", ep[x].fin, ep[x].cons))
    /\ UNCHANGED <<losses, dups, rstSeen>>
GiveUp(x) ==     \* retransmission / inactivity limits: the connection aborts
    /\ Alive(x)
    /\ \/ (ep[x].st \in {"fin-wait-1", "last-ack"} /\ ep[x].finSent = MaxFinTx)
       \/ (Variant # "no_finwait2_timeout" /\ ep[x].st = "fin-wait-2")  \* the peer's FIN never comes: inactivity
       \/ (ep[x].st = "established" /\ ep[x].retx = MaxRetx /\ ep[x].una < ep[x].sent)
       \/ (ep[x].st = "established" /\ ~Alive(Other(x)))               \* the peer is gone: inactivity
    /\ ep' = [ep EXCEPT ![x].ended = "err"]
    /\ UNCHANGED <<net, losses, dups, rstSeen>>
Finish(x) ==     \* state closed: the task ends
    /\ Alive(x) /\ ep[x].st = "closed"
    /\ ep' = [ep EXCEPT ![x].ended = "ok"]
    /\ UNCHANGED <<net, losses, dups, rstSeen>>

(***************************************************************************)
(* Taking a datagram in                                                    *)
(***************************************************************************)
Recv(x, m, keep) ==
    LET e == ep[x]
        \* (the SYN / SYN-ACK took number 0: "ack_nr = our seq_nr - 1" is ack = sent while nothing was sent)
        p == Pkt(m.t, m.ack = e.sent, e.fin > 0 /\ m.ack = e.fin, m.seq = e.cons + 1)
        \* design mutants: a FIN honoured out of sequence after the local close / while waiting for the first packet
        anyFin == m.t = "fin" /\ ((Variant = "ooo_fin" /\ e.st \in {"fin-wait-1", "fin-wait-2"})
                                  \/ (Variant = "synack_fin_any" /\ e.st = "syn-ack-sent"))
        st1 == IF anyFin
               THEN (IF e.st \in {"fin-wait-2", "syn-ack-sent"} \/ p.ackFin THEN "closed" ELSE "last-ack")
               ELSE Impl(e.st, p)
        takes == IF anyFin THEN e.rfin = 0 ELSE TakesFin(e.st, p) /\ e.rfin = 0
        ignored == /\ e.st = "syn-ack-sent" /\ m.t # "fin" /\ ~p.ackSyn
        acts == m.t \in {"data", "state", "fin"} /\ ~ignored /\ e.st # "closed"
        inOrderData == m.t = "data" /\ acts /\ m.seq = e.cons + 1 /\ e.rfin = 0 /\ st1 # "closed"
        e1 == [e EXCEPT !.st = st1,
                        !.una = IF acts /\ m.ack > @ /\ m.ack <= OurFin(e) THEN m.ack ELSE @,
                        !.cons = IF inOrderData THEN @ + 1 ELSE IF takes THEN m.seq ELSE @,
                        !.consData = IF inOrderData THEN @ + 1 ELSE @,
                        !.rfin = IF takes THEN m.seq ELSE @,
                        !.eof = @ \/ takes,
                        \* no half-close: the peer's FIN ends our sending side; unsent data is dropped
                        !.want = IF takes THEN e.sent ELSE @,
                        !.fin = IF takes /\ e.fin = 0 THEN e.sent + 1 ELSE @,
                        !.closeReq = @ \/ takes,
                        !.ended = IF m.t = "reset" THEN "err" ELSE @]
        \* acknowledgement: data and FINs are acknowledged; a RESET is never answered
        reply == m.t \in {"data", "fin"} /\ acts /\ Alive(x)
    IN  /\ Alive(x) /\ m \in net[x]
        /\ ep' = [ep EXCEPT ![x] = e1]
        /\ net' = [net EXCEPT ![x] = IF keep THEN @ ELSE @ \ {m},
                              ![Other(x)] = IF reply /\ m.t # "reset" THEN @ \cup {Msg("state", e1.sent + 1 + (IF e1.finSent > 0 THEN 1 ELSE 0), e1.cons)} ELSE @]
        /\ dups' = IF keep THEN dups + 1 ELSE dups
        /\ rstSeen' = IF m.t = "reset" THEN rstSeen \cup {x} ELSE rstSeen
        /\ UNCHANGED losses

Deliver(x) == \E m \in net[x] : Recv(x, m, FALSE)
DeliverDup(x) == dups < DupBudget /\ \E m \in net[x] : Recv(x, m, TRUE)
Lose(x) ==
    /\ losses < LossBudget
    /\ \E m \in net[x] : net' = [net EXCEPT ![x] = @ \ {m}]
    /\ losses' = losses + 1
    /\ UNCHANGED <<ep, dups, rstSeen>>
DropToDead(x) ==     \* datagrams for an endpoint that has ended go nowhere
    /\ ~Alive(x) /\ net[x] # {}
    /\ net' = [net EXCEPT ![x] = {}]
    /\ UNCHANGED <<ep, losses, dups, rstSeen>>
PeerReset(x) ==      \* a RESET (the peer's connection is already gone): aborts at once, is never answered
    /\ ~Alive(Other(x)) /\ Alive(x)
    /\ ep' = [ep EXCEPT ![x].ended = "err", ![x].st = "closed"]
    /\ rstSeen' = rstSeen \cup {x}
    /\ UNCHANGED <<net, losses, dups>>

Next ==
    \E x \in Ends :
        \/ SendSynAck(x) \/ SynAckGiveUp(x) \/ Write(x) \/ SendData(x) \/ RetxData(x) \/ Close(x)
        \/ SendFin(x) \/ AnswerFin(x) \/ RetxFin(x) \/ GiveUp(x) \/ Finish(x)
        \/ Deliver(x) \/ DeliverDup(x) \/ Lose(x) \/ DropToDead(x) \/ PeerReset(x)

Fair ==
    \A x \in Ends : /\ WF_vars(SendSynAck(x)) /\ WF_vars(SynAckGiveUp(x)) /\ WF_vars(SendData(x))
                    /\ WF_vars(SendFin(x)) /\ WF_vars(AnswerFin(x)) /\ WF_vars(RetxFin(x)) /\ WF_vars(GiveUp(x))
                    /\ WF_vars(Finish(x)) /\ WF_vars(Deliver(x)) /\ WF_vars(DropToDead(x)) /\ WF_vars(Close(x))
Spec == Init /\ [][Next]_vars
LiveSpec == Spec /\ Fair

(***************************************************************************)
(* Properties                                                              *)
(***************************************************************************)
TypeOK == \A x \in Ends : ep[x].st \in States /\ ep[x].sent <= ep[x].want /\ ep[x].want <= MaxData
\* C17 "its FIN carries the sequence number following the last data segment"
FinSeq == \A x \in Ends : \A m \in net[x] : m.t = "fin" => m.seq = ep[Other(x)].sent + 1
\* C17 "is sent only after all accepted data has been transmitted ... and no new payload follows it"
FinAfterData == \A x \in Ends : (ep[x].fin > 0 /\ ep[x].rfin = 0) => ep[x].sent = ep[x].want
NothingAfterFin == \A x \in Ends : \A m \in net[x] : m.t = "data" => (ep[Other(x)].fin = 0 \/ m.seq < ep[Other(x)].fin)
\* C03 "a reader sees end-of-stream only after every byte that preceded the peer's FIN"
EofAfterAllData == \A x \in Ends : ep[x].eof => ep[x].consData = ep[Other(x)].sent
\* C03 "A successful ... shutdown implies every byte written before it has been acknowledged by the peer's stack"
\* (shutdown succeeds once our FIN is acknowledged: fin-wait-2, or closed by the handshake)
SuccessMeansDelivered ==
    \A x \in Ends : (ep[x].fin > 0 /\ ep[x].una = ep[x].fin /\ ep[x].st \in {"fin-wait-2", "closed"} /\ ep[x].ended # "err")
                    => ep[Other(x)].consData = ep[x].sent
\* C17 "repeats it at most the configured number of times"
SynAckBound == \A x \in Ends : ep[x].synAcks <= MaxSynAck
\* C03: never a clean end on one side with data missing while the other side was told it succeeded
NoSilentTruncation ==
    \A x \in Ends : (ep[x].ended = "ok" /\ ep[Other(x)].ended = "ok") => ep[x].consData = ep[Other(x)].sent
\* C08 termination
Termination == <>(\A x \in Ends : ep[x].ended # "")

\* Conn.tla sanity
ConnSane == FollowsGraph /\ ImplAllowed
ASSUME ConnSane
=============================================================================
