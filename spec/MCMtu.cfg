SPECIFICATION MCSpec
CONSTANT Configs <- MCConfigs
CONSTANT PeerSizes <- MCPeerSizes
INVARIANT TypeOK
INVARIANT NeverAboveLink
INVARIANT OrdinaryWithinProven
INVARIANT ProbeStaysInRange
INVARIANT PeerCannotRaiseAboveCeiling
INVARIANT Converges
INVARIANT LogProbes
INVARIANT Budget
INVARIANT Settles
INVARIANT Emit
PROPERTY Monotone
PROPERTY ProbeInRange
PROPERTY SearchHalves
CHECK_DEADLOCK FALSE
