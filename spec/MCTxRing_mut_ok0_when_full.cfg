SPECIFICATION Spec
VIEW View
CONSTANTS
    Quiet <- QuietOn
    Write <- WriteOk0WhenFull
INVARIANT Inv
INVARIANT Honest
INVARIANT ClosedResolves
INVARIANT AckedCompletes
INVARIANT GrowthHelps
INVARIANT Progress
CHECK_DEADLOCK FALSE
