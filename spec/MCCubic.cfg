SPECIFICATION Spec
INVARIANT Inv
INVARIANT TypeOK
CHECK_DEADLOCK FALSE
