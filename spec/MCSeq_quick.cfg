SPECIFICATION Spec
CONSTANTS
    M = 65536
    W = 32767
    DocW = 1024
    AllPairs = FALSE
    Band = 16
    Chunks = 256
    ASel = "dense"
    CoreDLt = FALSE
    Emit = TRUE
INVARIANTS
    OffsetAgreesCore
    AllLemmas
    AddSubWrap
    WindowOrder
    NegativeWitness
    EmitAll
CHECK_DEADLOCK FALSE
