SPECIFICATION Spec
CONSTANTS
    M = 65536
    W = 1024
    Band = 8
    Chunks = 256
    ASel = "dense"
    CoreDLt = FALSE
    Emit = TRUE
INVARIANTS
    OffsetAgreesCore
    AllLemmas
    AddSubWrap
    NegativeWitness
    EmitAll
CHECK_DEADLOCK FALSE
