----------------------------- MODULE CubicTrace -----------------------------
(***************************************************************************)
(* Trace specification for C15: judges calls recorded from the real        *)
(* congestion::cubic::Cubic (unit/src/bin/unit_cubic.rs, both modes) with  *)
(* the rule operators of Cubic.tla.  One step per line.  A line is         *)
(*   [op, <arguments>, d, w, s, u, smss, nan, panic, rtt]                  *)
(* the call, and the observables after it (saturated at Huge = 2^31-1).    *)
(*                                                                         *)
(* slot: 16 contract states.  The call of a line is made in the state of   *)
(* slot d % 16 and its result goes to slot (d+1) % 16; `new` fills slot 0. *)
(* A depth-first replay of a tree of cases (d = depth) and a long recorded *)
(* run (d = running number) are therefore read by the same step.           *)
(*                                                                         *)
(* The rules are *evaluated*, not used as enabling conditions: viol        *)
(* accumulates <<line, rule, context>>, cov counts how often each rule's   *)
(* precondition held.  Report prints the verdict in the state after the    *)
(* last line; TraceAccepted checks that every line was consumed.           *)
(***************************************************************************)
EXTENDS Cubic, TLC, TLCExt, Json, IOUtils

Rec == ndJsonDeserialize(IOEnv.TRACE)
N == Len(Rec)
Slots == 16

VARIABLES l, runs, slot, viol, cov
vars == <<l, runs, slot, viol, cov>>

Init ==
    /\ l = 1 /\ runs = 0
    /\ slot = [i \in 0..(Slots - 1) |-> St0]
    /\ viol = {} /\ cov = [r \in RuleNames |-> 0]

(* The call of a line as the record the rule operators read.               *)
CallOf(r) ==
    CASE r.op = "new"       -> [op |-> "new", mss |-> r.mss]
      [] r.op = "set_mss"   -> [op |-> "set_mss", mss |-> r.mss]
      [] r.op = "set_rwnd"  -> [op |-> "set_rwnd", win |-> r.win]
      [] r.op = "ack"       -> [op |-> "ack", len |-> r.len]
      [] r.op = "rto"       -> [op |-> "rto"]
      [] r.op = "enter_recovery" -> [op |-> "enter_recovery"]
      [] r.op = "recovered" -> [op |-> "recovered", cwnd |-> r.cwnd, ssthresh |-> r.ssthresh]

ObsRec(r) == [w |-> r.w, u |-> r.u, s |-> r.s, nan |-> r.nan, panic |-> r.panic]

(* What distinguishes one breach from another: the call and the regime.    *)
Ctx(st, c) ==
    c.op \o (IF st.stale THEN "/stale" ELSE IF InSlowStart(st) THEN "/slow-start" ELSE "/avoidance")

Next ==
    /\ l <= N
    /\ l' = l + 1
    /\ LET r  == Rec[l]
           c  == CallOf(r)
           o  == ObsRec(r)
           st == IF c.op = "new" THEN St0 ELSE slot[r.d % Slots]
           to == IF c.op = "new" THEN 0 ELSE (r.d + 1) % Slots
           rs == Rules(st, c, o)
           cv == Covered(rs)
       IN  /\ slot' = [slot EXCEPT ![to] = Post(st, c, o)]
           /\ runs' = IF c.op = "new" THEN runs + 1 ELSE runs
           /\ viol' = IF Cardinality(viol) >= 40 THEN viol
                      ELSE viol \cup { <<l, b, Ctx(st, c)>> : b \in Broken(rs) }
           /\ cov' = [x \in RuleNames |-> cov[x] + IF x \in cv THEN 1 ELSE 0]

Spec == Init /\ [][Next]_vars

Report ==
    (l = N + 1) =>
        PrintT(<<"VERDICT", ToJson([lines |-> N, runs |-> runs,
                                    viol |-> { [line |-> v[1], rule |-> v[2], ctx |-> v[3], ep |-> ""] : v \in viol },
                                    cov |-> cov])>>)

TraceAccepted ==
    LET d == TLCGet("stats").diameter IN
    IF d - 1 = N THEN TRUE
    ELSE Print(<<"TRACE NOT ACCEPTED: consumed", d - 1, "of", N>>, FALSE)
=============================================================================
