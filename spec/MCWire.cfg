SPECIFICATION Spec
INVARIANT InvHeaderSane
INVARIANT InvMessageSane
INVARIANT InvUnknownSkipped
INVARIANT InvRoundTrip
INVARIANT InvReserialise
INVARIANT Emit
CHECK_DEADLOCK FALSE
