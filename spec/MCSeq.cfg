SPECIFICATION Spec
CONSTANTS
    M = 65536
    W = 1024
    Band = 8
    Chunks = 256
    ASel = "all"
    Emit = FALSE
INVARIANTS
    OffsetAgreesCore
CHECK_DEADLOCK FALSE
