SPECIFICATION Spec
CONSTANTS
    M = 65536
    W = 1024
    Band = 8
    Chunks = 256
    ASel = "all"
    CoreDLt = TRUE
    Emit = FALSE
INVARIANTS
    OffsetAgreesCore
    AllLemmas
    AddSubWrap
CHECK_DEADLOCK FALSE
