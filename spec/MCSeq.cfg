SPECIFICATION Spec
CONSTANTS
    M = 65536
    W = 32767
    DocW = 1024
    AllPairs = FALSE
    Band = 48
    Chunks = 256
    ASel = "all"
    CoreDLt = TRUE
    Emit = FALSE
INVARIANTS
    OffsetAgreesCore
    AllLemmas
    AddSubWrap
    WindowOrder
    NegativeWitness
CHECK_DEADLOCK FALSE
