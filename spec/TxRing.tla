------------------------------- MODULE TxRing -------------------------------
(***************************************************************************)
(* The sender's application half (src/stream_tx.rs: UserTx -- the TX ring  *)
(* buffer shared between the writer and the connection task -- and the     *)
(* public write half UtpStreamWriteHalf) as an abstract component, serving *)
(* C19 and the send-side clauses of C01 and C03.                           *)
(*                                                                         *)
(*  C19 "The bytes a stream has accepted from write but not yet had        *)
(*       acknowledged never exceed the configured transmit buffer limit    *)
(*       (the larger of its initial and maximum size): once the buffer is  *)
(*       full write waits instead of buffering more, and it is woken as    *)
(*       soon as acknowledgements free space.  Growing the buffer from its *)
(*       initial to its maximum size never loses, duplicates or reorders   *)
(*       the bytes it holds."  (mechanism: "growth doubles up to the       *)
(*       configured maximum and copies content in order"; "acknowledged    *)
(*       bytes are removed from the front and the writer is woken")        *)
(*  C01 "nothing is lost, duplicated, reordered or altered" (sending half: *)
(*       "sender ... addresses payload by absolute byte offset"; "acked    *)
(*       bytes are removed from the front of the ring only by ... ACK      *)
(*       processing")                                                      *)
(*  C03 "A successful flush or shutdown implies every byte written before  *)
(*       it has been acknowledged by the peer's stack ...  When a          *)
(*       connection is aborted ... every pending and later                 *)
(*       read/write/flush/shutdown resolves with an error within a bounded *)
(*       time instead of hanging or reporting success."  (mechanism:       *)
(*       "flush/shutdown complete only when the TX ring (which holds all   *)
(*       unacked bytes) is empty")                                         *)
(*                                                                         *)
(* The accepted stream is the sequence of byte POSITIONS 0, 1, 2, ...: the *)
(* byte at position p is written as Enc(p) = p mod 251, so what the ring   *)
(* holds says which positions it holds, in which order.  A byte string is  *)
(* written losslessly as maximal runs <<first value, count>> of values     *)
(* that go up by one modulo 251 (the driver compresses what it finds in    *)
(* the real ring the same way): a FIFO of exactly the accepted and not yet *)
(* acknowledged bytes is the single run <<Enc(acked), accepted - acked>>.  *)
(*                                                                         *)
(* Who does what.  The ring and the flags live in UserTx; the writer calls *)
(* poll_write / poll_flush / poll_shutdown / drop on the write half; the   *)
(* connection task (src/stream_dispatch.rs) calls                          *)
(*   truncate_front(acked bytes), then takes and wakes writer_waker        *)
(*                         (process_all_incoming_messages)        -- Ack   *)
(*   grow(configured maximum), on success takes and wakes writer_waker     *)
(*                         (split_tx_queue_into_segments)         -- Grow  *)
(*   mark_vsock_closed     (just_before_death, Drop)              -- Close *)
(*   registers dispatcher_waker (split_tx_queue_into_segments)   -- RegDisp*)
(*   reads consumer.as_slices() at [offset, offset + len)         -- ReadAt*)
(* The two "takes and wakes" of Ack and Grow are code of the connection    *)
(* task, not of this component: the driver (unit_utx.rs) performs them     *)
(* verbatim in its place.  What this component owes for "woken as soon as  *)
(* acknowledgements free space" is that a call that answered Pending left  *)
(* the caller's waker in writer_waker, where the connection task finds it. *)
(*                                                                         *)
(* Everything is a pure operator on a state record, so that the bounded    *)
(* model (MCTxRing) and the trace specification (TxRingTrace) apply the    *)
(* SAME definitions.  The state:                                           *)
(*   init, max  configured initial / maximum size of the transmit buffer   *)
(*   cap        current capacity of the ring                               *)
(*   acc, ack   bytes accepted by write / acknowledged (truncated) so far; *)
(*              the ring holds positions ack .. acc - 1                    *)
(*   head       (ghost) read index of the ring, modulo twice the capacity  *)
(*              as in the ringbuf crate: the first byte is at physical     *)
(*              index head mod cap, the ring has wrapped around when that  *)
(*              + length > cap                                             *)
(*   closed, shut, dropped   vsock_closed / writer_shutdown / writer_dropped*)
(*   wreg, dreg a waker is registered in writer_waker / dispatcher_waker   *)
(*   wait       (ghost) what the writer's last call, answered Pending, is  *)
(*              waiting for: "room" | "empty" | "fin" | "none" (also after *)
(*              it has been woken)                                         *)
(*   yielded    (ghost) the writer's last call was a cooperative yield     *)
(***************************************************************************)
EXTENDS Integers, Sequences, FiniteSets

Max(a, b) == IF a >= b THEN a ELSE b
Min(a, b) == IF a <= b THEN a ELSE b

EncMod == 251
Enc(p) == p % EncMod

StNew(init, max) ==
    [init |-> init, max |-> max, cap |-> init, acc |-> 0, ack |-> 0, head |-> 0,
     closed |-> FALSE, shut |-> FALSE, dropped |-> FALSE, wreg |-> FALSE, dreg |-> FALSE,
     wait |-> "none", yielded |-> FALSE]

---------------------------------------------------------------------------
(* Views of the state.                                                     *)
RLen(st)    == st.acc - st.ack              \* bytes in the ring: accepted and not yet acknowledged
Room(st)    == st.cap - RLen(st)
Full(st)    == Room(st) = 0
(* C19 "the configured transmit buffer limit (the larger of its initial and maximum size)" *)
Limit(st)   == Max(st.init, st.max)
Phys(st)    == st.head % st.cap
Wrapped(st) == RLen(st) > 0 /\ Phys(st) + RLen(st) > st.cap
Open(st)    == ~st.closed /\ ~st.shut

(* n bytes from position p on, as runs *)
ContentOf(p, n) == IF n <= 0 THEN <<>> ELSE << <<Enc(p), n>> >>
(* what the connection task reads at [o, o + n) of the ring (o + n <= length): "byte number (acked + o) of
   the accepted stream" onwards *)
ReadAt(st, o, n) == ContentOf(st.ack + o, n)
Content(st)      == ReadAt(st, 0, RLen(st))

---------------------------------------------------------------------------
(* The operations.  Each returns an outcome [st, res, n, err, wwake, dwake, runs]: the state after, the      *)
(* call's result, whether the writer's / the connection task's registered waker was woken in the call, and   *)
(* (ReadAt) the bytes read.                                                                                  *)
Outcome(st, res, n) ==
    [st |-> st, res |-> res, n |-> n, err |-> "", wwake |-> FALSE, dwake |-> FALSE, runs |-> <<>>]

(* the writer's last call is answered and it waits for nothing *)
Answered(st) == [st EXCEPT !.wait = "none", !.yielded = FALSE]
Waits(st, what) == [st EXCEPT !.wait = what, !.yielded = FALSE, !.wreg = TRUE]

(* poll_write with `len` bytes:
     connection closed / shutdown requested          -> an error, nothing accepted
     the ring is full                                -> Pending, the caller's waker registered
     otherwise                                       -> min(len, room) bytes appended; the connection task
                                                        is woken (it may be waiting for data to send)
   (len = 0: nothing to accept, Ok(0) -- the convention of AsyncWrite; the pinned code waited forever,
    repaired in /repo by "fix: a zero-length write returns at once ...") *)
Write(st, len) ==
    IF st.closed THEN [Outcome(Answered(st), "err", 0) EXCEPT !.err = "closed"]
    ELSE IF st.shut THEN [Outcome(Answered(st), "err", 0) EXCEPT !.err = "shutdown"]
    ELSE IF len = 0 THEN Outcome(Answered(st), "ok", 0)
    ELSE IF Full(st) THEN Outcome(Waits(st, "room"), "pending", 0)
    ELSE LET n == Min(len, Room(st)) IN
         [Outcome([Answered(st) EXCEPT !.acc = @ + n, !.dreg = FALSE], "ok", n) EXCEPT !.dwake = st.dreg]

(* a write may decline although it could proceed -- to let other tasks run -- provided it wakes its own
   waker at once (it is then polled again); nothing changes *)
Yield(st) == [Outcome([st EXCEPT !.wait = "none", !.yielded = TRUE], "pending", 0) EXCEPT !.wwake = TRUE]

(* poll_flush: "complete only when the TX ring (which holds all unacked bytes) is empty" *)
Flush(st) ==
    IF RLen(st) = 0 THEN Outcome(Answered(st), "ok", 0)
    ELSE IF st.closed THEN [Outcome(Answered(st), "err", 0) EXCEPT !.err = "closed"]
    ELSE Outcome(Waits(st, "empty"), "pending", 0)

(* poll_shutdown: with bytes in the ring it waits for them to be acknowledged (an error once the
   connection is closed); with an empty ring it asks the connection task to send the FIN (writer_shutdown;
   the task is woken) and completes when the connection has been closed *)
Shutdown(st) ==
    IF RLen(st) > 0 THEN
        IF st.closed THEN [Outcome(Answered(st), "err", 0) EXCEPT !.err = "closed"]
        ELSE Outcome(Waits(st, "empty"), "pending", 0)
    ELSE IF st.closed THEN Outcome(Answered(st), "ok", 0)
    ELSE [Outcome([Waits(st, "fin") EXCEPT !.shut = TRUE, !.dreg = FALSE], "pending", 0) EXCEPT !.dwake = st.dreg]

(* the write half is dropped: the connection task is told *)
DropWriter(st) ==
    [Outcome([Answered(st) EXCEPT !.dropped = TRUE, !.dreg = FALSE], "ok", 0) EXCEPT !.dwake = st.dreg]

(* the connection task on an acknowledgement of n bytes (1 <= n <= bytes in the ring): truncate_front(n),
   then whoever is registered in writer_waker is woken *)
Ack(st, n) ==
    [Outcome([st EXCEPT !.ack = @ + n, !.head = (@ + n) % (2 * st.cap), !.wreg = FALSE,
                        !.wait = IF st.wreg THEN "none" ELSE @], "ok", n)
     EXCEPT !.wwake = st.wreg]

(* the connection task grows the ring: "growth doubles up to the configured maximum and copies content in
   order"; on success whoever is registered in writer_waker is woken *)
Grow(st) ==
    IF st.cap >= st.max THEN Outcome(st, "none", 0)
    ELSE LET nc == Min(2 * st.cap, st.max) IN
         [Outcome([st EXCEPT !.cap = nc, !.head = 0, !.wreg = FALSE, !.wait = IF st.wreg THEN "none" ELSE @],
                  "grown", nc)
          EXCEPT !.wwake = st.wreg]

(* UserTx::mark_vsock_closed: whoever is registered in writer_waker is woken *)
MarkClosed(st) ==
    [Outcome([st EXCEPT !.closed = TRUE, !.wreg = FALSE, !.wait = IF st.wreg THEN "none" ELSE @], "ok", 0)
     EXCEPT !.wwake = st.wreg]

(* the connection task registers its waker (it does so when it finds nothing to send) *)
RegDisp(st) == Outcome([st EXCEPT !.dreg = TRUE], "ok", 0)

(* the connection task reads [o, o + n) of the ring *)
DoRead(st, o, n) == [Outcome(st, "ok", n) EXCEPT !.runs = ReadAt(st, o, n)]

---------------------------------------------------------------------------
(* Invariants of the state (checked by MCTxRing in every reachable state). *)

Wellformed(st) ==
    /\ 0 <= st.ack /\ st.ack <= st.acc
    /\ 0 <= st.head /\ st.head < 2 * st.cap
    /\ st.wait \in {"none", "room", "empty", "fin"}
    /\ st.shut => RLen(st) = 0           \* the FIN is requested only behind acknowledged data

(* C19 "never exceed the configured transmit buffer limit (the larger of its initial and maximum size)" *)
TxBounded(st) == RLen(st) <= st.cap /\ st.cap <= Limit(st)

(* "growth doubles up to the configured maximum": the capacity is the initial size doubled some number of
   times, clamped to the maximum; it is never below the initial size *)
RECURSIVE Reachable(_, _, _)
Reachable(c, cap, max) == c = cap \/ (c < cap /\ c < max /\ Reachable(Min(2 * c, max), cap, max))
GrowthBounded(st) == st.cap >= st.init /\ Reachable(st.init, st.cap, st.max)

(* no lost wake-up: a caller that was answered Pending and has not been woken since is registered, and what
   it waits for has not happened *)
NoLostWakeup(st) ==
    /\ st.wait = "room"  => st.wreg /\ Full(st) /\ Open(st)
    /\ st.wait = "empty" => st.wreg /\ RLen(st) > 0 /\ ~st.closed
    /\ st.wait = "fin"   => st.wreg /\ st.shut /\ ~st.closed

StateInv(st) == Wellformed(st) /\ TxBounded(st) /\ GrowthBounded(st) /\ NoLostWakeup(st)

---------------------------------------------------------------------------
(* The clauses as rules over ONE call: st the state before, c the call      *)
(* [op, a, b], x the specification's outcome (x.st the state after), r the  *)
(* answer under judgement with the fields                                   *)
(*   res n err wwake dwake runs                                             *)
(*   len cap wreg dreg shut dropped wrapped content   (observed after it)   *)
(* and g = [acc, ack]: the bytes accepted according to the answers so far   *)
(* (this one included) and the bytes the connection task acknowledged.  In  *)
(* MCTxRing r is the specification's own answer (the rules are then         *)
(* consequences of the operators: checked), in TxRingTrace r is a recorded  *)
(* line of the real code.  A rule is <<name, applicable, holds>>; names     *)
(* with a second dot are coverage markers (which branch was exercised).     *)

B2I(b) == IF b THEN 1 ELSE 0
Expected(x) ==
    [res |-> x.res, n |-> x.n, err |-> x.err, wwake |-> B2I(x.wwake), dwake |-> B2I(x.dwake), runs |-> x.runs,
     len |-> RLen(x.st), cap |-> x.st.cap, wreg |-> x.st.wreg, dreg |-> x.st.dreg, shut |-> x.st.shut,
     dropped |-> x.st.dropped, wrapped |-> Wrapped(x.st), content |-> Content(x.st)]

ObsFields == {"res", "n", "err", "wwake", "dwake", "runs", "len", "cap", "wreg", "dreg", "shut", "dropped",
              "wrapped", "content"}
Agrees(r, e) == r = e
Differing(r, e) == { f \in ObsFields : r[f] # e[f] }

WriteRules(st, c, x, r) ==
    LET room == Room(st) IN <<
    \* C19 "once the buffer is full write waits instead of buffering more" -- and only then: a write that
    \*      finds room accepts what fits, min(len, room) > 0 bytes, never nothing
    <<"C19.WriteAcceptsWhatFits", Open(st) /\ room > 0 /\ c.a > 0,
        r.res = "ok" /\ r.n = Min(c.a, room) /\ r.len = RLen(st) + r.n>>,
    <<"C19.WriteAcceptsWhatFits.partial", Open(st) /\ room > 0 /\ c.a > room, TRUE>>,
    <<"C19.WriteAcceptsWhatFits.tofull", Open(st) /\ room > 0 /\ c.a = room, TRUE>>,
    \* C19 "once the buffer is full write waits instead of buffering more, and it is woken as soon as
    \*      acknowledgements free space": Pending exactly when the ring is full, nothing accepted, and the
    \*      caller's waker is registered (where the connection task finds it on the acknowledgement)
    \*      (a zero-length write has nothing to wait for: Ok(0) whatever the fill - "for all write sizes")
    <<"C19.WriteWaitsWhenFull", c.a > 0 /\ (r.res = "pending" \/ (Open(st) /\ room = 0)),
        Open(st) /\ room = 0 /\ r.res = "pending" /\ r.n = 0 /\ r.wreg /\ r.len = RLen(st)>>,
    <<"C19.WriteWaitsWhenFull", Open(st) /\ c.a = 0, r.res = "ok" /\ r.n = 0 /\ r.len = RLen(st)>>,
    <<"C19.WriteWaitsWhenFull.atlimit", Open(st) /\ room = 0 /\ st.cap = Limit(st), TRUE>>,
    <<"C19.WriteWaitsWhenFull.growable", Open(st) /\ room = 0 /\ st.cap < st.max, TRUE>>,
    \* no write is accepted once the FIN has been requested or the connection is gone: an error, not acceptance
    <<"C19.NoWriteAfterShutdown", st.shut \/ st.closed, r.res = "err" /\ r.n = 0 /\ r.len = RLen(st)>>,
    <<"C19.NoWriteAfterShutdown.shut", st.shut /\ ~st.closed, TRUE>>,
    <<"C19.NoWriteAfterShutdown.closed", st.closed, TRUE>>,
    \* C03 "When a connection is aborted ... every pending and later read/write/flush/shutdown resolves with an
    \*      error ... instead of hanging or reporting success"
    <<"C03.ClosedSurfaces", st.closed, r.res = "err" /\ r.err = "closed">>,
    <<"C03.ClosedSurfaces.write", st.closed, TRUE>>,
    \* accepted bytes are announced to the connection task if it waits for data
    <<"TxRing.DispatcherNotified", st.dreg /\ r.res = "ok" /\ r.n > 0, r.dwake = 1 /\ ~r.dreg>>,
    <<"TxRing.DispatcherNotified.write", st.dreg /\ Open(st) /\ room > 0, TRUE>> >>

(* a write that answered Pending and woke itself: a cooperative yield; it changes nothing and the next
   write does not yield again *)
YieldRules(st, c, x, r) == <<
    <<"TxRing.YieldHonest", TRUE, ~st.yielded /\ r.n = 0 /\ r.wwake >= 1 /\ r.len = RLen(st)>> >>

FlushRules(st, c, x, r) == <<
    \* C03 "A successful flush ... implies every byte written before it has been acknowledged": Ready(Ok)
    \*      exactly when the ring is empty; otherwise, while the connection lives, Pending with the caller's
    \*      waker registered
    <<"C03.FlushOnlyWhenEmpty", TRUE,
        /\ (r.res = "ok") = (RLen(st) = 0)
        /\ r.len = RLen(st)
        /\ (RLen(st) > 0 /\ ~st.closed => r.res = "pending" /\ r.wreg)>>,
    <<"C03.FlushOnlyWhenEmpty.empty", RLen(st) = 0 /\ st.acc > 0, TRUE>>,
    <<"C03.FlushOnlyWhenEmpty.waits", RLen(st) > 0 /\ ~st.closed, TRUE>>,
    \* C03 "every pending and later ... flush ... resolves with an error ... instead of hanging or reporting
    \*      success": closed with bytes still in the ring is an error
    <<"C03.ClosedSurfaces", st.closed,
        r.res # "pending" /\ (RLen(st) > 0 => r.res = "err" /\ r.err = "closed")>>,
    <<"C03.ClosedSurfaces.flush", st.closed /\ RLen(st) > 0, TRUE>> >>

ShutdownRules(st, c, x, r) == <<
    \* C03 "A successful ... shutdown implies every byte written before it has been acknowledged"; while the
    \*      connection lives the caller waits, registered; the FIN is requested only behind an empty ring
    <<"C03.ShutdownOnlyWhenEmpty", TRUE,
        /\ (r.res = "ok" => RLen(st) = 0)
        /\ r.len = RLen(st)
        /\ (~st.closed => r.res = "pending" /\ r.wreg)
        /\ (r.shut = (st.shut \/ (RLen(st) = 0 /\ ~st.closed)))>>,
    <<"C03.ShutdownOnlyWhenEmpty.waits", RLen(st) > 0 /\ ~st.closed, TRUE>>,
    <<"C03.ShutdownOnlyWhenEmpty.fin", RLen(st) = 0 /\ ~st.closed /\ st.acc > 0, TRUE>>,
    <<"C03.ShutdownOnlyWhenEmpty.done", RLen(st) = 0 /\ st.closed /\ st.shut, TRUE>>,
    <<"C03.ClosedSurfaces", st.closed,
        /\ r.res # "pending"
        /\ (RLen(st) > 0 => r.res = "err" /\ r.err = "closed")
        /\ (RLen(st) = 0 => r.res = "ok")>>,
    <<"C03.ClosedSurfaces.shutdown", st.closed /\ RLen(st) > 0, TRUE>>,
    \* "The dispatcher must notice the request to send the FIN"
    <<"TxRing.DispatcherNotified", st.dreg /\ RLen(st) = 0 /\ ~st.closed, r.dwake = 1 /\ ~r.dreg>>,
    <<"TxRing.DispatcherNotified.fin", st.dreg /\ RLen(st) = 0 /\ ~st.closed, TRUE>> >>

DropRules(st, c, x, r) == <<
    <<"TxRing.DispatcherNotified", st.dreg, r.dwake = 1 /\ ~r.dreg /\ r.dropped>>,
    <<"TxRing.DispatcherNotified.drop", st.dreg, TRUE>> >>

AckRules(st, c, x, r) == <<
    \* C01 / C19 "acknowledged bytes are removed from the front": truncate_front(n) removes exactly the first
    \*      n bytes
    <<"C01.TruncateExact", TRUE,
        r.res = "ok" /\ r.len = RLen(st) - c.a /\ r.content = ContentOf(st.ack + c.a, RLen(st) - c.a)>>,
    <<"C01.TruncateExact.part", c.a < RLen(st), TRUE>>,
    <<"C01.TruncateExact.all", c.a = RLen(st), TRUE>>,
    <<"C01.TruncateExact.wrapped", Wrapped(st), TRUE>>,
    \* C19 "it is woken as soon as acknowledgements free space": whoever was answered Pending is found
    \*      registered and woken (the taking and waking is the connection task's, done by the driver)
    <<"C19.WokenOnAck", st.wreg, r.wwake = 1 /\ ~r.wreg>>,
    <<"C19.WokenOnAck.room", st.wait = "room", TRUE>>,
    <<"C19.WokenOnAck.flush", st.wait = "empty", TRUE>> >>

GrowRules(st, c, x, r) == <<
    \* C19 "growth doubles up to the configured maximum"
    <<"C19.GrowthBounded", TRUE,
        IF st.cap < st.max THEN r.res = "grown" /\ r.n = Min(2 * st.cap, st.max) /\ r.cap = r.n
        ELSE r.res = "none" /\ r.cap = st.cap>>,
    <<"C19.GrowthBounded.doubled", st.cap < st.max /\ 2 * st.cap <= st.max, TRUE>>,
    <<"C19.GrowthBounded.clamped", st.cap < st.max /\ 2 * st.cap > st.max, TRUE>>,
    <<"C19.GrowthBounded.atmax", st.cap >= st.max, TRUE>>,
    \* C19 "Growing the buffer ... never loses, duplicates or reorders the bytes it holds"
    <<"C01.GrowthPreservesContent", TRUE, r.len = RLen(st) /\ r.content = Content(st)>>,
    <<"C01.GrowthPreservesContent.nonempty", st.cap < st.max /\ RLen(st) > 0, TRUE>>,
    <<"C01.GrowthPreservesContent.wrapped", st.cap < st.max /\ Wrapped(st), TRUE>>,
    <<"C01.GrowthPreservesContent.full", st.cap < st.max /\ Full(st), TRUE>> >>

CloseRules(st, c, x, r) == <<
    \* C03 "every pending ... write/flush/shutdown resolves ... instead of hanging": whoever waits is woken
    <<"C03.ClosedSurfaces", st.wreg, r.wwake = 1 /\ ~r.wreg>>,
    <<"C03.ClosedSurfaces.woken", st.wait # "none", TRUE>> >>

ReadRules(st, c, x, r, g) == <<
    \* C01 "addresses payload by absolute byte offset": what the connection task reads at offset o is byte
    \*      number (acked + o) of the accepted stream
    <<"C01.RingIsFifo", TRUE, r.runs = ContentOf(g.ack + c.a, c.b)>>,
    <<"C01.RingIsFifo.readwrap", Wrapped(st) /\ Phys(st) + c.a < st.cap /\ Phys(st) + c.a + c.b > st.cap, TRUE>> >>

(* rules judged after every call, on what is observed after it *)
StateRules(st, c, x, r, g) ==
    LET p == x.st IN <<
    \* C19 "The bytes a stream has accepted from write but not yet had acknowledged never exceed the
    \*      configured transmit buffer limit (the larger of its initial and maximum size)"
    <<"C19.TxBounded", TRUE, r.len <= Limit(p) /\ g.acc - g.ack <= Limit(p) /\ r.len <= r.cap>>,
    <<"C19.TxBounded.atlimit", RLen(p) = Limit(p), TRUE>>,
    \* the capacity never exceeds that limit, never shrinks, never is below the initial size, and changes
    \* only by growth
    <<"C19.GrowthBounded", TRUE,
        r.cap <= Limit(p) /\ r.cap >= p.init /\ r.cap >= st.cap /\ (c.op # "grow" => r.cap = st.cap)>>,
    \* C01 "nothing is lost, duplicated, reordered or altered": the ring is a FIFO of exactly the accepted and
    \*      not yet acknowledged bytes, across growth (re-allocation) and wrap-around
    <<"C01.RingIsFifo", TRUE, r.len = g.acc - g.ack /\ r.content = ContentOf(g.ack, g.acc - g.ack)>>,
    <<"C01.RingIsFifo.wrapped", r.wrapped, TRUE>>,
    <<"C01.RingIsFifo.long", r.len > EncMod, TRUE>> >>

(* e: Expected(x) *)
Rules(st, c, x, e, r, g) ==
    StateRules(st, c, x, r, g)
    \o (IF c.op = "write" THEN WriteRules(st, c, x, r) ELSE <<>>)
    \o (IF c.op = "yield" THEN YieldRules(st, c, x, r) ELSE <<>>)
    \o (IF c.op = "flush" THEN FlushRules(st, c, x, r) ELSE <<>>)
    \o (IF c.op = "shutdown" THEN ShutdownRules(st, c, x, r) ELSE <<>>)
    \o (IF c.op = "drop" THEN DropRules(st, c, x, r) ELSE <<>>)
    \o (IF c.op = "ack" THEN AckRules(st, c, x, r) ELSE <<>>)
    \o (IF c.op = "grow" THEN GrowRules(st, c, x, r) ELSE <<>>)
    \o (IF c.op = "close" THEN CloseRules(st, c, x, r) ELSE <<>>)
    \o (IF c.op = "read" THEN ReadRules(st, c, x, r, g) ELSE <<>>)
    \o << <<"TxRing.ObsAgrees", TRUE, Agrees(r, e)>> >>

Broken(rs)  == { rs[i][1] : i \in { j \in 1..Len(rs) : rs[j][2] /\ ~rs[j][3] } }
Covered(rs) == { rs[i][1] : i \in { j \in 1..Len(rs) : rs[j][2] } }

RuleNames == {
    "C19.TxBounded", "C19.GrowthBounded", "C19.WriteAcceptsWhatFits", "C19.WriteWaitsWhenFull", "C19.WokenOnAck",
    "C19.NoWriteAfterShutdown",
    "C01.RingIsFifo", "C01.TruncateExact", "C01.GrowthPreservesContent",
    "C03.FlushOnlyWhenEmpty", "C03.ShutdownOnlyWhenEmpty", "C03.ClosedSurfaces",
    "TxRing.DispatcherNotified", "TxRing.YieldHonest", "TxRing.ObsAgrees", "TxRing.NoPanic",
    \* coverage markers (which branch of a rule was exercised; never violated)
    "C19.TxBounded.atlimit", "C19.GrowthBounded.doubled", "C19.GrowthBounded.clamped", "C19.GrowthBounded.atmax",
    "C19.WriteAcceptsWhatFits.partial", "C19.WriteAcceptsWhatFits.tofull",
    "C19.WriteWaitsWhenFull.atlimit", "C19.WriteWaitsWhenFull.growable",
    "C19.WokenOnAck.room", "C19.WokenOnAck.flush",
    "C19.NoWriteAfterShutdown.shut", "C19.NoWriteAfterShutdown.closed",
    "C01.RingIsFifo.wrapped", "C01.RingIsFifo.long", "C01.RingIsFifo.readwrap",
    "C01.TruncateExact.part", "C01.TruncateExact.all", "C01.TruncateExact.wrapped",
    "C01.GrowthPreservesContent.nonempty", "C01.GrowthPreservesContent.wrapped", "C01.GrowthPreservesContent.full",
    "C03.FlushOnlyWhenEmpty.empty", "C03.FlushOnlyWhenEmpty.waits",
    "C03.ShutdownOnlyWhenEmpty.waits", "C03.ShutdownOnlyWhenEmpty.fin", "C03.ShutdownOnlyWhenEmpty.done",
    "C03.ClosedSurfaces.write", "C03.ClosedSurfaces.flush", "C03.ClosedSurfaces.shutdown", "C03.ClosedSurfaces.woken",
    "TxRing.DispatcherNotified.write", "TxRing.DispatcherNotified.fin", "TxRing.DispatcherNotified.drop" }

(* The call of a record c = [op, a, b] as an operation of the specification. *)
Apply(st, c) ==
    CASE c.op = "write"    -> Write(st, c.a)
      [] c.op = "yield"    -> Yield(st)
      [] c.op = "flush"    -> Flush(st)
      [] c.op = "shutdown" -> Shutdown(st)
      [] c.op = "drop"     -> DropWriter(st)
      [] c.op = "ack"      -> Ack(st, c.a)
      [] c.op = "grow"     -> Grow(st)
      [] c.op = "close"    -> MarkClosed(st)
      [] c.op = "regdisp"  -> RegDisp(st)
      [] c.op = "read"     -> DoRead(st, c.a, c.b)
=============================================================================
