---------------------------- MODULE SeqArithApa ----------------------------
(***************************************************************************)
(* C09, arithmetic clause, symbolically (Apalache): the lemmas of          *)
(* SeqArith.tla for ALL 65536 x 65536 pairs with the real constants, as    *)
(* invariants of a one-state system whose initial states are all pairs.    *)
(* Extra evidence next to the TLC runs of MCSeq (which enumerate the band  *)
(* within tolerance and the scaled instances); in particular DependsOnDLt  *)
(* for all pairs licenses the 131072-entry table of MCSeq!Table.           *)
(*                                                                         *)
(*   apalache-mc check --length=0 --init=Init --next=Next --inv=Lemmas SeqArithApa.tla *)
(***************************************************************************)
EXTENDS SeqArith

VARIABLES
    \* @type: Int;
    a,
    \* @type: Int;
    b

MM == 65536
WW == 1024

Init == a \in 0..(MM - 1) /\ b \in 0..(MM - 1)
Next == UNCHANGED <<a, b>>

OffsetAgrees          == OffsetAgreesAt(a, b, MM, WW)
ClosedForm            == OffsetClosedFormAt(a, b, MM, WW)
DependsOnDLt          == OffsetDependsOnDLtAt(a, b, MM, WW)
Antisym               == OffsetAntisymAt(a, b, MM, WW)
ZeroIffEqual          == OffsetZeroIffEqualAt(a, b, MM, WW)
OrdAgrees             == OrdAgreesAt(a, b, MM, WW)
OrdIsPlainBeyond      == OrdIsPlainBeyondAt(a, b, MM, WW)
OrdInvertedAcrossWrap == OrdInvertedAcrossWrapAt(a, b, MM, WW)

Lemmas ==
    /\ OffsetAgrees /\ ClosedForm /\ DependsOnDLt /\ Antisym /\ ZeroIffEqual
    /\ OrdAgrees /\ OrdIsPlainBeyond /\ OrdInvertedAcrossWrap

(* sanity of the method: this one must be REFUTED (the order is wrong across the wrap beyond WW) *)
OrdAlwaysModular == 2 * Abs(Dist(a, b, MM)) < MM => SeqCmp(a, b, MM, WW) = SeqSign(Dist(a, b, MM))
=============================================================================
