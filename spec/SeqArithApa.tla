---------------------------- MODULE SeqArithApa ----------------------------
(***************************************************************************)
(* C09, arithmetic clause, symbolically (Apalache): the lemmas of          *)
(* SeqArith.tla for ALL 65536 x 65536 pairs with the real constants, as    *)
(* invariants of a one-state system whose initial states are all pairs.    *)
(* WW = 32767 = M/2 - 1 is the tolerance (the largest with 2W < M); OldW =  *)
(* 1024 is the former one (defect D8).                                      *)
(* Extra evidence next to the TLC runs of MCSeq (which enumerate the band  *)
(* within tolerance and the scaled instances); in particular DependsOnDLt  *)
(* for all pairs licenses the 131072-entry table of MCSeq!Table.           *)
(*                                                                         *)
(*   apalache-mc check --length=0 --init=Init --next=Next --inv=Lemmas SeqArithApa.tla *)
(***************************************************************************)
EXTENDS SeqArith

VARIABLES
    \* @type: Int;
    a,
    \* @type: Int;
    b

MM == 65536
WW == 32767
OldW == 1024

Init == a \in 0..(MM - 1) /\ b \in 0..(MM - 1)
Next == UNCHANGED <<a, b>>

OffsetAgrees          == OffsetAgreesAt(a, b, MM, WW)
ClosedForm            == OffsetClosedFormAt(a, b, MM, WW)
DependsOnDLt          == OffsetDependsOnDLtAt(a, b, MM, WW)
Antisym               == OffsetAntisymAt(a, b, MM, WW)
ZeroIffEqual          == OffsetZeroIffEqualAt(a, b, MM, WW)
OrdAgrees             == OrdAgreesAt(a, b, MM, WW)
OrdIsPlainBeyond      == OrdIsPlainBeyondAt(a, b, MM, WW)
OrdInvertedAcrossWrap == OrdInvertedAcrossWrapAt(a, b, MM, WW)

(* with the largest tolerance the order is the modular order on every pair whose modular order is unambiguous *)
OrdAlwaysModular == 2 * Abs(Dist(a, b, MM)) < MM => SeqCmp(a, b, MM, WW) = SeqSign(Dist(a, b, MM))

(* the lemmas that license the second table (seq_nr_offset(a, b, 1024) as a pure function) *)
LemmasOld ==
    /\ OffsetAgreesAt(a, b, MM, OldW) /\ OffsetClosedFormAt(a, b, MM, OldW)
    /\ OffsetDependsOnDLtAt(a, b, MM, OldW) /\ OffsetAntisymAt(a, b, MM, OldW)

Lemmas ==
    /\ OffsetAgrees /\ ClosedForm /\ DependsOnDLt /\ Antisym /\ ZeroIffEqual
    /\ OrdAgrees /\ OrdIsPlainBeyond /\ OrdInvertedAcrossWrap
    /\ OrdAlwaysModular /\ LemmasOld

(* sanity of the method, and the documentation of D8: with the former tolerance 1024 this one must be REFUTED *)
(* (the order is wrong across the wrap beyond the tolerance)                                                  *)
OrdAlwaysModularOld == 2 * Abs(Dist(a, b, MM)) < MM => SeqCmp(a, b, MM, OldW) = SeqSign(Dist(a, b, MM))
=============================================================================
