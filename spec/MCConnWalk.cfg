SPECIFICATION Spec
CONSTANTS Depth = 1
INVARIANT Emit
PROPERTY OnGraph
CHECK_DEADLOCK FALSE
