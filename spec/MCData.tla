------------------------------- MODULE MCData -------------------------------
(***************************************************************************)
(* Bounded model of the data path: two contract endpoints (Endpoint.tla)   *)
(* and a network that may drop, duplicate and reorder datagrams.  Data     *)
(* flows A -> B (and, with BothWays, also B -> A).  Every action of an     *)
(* endpoint is guarded by the contract rules of Endpoint.tla, so TLC       *)
(* explores *every* endpoint behaviour the local rules permit (any segment *)
(* size, any retransmission the rules allow, any honest window, any ACK    *)
(* timing) against every network schedule, and checks the end-to-end       *)
(* theorems:                                                               *)
(*                                                                         *)
(*   C01  ReadIsPrefix   what B's application has read is a prefix of what *)
(*                       A's application wrote (positions are abstract     *)
(*                       bytes 0,1,2,...)                                  *)
(*   C04  WithinBuffer   a sender that respects the advertised window      *)
(*                       never overflows the receiver                      *)
(*   C04  AckNeverOverstates   everything at or below an emitted ack_nr    *)
(*                       was stored                                        *)
(*   C05  FlightWithinWindow   (follows from the guards; checked as a      *)
(*                       sanity invariant on the state after sending)      *)
(*   C09  every comparison is made on wire values modulo SeqMod, for every *)
(*        initial sequence number (Isn is chosen in Init)                  *)
(*                                                                         *)
(* The scripts of the behaviours (environment choices) are projected out   *)
(* by MCDataScripts to drive the real implementation.                      *)
(***************************************************************************)
EXTENDS Endpoint, Bags, TLC

CONSTANTS
    MaxWrite,     \* bytes each writing application writes in total
    MaxSeg,       \* largest segment payload
    RxBuf,        \* receive buffer, bytes
    NetCap,       \* datagrams in flight, total
    DropBudget, DupBudget,
    MaxRetx,      \* retransmissions per segment
    BothWays,
    Isns,         \* set of initial sequence numbers explored
    Mutant        \* "none"; or a deliberately broken endpoint, to show that the theorems depend on the rules:
                  \* "nowindow" (sender ignores the peer's window), "redeliver" (receiver stores duplicates again)

VARIABLES eps, net, drops, dups, stream, declined
\* declined: the receiver had to turn away an in-order packet for lack of room
\* stream[k]: the sequence of stream positions handed to k's reader, for the integrity theorem

vars == <<eps, net, drops, dups, stream, declined>>

Ends == {"A", "B"}
Other(k) == IF k = "A" THEN "B" ELSE "A"
Writers == IF BothWays THEN Ends ELSE {"A"}

Cfg(k) == [rx_buf |-> RxBuf, tx_init |-> MaxWrite, tx_max |-> MaxWrite, nagle |-> FALSE, max_retx |-> MaxRetx,
           inactivity |-> 0, wait_last_ack |-> TRUE, probe_retx |-> 0, link_mtu |-> 1500, limit |-> 1,
           incoming |-> (k = "B"), cid_send |-> 0, peer |-> Other(k), mss0 |-> MaxSeg, v6 |-> FALSE]

Init ==
    /\ \E ia \in Isns, ib \in Isns :
         eps = [k \in Ends |->
                  LET isn == IF k = "A" THEN ia ELSE ib
                      pisn == IF k = "A" THEN ib ELSE ia
                  IN  NewEndpoint(Cfg(k), isn, Nx(pisn, SeqMod - 1), RxBuf, 0)]
    /\ net = EmptyBag /\ drops = 0 /\ dups = 0
    /\ stream = [k \in Ends |-> <<>>]
    /\ declined = FALSE

Pkt(src, type, e, seq, off, len, wnd) ==
    [src |-> src, type |-> type, seq |-> seq, ack |-> e.rnxt, wnd |-> wnd,
     sack |-> HeldOffsets(e, e.rnxt), off |-> off, len |-> len]

InFlight == BagCardinality(net)
Send(p) == net' = net (+) SetToBag({p})

\* any honest window: C04 "never exceeds the free space actually left in the configured receive buffer"
\* (the extremes and one value in between are explored)
HonestWindows(e) == LET f == Max(0, e.cfg.rx_buf - Stored(e)) IN {0, f, Max(0, f - 1)}

---------------------------------------------------------------------------
(* Application *)
Write(k) ==
    /\ k \in Writers /\ eps[k].wr < MaxWrite
    /\ \E n \in {1, MaxWrite - eps[k].wr} :
         eps' = [eps EXCEPT ![k] = AppWrite(@, n, 0)]
    /\ UNCHANGED <<net, drops, dups, stream, declined>>

Read(k) ==
    LET e == eps[k] IN
    /\ e.consumed > e.rd
    /\ \E n \in {1, e.consumed - e.rd} :
         /\ eps' = [eps EXCEPT ![k] = AppRead(@, n, n + 1)]
         /\ stream' = [stream EXCEPT ![k] = @ \o [i \in 1 .. n |-> e.rd + i - 1]]
    /\ UNCHANGED <<net, drops, dups, declined>>

(* Sender: a new segment, any size the contract allows *)
SendNew(k) ==
    LET e == eps[k] IN
    /\ InFlight < NetCap
    /\ e.nextOff < e.wr
    /\ \E len \in 1 .. Min(MaxSeg, e.wr - e.nextOff), w \in HonestWindows(e) :
         LET s == e.nxt
             runs == << <<e.nextOff, len>> >>
             e1 == TxData(e, s, e.nextOff, len, 0)
             e2 == Emitted(e1, e.rnxt, w, 0)
         IN  /\ R_SegContiguous(e, s, runs, <<>>, FALSE, len)
             /\ (Mutant = "nowindow" \/ R_C05_WindowRespected(e1, FALSE))
             /\ (Mutant = "nowindow" \/ R_C05_ZeroWindowSilence(e1, FALSE))
             /\ eps' = [eps EXCEPT ![k] = e2]
             /\ Send(Pkt(k, "data", e, s, e.nextOff, len, w))
    /\ UNCHANGED <<drops, dups, stream, declined>>

(* Sender: retransmission of any unacknowledged segment (untimed: a timeout may fire at any time) *)
Retransmit(k) ==
    LET e == eps[k] IN
    /\ InFlight < NetCap
    /\ \E s \in DOMAIN e.segs, w \in HonestWindows(e) :
         LET g == e.segs[s]
             runs == << <<g.off, g.len>> >>
             e1 == TxData(e, s, g.off, g.len, 0)
             e2 == Emitted(e1, e.rnxt, w, 0)
         IN  /\ R_C06_NeverRetxAcked(e, s)
             /\ R_SegStable(e, s, runs, <<>>, FALSE, g.len)
             /\ R_C06_Cap(e1, s)
             /\ eps' = [eps EXCEPT ![k] = e2]
             /\ Send(Pkt(k, "data", e, s, g.off, g.len, w))
    /\ UNCHANGED <<drops, dups, stream, declined>>

(* Receiver: an acknowledgement, at any time there is something to report *)
SendAck(k) ==
    LET e == eps[k] IN
    /\ InFlight < NetCap
    /\ (e.lastAck < 0 \/ e.rnxt # e.lastAck \/ e.ackImm > 0 \/ e.lastWnd = 0)
    /\ \E w \in HonestWindows(e) :
         /\ (e.lastAck >= 0 /\ e.rnxt = e.lastAck /\ e.ackImm = 0) => (w > 0 /\ e.lastWnd = 0)
         /\ eps' = [eps EXCEPT ![k] = Emitted(e, e.rnxt, w, 0)]
         /\ Send(Pkt(k, "state", e, e.nxt, 0, 0, w))
    /\ UNCHANGED <<drops, dups, stream, declined>>

(* Network delivers a datagram; the endpoint processes it *)
Deliver(p) ==
    LET k == Other(p.src)
        e0 == eps[k]
        e == RecvAck(e0, p.ack, p.wnd, p.sack # {}, p.sack, p.type = "state", 0, 0)
        s == p.seq
        room == Stored(e) + p.len <= e.cfg.rx_buf
    IN  /\ net' = net (-) SetToBag({p})
        /\ UNCHANGED <<drops, dups, stream>>
        /\ declined' = (declined \/ (p.type = "data" /\ s = Nx(e.rnxt, 1) /\ ~room))
        /\ IF p.type # "data" THEN eps' = [eps EXCEPT ![k] = e]
           ELSE IF D(s, e.rnxt) <= 0 /\ Mutant # "redeliver" THEN eps' = [eps EXCEPT ![k] = DispDuplicate(e, 0, 1)]
           ELSE IF D(s, e.rnxt) <= 0 THEN eps' = [eps EXCEPT ![k] = [e EXCEPT !.consumed = @ + p.len]]
           ELSE IF s \in DOMAIN e.held THEN eps' = [eps EXCEPT ![k] = DispDuplicate(e, 0, 1)]
           ELSE IF s = Nx(e.rnxt, 1)
                THEN \* the receiver may decline only when it has no room
                     IF room THEN eps' = [eps EXCEPT ![k] = DispConsumed(e, s, p.len, 0, 1)]
                     ELSE eps' = [eps EXCEPT ![k] = e]
           ELSE IF room /\ D(s, e.rnxt) <= 3 THEN eps' = [eps EXCEPT ![k] = DispOutOfOrder(e, s, p.len, 0, 1)]
           ELSE eps' = [eps EXCEPT ![k] = e]

Drop(p) ==
    /\ drops < DropBudget /\ drops' = drops + 1
    /\ net' = net (-) SetToBag({p})
    /\ UNCHANGED <<eps, dups, stream, declined>>

Dup(p) ==
    /\ dups < DupBudget /\ dups' = dups + 1 /\ InFlight < NetCap
    /\ net' = net (+) SetToBag({p})
    /\ UNCHANGED <<eps, drops, stream, declined>>

Next ==
    \/ \E k \in Ends : Write(k) \/ Read(k) \/ SendNew(k) \/ Retransmit(k) \/ SendAck(k)
    \/ \E p \in BagToSet(net) : Deliver(p) \/ Drop(p) \/ Dup(p)

Spec == Init /\ [][Next]_vars

---------------------------------------------------------------------------
(* The part of an endpoint record that matters here (history / timing fields are hidden from
   the fingerprint). *)
Core(e) == [wr |-> e.wr, rd |-> e.rd, segs |-> e.segs, una |-> e.una, nxt |-> e.nxt, nextOff |-> e.nextOff,
            acked |-> e.acked, flight |-> e.flight, pwnd |-> e.pwnd, rnxt |-> e.rnxt, held |-> e.held,
            consumed |-> e.consumed, lastAck |-> e.lastAck, lastWnd |-> e.lastWnd, rightEdge |-> e.rightEdge,
            ackImm |-> e.ackImm > 0]
View == <<[k \in Ends |-> Core(eps[k])], net, drops, dups, stream, declined>>

---------------------------------------------------------------------------
(* Theorems *)
\* C01 "the bytes an application has read from one end of a stream are a prefix of the bytes the peer application wrote"
ReadIsPrefix ==
    \A k \in Ends :
        /\ Len(stream[k]) = eps[k].rd
        /\ \A i \in 1 .. Len(stream[k]) : stream[k][i] = i - 1
        /\ eps[k].rd <= eps[Other(k)].wr

\* what the receiver stores at sequence number s is the run the sender fixed for s
\* (receiver-side integrity: checked on the held map and the in-order point)
StoredMatchesSent ==
    \A k \in Ends :
        LET e == eps[k] p == eps[Other(k)] IN
        /\ e.consumed <= p.nextOff
        /\ e.consumed >= p.acked

\* C04 "a sender that respects it can never overflow the receiver and its data stays within the configured buffer size"
WithinBuffer == \A k \in Ends : Stored(eps[k]) <= RxBuf

\* NOT a theorem (TLC finds the counterexample in 10 steps): a window-respecting sender can still be
\* turned away, because uTP takes the window from whichever packet it processed last and the network
\* may re-order an older ACK (larger window) behind a newer one.  The receiver protects itself by
\* declining the packet, so integrity and WithinBuffer do not depend on it.  Kept for documentation;
\* it is the reason rule C04.WithinBuffer is conditioned on "inside the advertised right edge".
NeverDeclined == ~declined

\* C04 acknowledgements never overstate: the peer never believes more was acknowledged than was stored
AckNeverOverstates == \A k \in Ends : eps[k].acked <= eps[Other(k)].consumed

\* C05 the sender's outstanding bytes stay within the last window it processed whenever it sends new data
FlightSane == \A k \in Ends : eps[k].flight >= 0 /\ eps[k].flight <= MaxWrite

\* C19 accepted but unacknowledged bytes stay within the transmit buffer
TxBounded == \A k \in Ends : R_C19_TxBounded(eps[k])

\* everything written can be read: used to emit witnesses of completed transfers
Done == \A k \in Writers : eps[k].wr = MaxWrite /\ eps[Other(k)].rd = MaxWrite
=============================================================================
