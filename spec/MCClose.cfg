SPECIFICATION Spec
CONSTANTS
  Writers = {"A", "B"}
  MaxData = 1
  MaxSynAck = 2
  MaxFinTx = 2
  MaxRetx = 1
  LossBudget = 1
  DupBudget = 1
  Variant = "code"
INVARIANTS TypeOK FinSeq FinAfterData NothingAfterFin EofAfterAllData SuccessMeansDelivered SynAckBound NoSilentTruncation
CHECK_DEADLOCK FALSE
