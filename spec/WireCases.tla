----------------------------- MODULE WireCases -----------------------------
(***************************************************************************)
(* Property C11, component level.  Everything here is derived from the     *)
(* grammar of Wire.tla (the parser of record, not modified):               *)
(*                                                                         *)
(*  - what a caller of the parser must observe for a byte string           *)
(*    (Expected): accept/reject of the header parser and of the message    *)
(*    parser, the header fields, the consumed length (= payload boundary), *)
(*    the selective-ACK bits within the first 64 bits, the close reason;   *)
(*  - what the serialiser must produce for a header value the public API   *)
(*    can build (SerAlts) and the round-trip theorem over those values;    *)
(*  - constructors of the structural datagram space enumerated by MCWire.  *)
(*                                                                         *)
(* Clauses of C11 (quoted where they are formalised):                      *)
(*  "Parsing never panics and accepts exactly version-1 packets of a known *)
(*   type whose extension chain fits in the datagram, with payload present *)
(*   exactly for data packets; serialising any header and parsing it back  *)
(*   yields the same header and length, unknown extensions are skipped     *)
(*   without shifting the payload boundary."                               *)
(***************************************************************************)
EXTENDS Wire, FiniteSets

---------------------------------------------------------------------------
(* Header values as the public API presents them.                          *)
(*   ty, cid, ts/td/wnd as <<hi16, lo16>>, seq, ack,                        *)
(*   hs/sack/sl : selective ACK present / its first 64 bits as 8 bytes     *)
(*             (LSB first) / its length in bits (8 * bytes kept, <= 64),   *)
(*   hc/cr   : close reason present / its 16-bit value.                    *)

Pad8(d) == [i \in 1 .. 8 |-> IF i <= Len(d) THEN d[i] ELSE 0]

Fields(h) == [ty |-> h.type, cid |-> h.cid, ts |-> h.ts, td |-> h.tsdiff,
              wnd |-> h.wndhl, seq |-> h.seq, ack |-> h.ack]
ApiFields(a) == [ty |-> a.ty, cid |-> a.cid, ts |-> a.ts, td |-> a.td,
                 wnd |-> a.wnd, seq |-> a.seq, ack |-> a.ack]

(* The selective ACKs of the chain as an implementation that keeps 64 bits *)
(* sees them: first min(len, 8) bytes, zero-padded to 8.  The property     *)
(* does not say which one wins when a chain carries several: a conforming  *)
(* parser reports one of them.                                             *)
Sacks(h) == LET s == SackExts(h) IN [i \in 1 .. Len(s) |-> Pad8(s[i].data)]
(* ... and their lengths in bits, as far as 64 bits reach *)
Min8(n) == IF n < 8 THEN n ELSE 8
SackLens(h) == LET s == SackExts(h) IN [i \in 1 .. Len(s) |-> Min8(Len(s[i].data)) * 8]

(* Close reason (extension 3, libtorrent): four bytes, the value in the    *)
(* low 16 bits.  Only a 4-byte extension 3 can be produced by the          *)
(* serialiser, so only that form is *required* to be understood; any other *)
(* length is, to this grammar, an unknown extension.                       *)
CrExts(h) == SelectSeq(h.exts, LAMBDA e : e.id = EXT_CLOSE_REASON)
CrLen4(h) == SelectSeq(CrExts(h), LAMBDA e : Len(e.data) = 4)
CrVals(h) == LET s == CrLen4(h) IN [i \in 1 .. Len(s) |-> s[i].data[3] * 256 + s[i].data[4]]
(* strict: every extension 3 of the chain is the canonical form (4 bytes, upper half zero) *)
CrStrict(h) == LET s == CrExts(h) IN
    \A i \in 1 .. Len(s) : Len(s[i].data) = 4 /\ s[i].data[1] = 0 /\ s[i].data[2] = 0

IsKnown(e) == e.id = EXT_SACK \/ (e.id = EXT_CLOSE_REASON /\ Len(e.data) = 4)
Unknowns(h) == SelectSeq(h.exts, LAMBDA e : ~IsKnown(e))

Message(b) == ParseMessage(b, Len(b))
Payload(b, h) == SubSeq(b, h.hlen + 1, Len(b))

(* The answer a caller must get for the byte string b.                     *)
Expected(b) ==
    LET h == ParseHeader(b)
        m == Message(b)
    IN  IF ~h.ok THEN [hok |-> FALSE, mok |-> FALSE, why |-> h.why]
        ELSE [hok |-> TRUE, mok |-> m.ok, why |-> IF m.ok THEN "" ELSE m.why,
              f |-> Fields(h), hlen |-> h.hlen, plen |-> Len(b) - h.hlen,
              sacks |-> Sacks(h),
              cr3 |-> Len(CrExts(h)), crv |-> CrVals(h), crs |-> CrStrict(h),
              unk |-> Len(Unknowns(h)), next |-> Len(h.exts)]

---------------------------------------------------------------------------
(* Serialisation of an API header value.  BEP-29 fixes the layout; the     *)
(* order of the two extensions is not dictated by the property, so both    *)
(* orders are conforming.                                                  *)
(* a selective ACK of sl bits goes out as its first sl / 8 bytes (the API builds 64 bits: 8 bytes) *)
SackExt(a) == IF a.hs THEN << [id |-> EXT_SACK, data |-> SubSeq(a.sack, 1, a.sl \div 8)] >> ELSE << >>
CrExt(a)   == IF a.hc THEN << [id |-> EXT_CLOSE_REASON, data |-> <<0, 0, Hi(a.cr), Lo(a.cr)>>] >> ELSE << >>
SpecHdr(a, exts) == [type |-> a.ty, cid |-> a.cid, ts |-> a.ts, tsdiff |-> a.td, wndhl |-> a.wnd,
                     seq |-> a.seq, ack |-> a.ack, exts |-> exts]
SerAlts(a) == { SerializeHdr(SpecHdr(a, SackExt(a) \o CrExt(a))),
                SerializeHdr(SpecHdr(a, CrExt(a) \o SackExt(a))) }

(* Does the parse h of some bytes present the API header value a?          *)
Presents(h, a) ==
    /\ h.ok
    /\ Fields(h) = ApiFields(a)
    /\ Sacks(h) = (IF a.hs THEN << Pad8(a.sack) >> ELSE << >>)
    /\ SackLens(h) = (IF a.hs THEN << a.sl >> ELSE << >>)
    /\ CrVals(h) = (IF a.hc THEN << a.cr >> ELSE << >>)
    /\ Unknowns(h) = << >>

(* "serialising any header and parsing it back yields the same header and length" *)
RoundTripSpec(a) ==
    \A b \in SerAlts(a) : LET h == ParseHeader(b) IN Presents(h, a) /\ h.hlen = Len(b)

(* The API header value presented by an accepted parse whose extensions    *)
(* are unambiguous (at most one SACK, at most one close reason).           *)
ApiOf(h) ==
    LET s == Sacks(h)  c == CrVals(h)
    IN  [ty |-> h.type, cid |-> h.cid, ts |-> h.ts, td |-> h.tsdiff, wnd |-> h.wndhl,
         seq |-> h.seq, ack |-> h.ack,
         hs |-> s # << >>, sack |-> IF s = << >> THEN << >> ELSE s[Len(s)],
         sl |-> IF s = << >> THEN 0 ELSE SackLens(h)[Len(s)],
         hc |-> c # << >>, cr |-> IF c = << >> THEN 0 ELSE c[Len(c)]]

---------------------------------------------------------------------------
(* "unknown extensions are skipped without shifting the payload boundary": *)
(* removing the unknown extensions from the chain changes neither the      *)
(* fields, nor the known extensions, nor the payload, nor the verdict of   *)
(* the message parser; the consumed length shrinks by exactly their size.  *)
RECURSIVE ExtSize(_, _)
ExtSize(exts, i) == IF i > Len(exts) THEN 0 ELSE 2 + Len(exts[i].data) + ExtSize(exts, i + 1)

StripUnknown(b, h) ==
    LET known == SelectSeq(h.exts, IsKnown)
    IN  << b[1], IF known = << >> THEN 0 ELSE known[1].id >> \o SubSeq(b, 3, HEADER_LEN)
        \o SerExts(known, 1) \o Payload(b, h)

UnknownSkippedSpec(b) ==
    LET h == ParseHeader(b) IN
    h.ok =>
        LET b2 == StripUnknown(b, h)
            h2 == ParseHeader(b2)
        IN  /\ h2.ok
            /\ Fields(h2) = Fields(h)
            /\ Sacks(h2) = Sacks(h) /\ CrVals(h2) = CrVals(h)
            /\ h.hlen = h2.hlen + ExtSize(Unknowns(h), 1)
            /\ Payload(b2, h2) = Payload(b, h)
            /\ Message(b2).ok = Message(b).ok

(* Sanity of the grammar itself (what "fits in the datagram" means).       *)
HeaderSane(b) ==
    LET h == ParseHeader(b) IN
    IF h.ok THEN /\ Len(b) >= HEADER_LEN /\ b[1] % 16 = 1 /\ b[1] \div 16 <= ST_SYN
                 /\ h.hlen = HEADER_LEN + ExtSize(h.exts, 1)
                 /\ h.hlen <= Len(b)
    ELSE \/ Len(b) < HEADER_LEN
         \/ b[1] % 16 # 1
         \/ b[1] \div 16 > ST_SYN
         \/ ~Exts(b, b[2], HEADER_LEN + 1, << >>).ok

(* "with payload present exactly for data packets" *)
MessageSane(b) ==
    LET h == ParseHeader(b) IN
    h.ok => (Message(b).ok <=> ((h.type = ST_DATA) <=> (Len(b) > h.hlen)))

---------------------------------------------------------------------------
(* Constructors of the structural space.                                   *)
(* A field vector is <<cid, tsHi, tsLo, tdHi, tdLo, wndHi, wndLo, seq, ack>>. *)
DefF9 == <<4660, 22136, 39612, 57072, 4077, 16, 52137, 34661, 17185>>
Bnd16 == {0, 1, 255, 256, 65535}

F9Bytes(f) == B16(f[1]) \o B16(f[2]) \o B16(f[3]) \o B16(f[4]) \o B16(f[5])
              \o B16(f[6]) \o B16(f[7]) \o B16(f[8]) \o B16(f[9])

(* data bytes of the k-th extension of a chain: non-zero, position dependent; *)
(* a 4-byte extension 3 gets the canonical close-reason form               *)
Fill(id, n, k, salt) ==
    IF id = EXT_CLOSE_REASON /\ n = 4 THEN <<0, 0, (k + salt) % 2, (k * 16 + salt) % 256>>
    ELSE [j \in 1 .. n |-> (id * 16 + k * 64 + j * 37 + salt * 11 + 5) % 256]

NoOverride == 999
(* chain: sequence of <<id, len>>; lastNext: the `next` byte of the last    *)
(* extension (0 ends the chain); lastDecl: declared length written for the *)
(* last extension instead of its real length (NoOverride keeps it)         *)
RECURSIVE ChainBytes(_, _, _, _, _)
ChainBytes(chain, i, lastNext, lastDecl, salt) ==
    IF i > Len(chain) THEN << >>
    ELSE LET nxt  == IF i < Len(chain) THEN chain[i + 1][1] ELSE lastNext
             decl == IF i = Len(chain) /\ lastDecl # NoOverride THEN lastDecl ELSE chain[i][2]
         IN  <<nxt, decl>> \o Fill(chain[i][1], chain[i][2], i, salt)
             \o ChainBytes(chain, i + 1, lastNext, lastDecl, salt)

Datagram(first, f9, chain, lastNext, lastDecl, payload, salt) ==
    << first, IF chain = << >> THEN lastNext ELSE chain[1][1] >> \o F9Bytes(f9)
    \o ChainBytes(chain, 1, lastNext, lastDecl, salt) \o payload

Prefixes(b) == { SubSeq(b, 1, n) : n \in 0 .. Len(b) }

(* field vectors: each field over the boundary set with the others at distinct defaults, *)
(* all fields equal, and (thorough) every pair of fields over the boundary set           *)
F9Single == { [DefF9 EXCEPT ![k] = v] : k \in 1 .. 9, v \in Bnd16 }
F9Same   == { [k \in 1 .. 9 |-> v] : v \in Bnd16 }
F9Pairs  == { [DefF9 EXCEPT ![k[1]] = v[1], ![k[2]] = v[2]] :
                k \in { p \in (1 .. 9) \X (1 .. 9) : p[1] < p[2] }, v \in Bnd16 \X Bnd16 }

ApiHdr(ty, f, hs, sack, hc, cr) ==
    [ty |-> ty, cid |-> f[1], ts |-> <<f[2], f[3]>>, td |-> <<f[4], f[5]>>, wnd |-> <<f[6], f[7]>>,
     seq |-> f[8], ack |-> f[9], hs |-> hs, sack |-> sack, sl |-> IF hs THEN 64 ELSE 0, hc |-> hc, cr |-> cr]

---------------------------------------------------------------------------
(* Unit tests of the operators (DESIGN 3.6).  The first is the datagram of *)
(* /repo/test/resources/packet_fin_with_extension.bin and the header the   *)
(* repository's own test expects.                                          *)
FinWithExt == <<17, 3, 120, 76, 136, 176, 150, 76, 117, 68, 154, 129, 0, 16, 0, 0, 213, 133, 212, 125,
                0, 4, 0, 0, 0, 15>>
ASSUME LET h == ParseHeader(FinWithExt) IN
       /\ h.ok /\ h.type = ST_FIN /\ h.cid = 30796 /\ h.wndhl = <<16, 0>>
       /\ h.ts = <<34992, 38476>> /\ h.tsdiff = <<30020, 39553>>
       /\ h.seq = 54661 /\ h.ack = 54397 /\ h.hlen = 26
       /\ CrVals(h) = <<15>> /\ Sacks(h) = << >> /\ Unknowns(h) = << >>
       /\ Message(FinWithExt).ok
       /\ FinWithExt \in SerAlts(ApiOf(h))
ASSUME ~ParseHeader(SubSeq(FinWithExt, 1, 25)).ok
ASSUME ~Message(FinWithExt \o <<0>>).ok
ASSUME LET b == Datagram(33, DefF9, << <<1, 1>>, <<2, 3>> >>, 0, NoOverride, << >>, 0)
           h == ParseHeader(b)
       IN  h.ok /\ h.hlen = 28 /\ Len(b) = 28 /\ Len(Unknowns(h)) = 1 /\ Sacks(h) = << Pad8(<<b[23]>>) >>
           /\ Fields(h) = ApiFields(ApiHdr(2, DefF9, FALSE, << >>, FALSE, 0))
ASSUME ~ParseHeader(Datagram(33, DefF9, << <<1, 4>> >>, 0, 5, << >>, 0)).ok    \* overrun by one
ASSUME  ParseHeader(Datagram(33, DefF9, << <<1, 4>> >>, 0, 5, <<9>>, 0)).hlen = 27 \* steals the payload byte
=============================================================================
