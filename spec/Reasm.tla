------------------------------- MODULE Reasm -------------------------------
(***************************************************************************)
(* The receiver's reassembly machinery (src/stream_rx.rs: OutOfOrderQueue, *)
(* UserRx, the read half UtpStreamReadHalf) as an abstract component,      *)
(* serving the receive-side clauses of C04, C01 and C03.                   *)
(*                                                                         *)
(*  C04 "Every acknowledgement number equals the highest sequence number   *)
(*       received and stored in order; selective-ACK bits are set exactly  *)
(*       for packets it holds out of order; data once acknowledged is      *)
(*       never discarded before being handed to the reader; the advertised *)
(*       receive window never exceeds the free space actually left in the  *)
(*       configured receive buffer, so a sender that respects it can never *)
(*       overflow the receiver"                                            *)
(*  C01 "bytes read are a prefix of bytes written: nothing lost,           *)
(*       duplicated, reordered or altered" (receive half)                  *)
(*  C03 "a reader sees end-of-stream only after every byte that preceded   *)
(*       the peer's FIN ...; when a connection is aborted every pending    *)
(*       and later read resolves with an error instead of hanging"         *)
(*                                                                         *)
(* Sequence numbers are the naturals 1, 2, 3, ... (the dispatcher maps the *)
(* wire's 16-bit numbers to offset = seq_nr - (last_consumed + 1); that    *)
(* arithmetic is C09's).  A payload is abstracted to (sequence number,     *)
(* length): its byte at position p is the PAIR (s, p), written on the wire *)
(* as Enc(s, p), so that the stream a reader gets is a sequence of pairs   *)
(* and loss, duplication, reordering and alteration are all visible.       *)
(*                                                                         *)
(* Everything is a pure operator on a state record, so that the bounded    *)
(* model (MCReasm) and the trace specification (ReasmTrace) apply the SAME *)
(* definitions.  The state:                                                *)
(*   cap, maxp, nslots  configuration: receive buffer size in bytes, the   *)
(*                 largest expected payload, number of reassembly slots    *)
(*   sl            the reassembly slots that are occupied: a set of        *)
(*                 [s, fin, len] (sequence number, is it an ST_FIN, bytes) *)
(*   base          sequence numbers handed to the reader's queue so far    *)
(*   ff            "filled front": base+1 .. base+ff are held, in order,   *)
(*                 acknowledged, and not yet handed to the reader's queue; *)
(*                 base+ff+1 is the FIRST HOLE                             *)
(*   pk, pb        occupied slots / bytes in them  ("parked")              *)
(*   uq, ub        the reader's queue (items data / eof / err) and the     *)
(*                 payload bytes in it                                     *)
(*   cur           the message the reader is in the middle of              *)
(*   eof           the reader has reached the end-of-stream marker         *)
(*   rdrop, closed the read half was dropped; the connection is gone       *)
(*   wbase         free space of the reader's queue when it was last       *)
(*                 looked at (Flush); the advertised window derives from it*)
(*   rwait, dreg   a waker of the reader / of the dispatcher is registered *)
(*   nerr          errors enqueued so far                                  *)
(*   ghosts: cbytes bytes acknowledged (consumed in order) so far, rbytes  *)
(*           bytes returned by reads so far, over: the queue was filled    *)
(*           beyond cap by FlushAllBeforeClose, fall: FlushAllBeforeClose  *)
(*           was called (the connection is going away), resp: every        *)
(*           arrival so far fitted the window advertised before it         *)
(***************************************************************************)
EXTENDS Integers, Sequences, FiniteSets

Max(a, b) == IF a >= b THEN a ELSE b
Min(a, b) == IF a <= b THEN a ELSE b

(* "selective-ACK bits": C04 speaks of bits i < 64 *)
SackWidth == 64

(* the byte at position p of the payload with sequence number s *)
EncMod    == 251
EncStride == 16
Enc(s, p) == (EncStride * s + p) % EncMod

NoCur == [s |-> 0, off |-> 0, len |-> 0]
Big   == 1073741824     \* 2^30: "no limit"

StNew(cap, maxp, nslots) ==
    [cap |-> cap, maxp |-> maxp, nslots |-> nslots,
     sl |-> {}, base |-> 0, ff |-> 0, pk |-> 0, pb |-> 0,
     uq |-> <<>>, ub |-> 0, cur |-> NoCur, eof |-> FALSE,
     rdrop |-> FALSE, closed |-> FALSE, wbase |-> cap, rwait |-> FALSE, dreg |-> FALSE,
     nerr |-> 0, cbytes |-> 0, rbytes |-> 0, over |-> FALSE, fall |-> FALSE, resp |-> TRUE]

---------------------------------------------------------------------------
(* Views of the state.                                                     *)
Occ(sl, s)  == \E x \in sl : x.s = s
Item(sl, s) == CHOOSE x \in sl : x.s = s

Hole(st) == st.base + st.ff + 1            \* the first sequence number not held in order

(* the slot for `offset` exists: slots are numbered from base+1, there are nslots of them *)
Room(st, o) == st.ff + o < st.nslots
Full(st)    == st.pk = st.nslots

RECURSIVE RunEnd(_, _)
(* last sequence number of the contiguous occupied run that starts at s (s - 1: s is free) *)
RunEnd(sl, s) == IF Occ(sl, s) THEN RunEnd(sl, s + 1) ELSE s - 1

RECURSIVE SumLen(_, _, _)
SumLen(sl, a, b) == IF a > b THEN 0 ELSE Item(sl, a).len + SumLen(sl, a + 1, b)

RECURSIVE ItemsOf(_, _, _)
ItemsOf(sl, a, b) == IF a > b THEN <<>> ELSE <<Item(sl, a)>> \o ItemsOf(sl, a + 1, b)

FrontBytes(st) == SumLen(st.sl, st.base + 1, st.base + st.ff)
CurRest(st)    == st.cur.len - st.cur.off

(* "the advertised receive window": what remaining_rx_window() answers *)
Window(st) == IF st.rdrop THEN 0 ELSE Max(0, st.wbase - st.pb)

(* "selective-ACK bits are set exactly for packets it holds out of order": bit i stands for the
   sequence number i + 1 behind the first hole (first hole + 1 + i), i < 64 *)
SackSome(st) == \E x \in st.sl : x.s > Hole(st)
SackBits(st) == { x.s - Hole(st) - 1 : x \in { y \in st.sl : y.s > Hole(st) /\ y.s - Hole(st) - 1 < SackWidth } }

(* is anything held out of order (assembler_empty() is its negation) *)
AssemblerEmpty(st) == st.ff = st.pk

---------------------------------------------------------------------------
(* The operations.  Each returns an outcome record                          *)
(*   [st, res, n, bytes, errid, pieces, taken, rwake, dwake, stop]          *)
(* st the state after; res / n / bytes / errid the call's result; pieces    *)
(* the bytes a read returns as <<s, off, count>> triples; taken the items   *)
(* an arrival made in-order; rwake / dwake whether the reader's / the       *)
(* dispatcher's registered waker was woken.                                 *)
Outcome(st, res, n, bytes) ==
    [st |-> st, res |-> res, n |-> n, bytes |-> bytes, errid |-> 0, pieces |-> <<>>, taken |-> <<>>,
     rwake |-> FALSE, dwake |-> FALSE, stop |-> ""]

RECURSIVE FlushLoop(_, _, _, _)
(* hand the in-order parked messages to the reader's queue, oldest first, while the next one fits
   into `free` bytes; nothing is handed to a reader that is gone *)
FlushLoop(st, free, moved, movedp) ==
    IF st.ff = 0 \/ st.rdrop THEN [st |-> st, free |-> free, moved |-> moved, movedp |-> movedp]
    ELSE LET it == Item(st.sl, st.base + 1) IN
         IF it.len > free THEN [st |-> st, free |-> free, moved |-> moved, movedp |-> movedp]
         ELSE FlushLoop([st EXCEPT !.sl = { y \in @ : y # it }, !.base = @ + 1, !.ff = @ - 1,
                                   !.pk = @ - 1, !.pb = @ - it.len,
                                   !.uq = Append(@, [k |-> IF it.fin THEN "eof" ELSE "data", s |-> it.s, len |-> it.len]),
                                   !.ub = @ + it.len],
                        free - it.len, moved + it.len, movedp + 1)

(* UserRx::flush: returns the bytes handed over.  The dispatcher asks to be woken by the next read
   when even after handing over everything less than one payload of room would be left.  A reader
   that waits is woken when anything was handed over, the 0-byte end-of-stream marker included
   (C02 "blocked readers/writers are always woken when their condition changes"; the pinned code
   woke only for bytes - repaired in /repo by "fix: wake a waiting reader when end-of-stream
   becomes readable"). *)
Flush(st) ==
    LET free0 == Max(0, st.cap - st.ub)
        want  == Max(0, free0 - FrontBytes(st)) < st.maxp
        r     == FlushLoop(st, free0, 0, 0)
        wake  == st.rwait /\ r.movedp > 0
        st1   == [r.st EXCEPT !.wbase = r.free, !.dreg = @ \/ want, !.rwait = @ /\ ~wake]
    IN  [Outcome(st1, "ok", r.moved, 0) EXCEPT !.rwake = wake]

(* UserRx::flush_all_before_close: "hands all in-order parked messages to the reader", whatever
   the capacity of its queue (the memory is held already) *)
FlushAll(st) ==
    LET r    == FlushLoop(st, Big, 0, 0)
        wake == st.rwait /\ r.movedp > 0
        st1  == [r.st EXCEPT !.over = @ \/ r.st.ub > st.cap, !.fall = TRUE, !.rwait = @ /\ ~wake]
    IN  [Outcome(st1, "ok", 0, 0) EXCEPT !.rwake = wake]

(* UserRx::add_remove(msg, offset): the packet with sequence number (first hole + offset).
     no slot for it (offset beyond the slots, or every slot taken)  -> Unavailable
     the slot is taken                                              -> AlreadyPresent
     offset > 0                                                     -> Consumed{0, 0}, parked
     offset = 0                                                     -> Consumed{1 + the contiguous run
                                                                        behind it, their bytes}
   When that took the last free slot the in-order messages are flushed right away. *)
Arrive(st, o, fin, len0) ==
    LET s   == Hole(st) + o
        len == IF fin THEN 0 ELSE len0
    IN  IF Full(st) \/ ~Room(st, o) THEN Outcome(st, "unavailable", 0, 0)
        ELSE IF Occ(st.sl, s) THEN Outcome(st, "present", 0, 0)
        ELSE LET sl1 == { y \in st.sl \cup {[s |-> s, fin |-> fin, len |-> len]} : TRUE }   \* (an explicit set for TLC)
                 n   == IF o = 0 THEN RunEnd(sl1, s) - s + 1 ELSE 0
                 by  == SumLen(sl1, s, s + n - 1)
                 st1 == [st EXCEPT !.sl = sl1, !.pk = @ + 1, !.pb = @ + len, !.ff = @ + n,
                                   !.cbytes = @ + by, !.resp = @ /\ len <= Window(st)]
                 f   == IF n > 0 /\ Full(st1) THEN Flush(st1) ELSE Outcome(st1, "ok", 0, 0)
             IN  [Outcome(f.st, "consumed", n, by) EXCEPT !.taken = ItemsOf(sl1, s, s + n - 1), !.rwake = f.rwake]

RECURSIVE ReadLoop(_, _, _, _)
(* poll_read with room for `space` more bytes; n bytes in `pieces` copied so far *)
ReadLoop(st, space, n, pieces) ==
    LET done(s1, why, e) == [st |-> s1, n |-> n, pieces |-> pieces, stop |-> why, errid |-> e] IN
    IF space = 0 THEN done(st, "full", 0)
    ELSE IF st.cur.len > 0 THEN
        LET m  == Min(space, CurRest(st))
            c1 == IF st.cur.off + m = st.cur.len THEN NoCur ELSE [st.cur EXCEPT !.off = @ + m]
        IN  ReadLoop([st EXCEPT !.cur = c1, !.rbytes = @ + m], space - m, n + m,
                     Append(pieces, <<st.cur.s, st.cur.off, m>>))
    ELSE IF st.eof THEN done(st, "eof", 0)
    ELSE IF st.uq = <<>> THEN
        IF st.closed THEN done(st, "dead", 0) ELSE done([st EXCEPT !.rwait = TRUE], "empty", 0)
    ELSE LET h == Head(st.uq) IN
        CASE h.k = "eof"  -> done([st EXCEPT !.uq = Tail(@), !.eof = TRUE], "eof", 0)
          [] h.k = "data" -> ReadLoop([st EXCEPT !.uq = Tail(@), !.ub = @ - h.len,
                                                  !.cur = [s |-> h.s, off |-> 0, len |-> h.len]], space, n, pieces)
          [] h.k = "err"  -> IF n > 0 THEN done(st, "error-next", 0)             \* "the bytes already copied first,
                             ELSE done([st EXCEPT !.uq = Tail(@)], "error", h.s)  \*  and the error on the next call"

DeadId == -1     \* errid of "dispatcher dead"

(* UtpStreamReadHalf::poll_read with a buffer of buflen >= 1 bytes *)
Read(st, buflen) ==
    LET r == ReadLoop(st, buflen, 0, <<>>) IN
    IF r.n > 0 THEN
        [Outcome([r.st EXCEPT !.dreg = FALSE], "ok", r.n, 0) EXCEPT !.pieces = r.pieces, !.dwake = st.dreg, !.stop = r.stop]
    ELSE [Outcome(r.st, CASE r.stop = "eof" -> "eof" [] r.stop = "error" -> "err" [] r.stop = "dead" -> "err"
                             [] OTHER -> "pending", 0, 0)
          EXCEPT !.errid = IF r.stop = "dead" THEN DeadId ELSE r.errid, !.stop = r.stop]

(* the read half is dropped: the dispatcher is told *)
DropReader(st) == [Outcome([st EXCEPT !.rdrop = TRUE, !.dreg = FALSE], "ok", 0, 0) EXCEPT !.dwake = st.dreg]

(* UserRx::enqueue_error: the error goes behind everything queued; a waiting reader is woken *)
EnqueueError(st) ==
    [Outcome([st EXCEPT !.uq = Append(@, [k |-> "err", s |-> st.nerr + 1, len |-> 0]), !.nerr = @ + 1, !.rwait = FALSE],
             "ok", 0, 0) EXCEPT !.rwake = st.rwait]

(* UserRx::mark_vsock_closed: a waiting reader is woken (once) *)
MarkClosed(st) ==
    IF st.closed THEN Outcome(st, "ok", 0, 0)
    ELSE [Outcome([st EXCEPT !.closed = TRUE, !.rwait = FALSE], "ok", 0, 0) EXCEPT !.rwake = st.rwait]

(* UserRx::register_dispatcher_waker *)
RegWaker(st) == Outcome([st EXCEPT !.dreg = TRUE], "ok", 0, 0)

---------------------------------------------------------------------------
(* What a read is about to meet.                                           *)
RECURSIVE DataPrefix(_)
(* the payload items at the head of the queue, up to the first marker *)
DataPrefix(q) == IF q = <<>> \/ Head(q).k # "data" THEN <<>> ELSE <<Head(q)>> \o DataPrefix(Tail(q))

RECURSIVE QBytes(_)
QBytes(q) == IF q = <<>> THEN 0 ELSE Head(q).len + QBytes(Tail(q))

(* bytes a reader can get before it meets a marker or the end of the queue *)
Avail(st) == IF st.eof THEN CurRest(st) ELSE CurRest(st) + QBytes(DataPrefix(st.uq))

(* what follows those bytes: "eof", "err", "dead", "empty" *)
NextMarker(st) ==
    IF st.eof THEN "eof"
    ELSE LET k == Len(DataPrefix(st.uq)) IN
         IF k < Len(st.uq) THEN st.uq[k + 1].k
         ELSE IF st.closed THEN "dead" ELSE "empty"
NextErrId(st) == LET k == Len(DataPrefix(st.uq)) IN IF NextMarker(st) = "err" THEN st.uq[k + 1].s ELSE 0

RECURSIVE TakePieces(_, _)
(* the first n bytes of a sequence of <<s, off, len>> triples, as triples *)
TakePieces(ps, n) ==
    IF n = 0 \/ ps = <<>> THEN <<>>
    ELSE LET p == Head(ps) m == Min(n, p[3]) IN <<<<p[1], p[2], m>>>> \o TakePieces(Tail(ps), n - m)

(* the next n bytes of the stream as the state holds it (fewer if it holds fewer) *)
Upcoming(st, n) ==
    LET c  == IF st.cur.len > 0 THEN <<<<st.cur.s, st.cur.off, CurRest(st)>>>> ELSE <<>>
        dp == IF st.eof THEN <<>> ELSE DataPrefix(st.uq)
        q  == [i \in 1..Len(dp) |-> <<dp[i].s, 0, dp[i].len>>]
    IN  TakePieces(c \o q, n)

RECURSIVE Canon(_, _)
(* pieces as maximal runs <<first byte value, count>> of values that go up by one (mod EncMod): the
   canonical run-length form of the byte string (the driver compresses what it read the same way) *)
Canon(ps, acc) ==
    IF ps = <<>> THEN acc
    ELSE LET p == Head(ps)
             v == Enc(p[1], p[2])
             k == Len(acc)
         IN  IF k > 0 /\ (acc[k][1] + acc[k][2]) % EncMod = v
             THEN Canon(Tail(ps), [acc EXCEPT ![k] = <<@[1], @[2] + p[3]>>])
             ELSE Canon(Tail(ps), Append(acc, <<v, p[3]>>))
Runs(ps) == Canon(ps, <<>>)

RECURSIVE RunsLen(_)
RunsLen(rs) == IF rs = <<>> THEN 0 ELSE Head(rs)[2] + RunsLen(Tail(rs))

---------------------------------------------------------------------------
(* Invariants of the state (checked by MCReasm in every reachable state).  *)

RECURSIVE SetLen(_)
SetLen(T) == IF T = {} THEN 0 ELSE LET x == CHOOSE y \in T : TRUE IN x.len + SetLen(T \ {x})

(* bookkeeping: the counters are what they count; the in-order front is held; the first hole is a hole;
   every occupied slot is one of the nslots slots *)
Wellformed(st) ==
    /\ st.pk = Cardinality(st.sl)
    /\ st.pk = Cardinality({ x.s : x \in st.sl })
    /\ st.pb = SetLen(st.sl)
    /\ st.ub = QBytes(st.uq)
    /\ \A s \in (st.base + 1)..(st.base + st.ff) : Occ(st.sl, s)
    /\ ~Occ(st.sl, Hole(st))
    /\ \A x \in st.sl : x.s > st.base /\ x.s <= st.base + st.nslots
    /\ st.ff <= st.pk /\ st.pk <= st.nslots
    /\ st.cur.off < st.cur.len \/ st.cur = NoCur

(* C01 "nothing lost, duplicated, reordered": what the reader has in front of it -- the message it is in,
   the queue, the in-order parked front -- carries consecutive sequence numbers ending at base + ff *)
ChainInOrder(st) ==
    LET c  == IF st.cur.len > 0 THEN <<st.cur.s>> ELSE <<>>
        q  == SelectSeq(st.uq, LAMBDA it : it.k # "err")
        ch == c \o [i \in 1..Len(q) |-> q[i].s]
    IN  /\ \A i \in 1..(Len(ch) - 1) : ch[i + 1] = ch[i] + 1
        /\ (ch # <<>> => ch[Len(ch)] = st.base)

(* C04 "the advertised receive window never exceeds the free space actually left in the configured receive
   buffer" -- while the connection lives (FlushAllBeforeClose is its last act); 0 for a reader that is gone *)
WindowHonest(st) ==
    /\ ~st.fall => Window(st) <= Max(0, st.cap - (st.ub + st.pb))
    /\ st.rdrop => Window(st) = 0

(* C04 "so a sender that respects it can never overflow the receiver [and its data stays within the
   configured buffer size]" *)
NeverOverflows(st) == st.resp /\ ~st.fall => st.ub + st.pb <= st.cap

(* "bytes in the user queue never exceed capacity except through flush_all_before_close" *)
UserQueueBounded(st) == st.ub <= st.cap \/ st.over

(* C04 "data once acknowledged is never discarded before being handed to the reader": every acknowledged
   byte has been read or is still held, in order, on the reader's side *)
NoDiscard(st) == st.cbytes = st.rbytes + CurRest(st) + st.ub + FrontBytes(st)

(* no lost wake-up: a reader that waits has nothing to get *)
NoLostWakeup(st) ==
    st.rwait /\ ~st.rdrop => (Avail(st) = 0 /\ NextMarker(st) = "empty") \/ st.eof

StateInv(st) ==
    /\ Wellformed(st) /\ ChainInOrder(st) /\ WindowHonest(st) /\ NeverOverflows(st)
    /\ UserQueueBounded(st) /\ NoDiscard(st) /\ NoLostWakeup(st)

---------------------------------------------------------------------------
(* The clauses as rules over ONE call: st the state before, c the call      *)
(* [op, a, b, fin], x the specification's outcome (x.st the state after),   *)
(* r the answer under judgement with the fields                             *)
(*   res n bytes errid runs  rwake dwake                                    *)
(*   ub pb pk win aempty sack_some sack rdrop      (observed after the call)*)
(* and g = [cons, read] the acknowledged / read byte totals according to    *)
(* the answers so far, this one included.  In MCReasm r is the              *)
(* specification's own answer (the rules are then consequences of the       *)
(* operators: checked), in ReasmTrace r is a recorded line of the real code.*)
(* A rule is <<name, applicable, holds>>.                                   *)

(* the answer the specification expects (sack: the SET of bits set) *)
B2I(b) == IF b THEN 1 ELSE 0
Expected(x) ==
    [res |-> x.res, n |-> x.n, bytes |-> x.bytes, errid |-> x.errid, runs |-> Runs(x.pieces),
     rwake |-> B2I(x.rwake), dwake |-> B2I(x.dwake),
     ub |-> x.st.ub, pb |-> x.st.pb, pk |-> x.st.pk, win |-> Window(x.st), aempty |-> AssemblerEmpty(x.st),
     sack_some |-> SackSome(x.st), sack |-> SackBits(x.st), rdrop |-> x.st.rdrop]

ObsFields == {"res", "n", "bytes", "errid", "runs", "rwake", "dwake", "ub", "pb", "pk", "win", "aempty",
              "sack_some", "sack", "rdrop"}
(* r: an answer whose sack is a SET as well (ReasmTrace converts the recorded list) *)
Agrees(r, e) == r = e
Differing(r, e) == { f \in ObsFields : r[f] # e[f] }

SeqToSet(s) == { s[i] : i \in 1..Len(s) }

ArriveRules(st, c, x, r) ==
    LET o     == c.a
        len   == IF c.fin THEN 0 ELSE c.b
        s     == Hole(st) + o
        room  == Room(st, o) /\ ~Full(st)
        free  == room /\ ~Occ(st.sl, s)
        last  == RunEnd(st.sl, s + 1)               \* the contiguous run behind it ends here
        run   == last - s
    IN <<
    \* "add_remove(offset) on an empty slot at offset 0 returns Consumed{sequence_numbers = 1 + length of
    \*  the contiguous run behind it, bytes = their payload}"  (the acknowledgement number then "equals the
    \*  highest sequence number received and stored in order")
    <<"C04.ConsumeExact", free /\ o = 0,
        r.res = "consumed" /\ r.n = 1 + run /\ r.bytes = len + SumLen(st.sl, s + 1, last)>>,
    <<"C04.ConsumeExact.run", free /\ o = 0 /\ run > 0, TRUE>>,
    <<"C04.ConsumeExact.fin", free /\ o = 0 /\ c.fin, TRUE>>,
    \* "on an empty slot at offset > 0 returns Consumed{0, 0} and parks it"
    <<"C04.ParkExact", free /\ o > 0,
        r.res = "consumed" /\ r.n = 0 /\ r.bytes = 0 /\ r.pk = st.pk + 1 /\ r.pb = st.pb + len /\ r.ub = st.ub>>,
    \* "an occupied slot returns AlreadyPresent" (and the copy held is kept)
    <<"C04.AlreadyPresent", room /\ ~free,
        r.res = "present" /\ r.pk = st.pk /\ r.pb = st.pb /\ r.ub = st.ub>>,
    \* "an offset beyond the slot capacity or a full queue returns Unavailable" -- and nothing else does
    <<"C04.UnavailableOnlyWithoutRoom", ~room \/ r.res = "unavailable",
        ~room /\ r.res = "unavailable" /\ r.pk = st.pk /\ r.pb = st.pb /\ r.ub = st.ub>>,
    <<"C04.UnavailableOnlyWithoutRoom.full", Full(st), TRUE>>,
    <<"C04.UnavailableOnlyWithoutRoom.beyond", ~Room(st, o) /\ ~Full(st), TRUE>> >>

ReadRules(st, c, x, r) ==
    LET av    == Avail(st)
        mk    == NextMarker(st)
        buf   == c.a
        want  == Upcoming(st, r.n)
    IN <<
    \* C01 "the byte sequence returned by poll_read is the in-order concatenation of the payloads of
    \*      sequence numbers 1, 2, 3, ..." -- the bytes of this read are the next bytes of that sequence,
    \*      unaltered, "including reads that end in the middle of a message"
    <<"C01.ReadInOrder", r.res = "ok" /\ r.n > 0, r.runs = Runs(want) /\ RunsLen(r.runs) = r.n>>,
    <<"C01.ReadInOrder.partial", r.res = "ok" /\ x.st.cur.len > 0, TRUE>>,
    <<"C01.ReadInOrder.multi", r.res = "ok" /\ Len(x.pieces) > 1, TRUE>>,
    \* C01 "(each exactly once)": a read returns bytes that were handed over and not yet returned, never more
    \*      than the buffer takes; it moves past nothing: end of stream, an error or "nothing yet" is
    \*      answered only when every byte before that point has been returned
    <<"C01.ReadExactlyOnce", TRUE,
        IF r.res = "ok" THEN r.n >= 1 /\ r.n <= av /\ r.n <= buf
        ELSE r.n = 0 /\ av = 0>>,
    \* C03 "a read that reaches a queued error returns the bytes already copied first, and the error on
    \*      the next call"
    <<"C03.DataBeforeError", (mk = "err" /\ av < buf) \/ (r.res = "err" /\ r.errid # DeadId),
        /\ mk = "err"
        /\ (av > 0 => r.res = "ok" /\ r.n = av)
        /\ (av = 0 => r.res = "err" /\ r.errid = NextErrId(st))>>,
    <<"C03.DataBeforeError.deferred", mk = "err" /\ av > 0 /\ av < buf, TRUE>>,
    \* C03 "EOF is returned only after all data consumed before the FIN" (and then it is returned)
    <<"C03.EofAfterData", r.res = "eof" \/ (mk = "eof" /\ av = 0),
        mk = "eof" /\ av = 0 /\ r.res = "eof" /\ r.n = 0>>,
    <<"C03.EofAfterData.afterdata", mk = "eof" /\ av > 0 /\ av < buf, TRUE>>,
    \* C03 "after mark_vsock_closed with an empty queue a read returns the 'dispatcher dead' error rather
    \*      than hanging" (and only then)
    <<"C03.ClosedSurfaces", (av = 0 /\ mk \in {"dead", "empty"}) \/ r.res = "pending" \/ (r.res = "err" /\ r.errid = DeadId),
        /\ av = 0
        /\ (mk = "dead" => r.res = "err" /\ r.errid = DeadId)
        /\ (mk = "empty" => r.res = "pending")
        /\ mk \in {"dead", "empty"}>>,
    <<"C03.ClosedSurfaces.dead", av = 0 /\ mk = "dead", TRUE>> >>

(* rules judged after every call, on the state after it *)
StateRules(st, c, x, r, g) ==
    LET p == x.st IN <<
    \* C04 "selective-ACK bits are set exactly for packets it holds out of order": "bit i set iff the slot
    \*      at distance i + 1 behind the first hole is occupied (i < 64), None when nothing is held out of order"
    <<"C04.SackExact", TRUE,
        /\ r.sack_some = (\E y \in p.sl : y.s > Hole(p))
        /\ r.sack = { y.s - Hole(p) - 1 : y \in { z \in p.sl : z.s > Hole(p) /\ z.s - Hole(p) <= SackWidth } }
        /\ r.aempty = ~(\E y \in p.sl : y.s > Hole(p))>>,
    <<"C04.SackExact.some", SackBits(p) # {}, TRUE>>,
    <<"C04.SackExact.beyond64", \E y \in p.sl : y.s - Hole(p) - 1 >= SackWidth, TRUE>>,
    \* C04 "the advertised receive window never exceeds the free space actually left in the configured
    \*      receive buffer, so a sender that respects it can never overflow the receiver" -- while the
    \*      connection lives (flush_all_before_close is its last act)
    <<"C04.WindowHonest", TRUE,
        /\ ~p.fall => r.win <= Max(0, p.cap - (p.ub + p.pb)) /\ r.win <= Max(0, p.cap - (r.ub + r.pb))
        /\ p.rdrop => r.win = 0
        /\ p.resp /\ ~p.fall => r.ub + r.pb <= p.cap>>,
    <<"C04.WindowHonest.parked", ~p.fall /\ p.pb > 0 /\ ~p.rdrop, TRUE>>,
    <<"C04.WindowHonest.zero", ~p.fall /\ ~p.rdrop /\ p.ub + p.pb >= p.cap, TRUE>>,
    \* "bytes in the user queue never exceed capacity except through flush_all_before_close"
    <<"C04.UserQueueBounded", TRUE, r.ub <= p.cap \/ p.over>>,
    <<"C04.UserQueueBounded.atcap", p.ub = p.cap, TRUE>>,
    \* C04 "data once acknowledged is never discarded before being handed to the reader": what the answers
    \*      acknowledged and have not returned to the reader is still held for it
    <<"C04.NoDiscardAfterConsume", TRUE,
        g.cons - g.read = CurRest(p) + r.ub + (r.pb - (p.pb - FrontBytes(p)))>> >>

FlushAllRules(st, c, x, r) == <<
    \* C03 "flush_all_before_close hands all in-order parked messages to the reader"
    <<"C03.FlushAllDelivers", ~st.rdrop,
        r.pk = st.pk - st.ff /\ r.pb = st.pb - FrontBytes(st) /\ r.ub = st.ub + FrontBytes(st)>>,
    <<"C03.FlushAllDelivers.nonempty", ~st.rdrop /\ st.ff > 0, TRUE>>,
    <<"C03.FlushAllDelivers.over", ~st.rdrop /\ st.ub + FrontBytes(st) > st.cap, TRUE>> >>

(* a reader that waits is woken when the connection ends (C03 "rather than hanging") *)
WakeRules(st, c, x, r) ==
    LET must == st.rwait /\ (c.op = "error" \/ (c.op = "close" /\ ~st.closed)) IN <<
    <<"C03.ClosedSurfaces", must, r.rwake = 1>>,
    <<"C03.ClosedSurfaces.woken", must, TRUE>> >>

(* e: Expected(x) *)
Rules(st, c, x, e, r, g) ==
    StateRules(st, c, x, r, g)
    \o (IF c.op = "arrive" THEN ArriveRules(st, c, x, r) ELSE <<>>)
    \o (IF c.op = "read" THEN ReadRules(st, c, x, r) ELSE <<>>)
    \o (IF c.op = "flush_all" THEN FlushAllRules(st, c, x, r) ELSE <<>>)
    \o (IF c.op \in {"error", "close"} THEN WakeRules(st, c, x, r) ELSE <<>>)
    \o << <<"Reasm.ObsAgrees", TRUE, Agrees(r, e)>> >>

Broken(rs)  == { rs[i][1] : i \in { j \in 1..Len(rs) : rs[j][2] /\ ~rs[j][3] } }
Covered(rs) == { rs[i][1] : i \in { j \in 1..Len(rs) : rs[j][2] } }

RuleNames == {
    "C04.ConsumeExact", "C04.ParkExact", "C04.AlreadyPresent", "C04.UnavailableOnlyWithoutRoom",
    "C04.SackExact", "C04.WindowHonest", "C04.UserQueueBounded", "C04.NoDiscardAfterConsume",
    "C01.ReadInOrder", "C01.ReadExactlyOnce",
    "C03.DataBeforeError", "C03.EofAfterData", "C03.ClosedSurfaces", "C03.FlushAllDelivers",
    "Reasm.ObsAgrees", "Reasm.NoPanic",
    \* coverage markers (which branch of a rule was exercised; never violated)
    "C04.ConsumeExact.run", "C04.ConsumeExact.fin",
    "C04.UnavailableOnlyWithoutRoom.full", "C04.UnavailableOnlyWithoutRoom.beyond",
    "C04.SackExact.some", "C04.SackExact.beyond64", "C04.WindowHonest.parked", "C04.WindowHonest.zero",
    "C04.UserQueueBounded.atcap", "C01.ReadInOrder.partial", "C01.ReadInOrder.multi",
    "C03.DataBeforeError.deferred", "C03.EofAfterData.afterdata", "C03.ClosedSurfaces.dead",
    "C03.ClosedSurfaces.woken", "C03.FlushAllDelivers.nonempty", "C03.FlushAllDelivers.over" }

(* The call of a record c as an operation of the specification. *)
Apply(st, c) ==
    CASE c.op = "arrive"      -> Arrive(st, c.a, c.fin, c.b)
      [] c.op = "flush"       -> Flush(st)
      [] c.op = "flush_all"   -> FlushAll(st)
      [] c.op = "read"        -> Read(st, c.a)
      [] c.op = "drop_reader" -> DropReader(st)
      [] c.op = "error"       -> EnqueueError(st)
      [] c.op = "close"       -> MarkClosed(st)
      [] c.op = "regwaker"    -> RegWaker(st)
=============================================================================
