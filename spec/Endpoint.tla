------------------------------ MODULE Endpoint ------------------------------
(***************************************************************************)
(* One uTP connection endpoint as the listed properties pin it down: the   *)
(* *contract*.  An endpoint is a record; every operator here is pure:      *)
(*                                                                         *)
(*   - effect operators  (Tx..., Recv..., Disp..., App...)  map an         *)
(*     endpoint record and the arguments of one event to the next record;  *)
(*   - rule operators (R_Cxx_...) are the clauses of the properties, each  *)
(*     a predicate over the endpoint record *before* the event and the     *)
(*     event's arguments.                                                  *)
(*                                                                         *)
(* The bounded models (MCData, MCClose, ...) use the rules as enabling     *)
(* conditions of their actions; the trace specification (UtpTrace) applies *)
(* the same effects to the events recorded from the real library and       *)
(* *evaluates* the same rules on the recorded values.                      *)
(*                                                                         *)
(* Sequence numbers are wire values modulo SeqMod; every comparison goes   *)
(* through SeqArith!Dist (ideal modular distance).                         *)
(***************************************************************************)
EXTENDS Integers, Sequences, FiniteSets, SeqArith

CONSTANT SeqMod          \* 65536 for real traces, small for the bounded models

D(a, b) == Dist(a, b, SeqMod)          \* signed distance a - b
Nx(a, k) == (a + k) % SeqMod           \* a + k on the wire

Max(a, b) == IF a > b THEN a ELSE b
Min(a, b) == IF a < b THEN a ELSE b

NoFin == [seq |-> -1, cnt |-> 0, acked |-> FALSE, abort |-> FALSE]

(***************************************************************************)
(* Endpoint record.  cfg: the per-connection configuration as logged by    *)
(* conn_new (buffer sizes, limits, Nagle, link MTU...).                    *)
(***************************************************************************)
NewEndpoint(cfg, isn, rnxt0, pwnd0) ==
    [ cfg      |-> cfg,
      \* application side
      wr       |-> 0,          \* bytes accepted by write
      rd       |-> 0,          \* bytes handed to read
      rdFull   |-> FALSE,      \* last read filled its buffer (a partly read message may be parked in the reader)
      wState   |-> "open",     \* open | shutdown | dropped
      rState   |-> "open",     \* open | eof | err | dropped
      flushMark|-> 0,          \* largest wr covered by a successful flush / shutdown
      \* send side
      segs     |-> << >>,      \* wire seq -> segment record, for seqs not yet cumulatively acked
      una      |-> isn,        \* first sequence number not cumulatively acknowledged
      nxt      |-> isn,        \* next new sequence number
      nextOff  |-> 0,          \* stream offset of the next new segment
      acked    |-> 0,          \* bytes cumulatively acknowledged (by processed packets)
      flight   |-> 0,          \* bytes sent, not acked / sacked / presumed lost
      pwnd     |-> pwnd0,      \* window in the packet most recently processed
      lossSeen |-> FALSE,      \* a retransmission timeout or fast recovery has happened
      rtoMode  |-> FALSE,      \* after a timeout retransmission, until new data is acknowledged
      rtoSeq   |-> -1,
      dupAcks  |-> 0,          \* loosest reading of "duplicate ACK" count since the last advance
      sackHi   |-> 0,          \* largest number of SACKed packets above the hole seen since the last advance
      recPoint |-> -1,         \* highest seq sent when loss evidence appeared (recovery point), -1 none
      maxAcked |-> 0,          \* largest payload acknowledged or delivered (proven size, C14)
      fin      |-> NoFin,
      \* receive side
      rnxt     |-> rnxt0,      \* last in-order sequence number stored
      held     |-> << >>,      \* wire seq -> payload length, packets held out of order
      consumed |-> 0,          \* bytes stored in order so far
      maxPay   |-> 0,          \* largest payload stored
      lastAck  |-> -1,         \* last ack_nr emitted (-1: none yet)
      lastWnd  |-> -1,
      peerFin  |-> -1,         \* sequence number of the peer's FIN once accepted
      \* lifecycle
      state    |-> "new",
      dying    |-> "",         \* error string once the task announced its death ("ok" for a clean end)
      ended    |-> FALSE,
      result   |-> "" ]

(***************************************************************************)
(* Helpers over the segment table                                          *)
(***************************************************************************)
Seg(off, len, now) ==
    [off |-> off, len |-> len, cnt |-> 1, probe |-> FALSE, sacked |-> FALSE,
     lost |-> FALSE, counted |-> TRUE, first |-> now, last |-> now, ver |-> 1]

Known(e, s) == s \in DOMAIN e.segs
Outstanding(e) == DOMAIN e.segs # {}
FirstUnsacked(e) ==   \* lowest outstanding sequence number that is not selectively acked
    LET c == { s \in DOMAIN e.segs : ~e.segs[s].sacked }
    IN  IF c = {} THEN -1 ELSE CHOOSE s \in c : \A t \in c : D(s, t) <= 0

Put(f, k, v) == [x \in DOMAIN f \cup {k} |-> IF x = k THEN v ELSE f[x]]
Del(f, ks) == [x \in DOMAIN f \ ks |-> f[x]]

(* a run list is the single run [pos, len] (short payloads may match at     *)
(* several positions: alts; amb: too many to list)                          *)
RunIs(runs, alts, amb, pos, len) ==
    /\ Len(runs) = 1
    /\ runs[1][2] = len
    /\ \/ runs[1][1] = pos
       \/ (runs[1][1] >= 0 /\ pos \in { alts[i] : i \in 1 .. Len(alts) })
       \/ (runs[1][1] >= 0 /\ amb)

NoGarbage(runs) == \A i \in 1 .. Len(runs) : runs[i][1] >= 0

(***************************************************************************)
(* C01  byte-stream integrity: sender side                                 *)
(***************************************************************************)
\* "every transmission of a sequence number carries the same bytes (only a
\*  never-acknowledged size probe may be split)"  (C06; shared with C01)
R_SegStable(e, s, runs, alts, amb, plen) ==
    Known(e, s) =>
        LET g == e.segs[s] IN
        \/ RunIs(runs, alts, amb, g.off, g.len) /\ plen = g.len
        \/ (~g.sacked /\ plen < g.len /\ RunIs(runs, alts, amb, g.off, plen))

\* a new sequence number continues the stream where its predecessor ended and
\* carries only bytes the application has written
R_SegContiguous(e, s, runs, alts, amb, plen) ==
    (~Known(e, s) /\ s = e.nxt) =>
        /\ RunIs(runs, alts, amb, e.nextOff, plen)
        /\ e.nextOff + plen <= e.wr

R_NoGarbage(runs) == NoGarbage(runs)

IsSplit(e, s, plen) == Known(e, s) /\ plen < e.segs[s].len

TxData(e, s, pos, plen, now) ==
    IF Known(e, s)
    THEN LET g == e.segs[s]
             split == plen < g.len
             g2 == [g EXCEPT !.cnt = IF split THEN 1 ELSE @ + 1, !.last = now,
                             !.len = plen, !.lost = FALSE, !.counted = TRUE,
                             !.ver = IF split THEN @ + 1 ELSE @,
                             !.first = IF split THEN now ELSE @]
             fl == e.flight - (IF g.counted THEN g.len ELSE 0) + plen
         IN  [e EXCEPT !.segs = Put(@, s, g2), !.flight = fl,
                       \* a split probe was the newest segment: the stream continues after the shorter one
                       !.nextOff = IF split /\ Nx(s, 1) = e.nxt THEN g.off + plen ELSE @]
    ELSE [e EXCEPT !.segs = Put(@, s, Seg(pos, plen, now)),
                   !.flight = @ + plen,
                   !.nxt = Nx(s, 1),
                   !.nextOff = pos + plen]

(***************************************************************************)
(* Acknowledgement processing (effect of a processed packet on the sender) *)
(***************************************************************************)
CumAcked(e, ack) == { s \in DOMAIN e.segs : D(s, ack) <= 0 }
SumLen(e, S, pred(_)) ==
    LET RECURSIVE Go(_)
        Go(T) == IF T = {} THEN 0
                 ELSE LET s == CHOOSE x \in T : TRUE
                      IN  (IF pred(e.segs[s]) THEN e.segs[s].len ELSE 0) + Go(T \ {s})
    IN  Go(S)
MaxLen(e, S) ==
    LET RECURSIVE Go(_)
        Go(T) == IF T = {} THEN 0
                 ELSE LET s == CHOOSE x \in T : TRUE IN Max(e.segs[s].len, Go(T \ {s}))
    IN  Go(S)

\* sackSet: offsets i such that sequence number ack + 2 + i is selectively acknowledged
RecvAck(e, ack, wnd, sackSet, isState) ==
    LET gone   == CumAcked(e, ack)
        ackedB == SumLen(e, gone, LAMBDA g : TRUE)
        cntB   == SumLen(e, gone, LAMBDA g : g.counted)
        rest   == DOMAIN e.segs \ gone
        newS   == { s \in rest : ~e.segs[s].sacked /\ D(s, Nx(ack, 2)) \in sackSet }
        sackB  == SumLen(e, newS, LAMBDA g : g.counted)
        segs2  == [s \in rest |-> IF s \in newS
                                  THEN [e.segs[s] EXCEPT !.sacked = TRUE, !.counted = FALSE]
                                  ELSE e.segs[s]]
        adv    == gone # {} \/ newS # {}
        finAck == e.fin.seq >= 0 /\ ~e.fin.acked /\ D(e.fin.seq, ack) <= 0
        nSack  == Cardinality(sackSet)
        dup    == ~adv /\ Outstanding(e) /\ isState /\ D(Nx(ack, 1), e.una) = 0
    IN  [e EXCEPT !.segs = segs2,
                  !.una = IF gone = {} THEN @ ELSE IF D(Nx(ack, 1), @) > 0 THEN Nx(ack, 1) ELSE @,
                  !.acked = @ + ackedB,
                  !.flight = @ - cntB - sackB,
                  !.pwnd = wnd,
                  !.maxAcked = Max(@, Max(MaxLen(e, gone), MaxLen(e, newS))),
                  !.rtoMode = IF adv \/ finAck THEN FALSE ELSE @,
                  !.dupAcks = IF adv THEN 0 ELSE IF dup THEN @ + 1 ELSE @,
                  !.sackHi = IF gone # {} THEN nSack ELSE Max(@, nSack),
                  !.recPoint = IF @ >= 0 /\ D(ack, @) >= 0 THEN -1 ELSE @,
                  !.fin = IF finAck THEN [@ EXCEPT !.acked = TRUE] ELSE @]

\* a packet that the connection does not act upon at all (C17: out-of-order FIN,
\* SYN on a live connection; RESET ends the connection): only the window /
\* acknowledgement processing is skipped
RecvWindowOnly(e, wnd) == e

(***************************************************************************)
(* C05  sender obeys the peer's window and slow start                      *)
(***************************************************************************)
\* evaluated on the state *after* TxData, for a first transmission (cnt = 1, ver = 1)
InLossRecovery(e, recoveringFlag) == recoveringFlag \/ e.rtoMode

\* "the bytes it then has outstanding do not exceed the receive window most recently advertised to it"
R_C05_WindowRespected(e, recoveringFlag) ==
    ~InLossRecovery(e, recoveringFlag) => e.flight <= e.pwnd
\* "after a zero window it sends no new payload until the window re-opens"
R_C05_ZeroWindowSilence(e, recoveringFlag) ==
    ~InLossRecovery(e, recoveringFlag) => e.pwnd > 0
\* "Before the first loss event its outstanding bytes never exceed two segments plus the bytes acknowledged so far"
R_C05_SlowStartBound(e, mss) ==
    ~e.lossSeen => e.flight <= 2 * mss + e.acked
\* "immediately after a retransmission timeout it sends a single segment until new data is acknowledged"
R_C05_OneSegmentAfterRto(e, s, tag) ==
    (e.rtoMode /\ tag # "rto") => FALSE

(***************************************************************************)
(* C04  receiver honesty                                                   *)
(***************************************************************************)
\* "Every acknowledgement number an endpoint emits equals the highest sequence number it has received and stored in order"
R_C04_AckExact(e, ack) == ack = e.rnxt
\* "the acknowledgement number never moves backwards"
R_C04_AckMonotone(e, ack) == e.lastAck >= 0 => D(ack, e.lastAck) >= 0
\* "selective-ACK bits are set exactly for packets it holds out of order"
HeldOffsets(e, ack) == { D(s, Nx(ack, 2)) : s \in DOMAIN e.held } \cap (0 .. 63)
R_C04_SackExact(e, ack, hasSack, sackSet) ==
    /\ hasSack => sackSet = HeldOffsets(e, ack)
    /\ ~hasSack => HeldOffsets(e, ack) = {}
\* "The advertised receive window never exceeds the free space actually left in the configured receive buffer"
Stored(e) ==
    LET RECURSIVE Go(_)
        Go(T) == IF T = {} THEN 0 ELSE LET s == CHOOSE x \in T : TRUE IN e.held[s] + Go(T \ {s})
    IN  (e.consumed - e.rd) + Go(DOMAIN e.held)
\* slack: a message the reader popped but only partly copied out is outside the queue
ReaderSlack(e) == IF e.rdFull THEN e.maxPay ELSE 0
R_C04_WindowHonest(e, wnd) == wnd <= Max(0, e.cfg.rx_buf - Stored(e)) + ReaderSlack(e)

\* classification of an arriving DATA packet, computed by the specification
ContigAfter(e, s) ==   \* number of held packets directly following s
    LET RECURSIVE Go(_)
        Go(k) == IF Nx(s, k) \in DOMAIN e.held THEN Go(k + 1) ELSE k - 1
    IN  Go(1)
ContigBytes(e, s, n) ==
    LET RECURSIVE Go(_)
        Go(k) == IF k > n THEN 0 ELSE e.held[Nx(s, k)] + Go(k + 1)
    IN  Go(1)

\* the hook's disposition must agree with what the specification computes from the
\* packets seen: a consumed packet is the next expected one and releases exactly the
\* contiguous run held behind it
R_C04_ConsumeExact(e, s, n, bytes, plen) ==
    /\ s = Nx(e.rnxt, 1)
    /\ n = 1 + ContigAfter(e, s)
    /\ bytes = plen + ContigBytes(e, s, n - 1)
R_C04_OutOfOrderIsAhead(e, s) == D(s, Nx(e.rnxt, 1)) > 0 /\ s \notin DOMAIN e.held
R_C04_DuplicateIsOld(e, s) == D(s, e.rnxt) <= 0
R_C04_AlreadyPresentIsHeld(e, s) == s \in DOMAIN e.held

DispConsumed(e, s, plen) ==
    LET n == 1 + ContigAfter(e, s)
        released == { Nx(s, k) : k \in 1 .. (n - 1) }
        b == plen + ContigBytes(e, s, n - 1)
    IN  [e EXCEPT !.rnxt = Nx(s, n - 1), !.held = Del(@, released),
                  !.consumed = @ + b, !.maxPay = Max(@, plen)]
DispOutOfOrder(e, s, plen) == [e EXCEPT !.held = Put(@, s, plen), !.maxPay = Max(@, plen)]
DispFinAccepted(e, s) == [e EXCEPT !.rnxt = s, !.peerFin = s]

Emitted(e, ack, wnd) == [e EXCEPT !.lastAck = ack, !.lastWnd = wnd]

(***************************************************************************)
(* Application calls                                                       *)
(***************************************************************************)
\* C01 "the bytes an application has read ... are a prefix of the bytes the peer application wrote"
R_C01_ReadIsPrefix(e, runs, n) == Len(runs) = 1 /\ runs[1][1] = e.rd /\ runs[1][2] = n
R_C01_ReadWithinWritten(e, n, peerWr) == e.rd + n <= peerWr
AppRead(e, n, want) == [e EXCEPT !.rd = @ + n, !.rdFull = (n = want)]
AppWrite(e, n) == [e EXCEPT !.wr = @ + n]

\* C19 "The bytes a stream has accepted from write but not yet had acknowledged never exceed
\*      the configured transmit buffer limit (the larger of its initial and maximum size)"
R_C19_TxBounded(e) == e.wr - e.acked <= Max(e.cfg.tx_init, e.cfg.tx_max)

=============================================================================
