------------------------------ MODULE Endpoint ------------------------------
(***************************************************************************)
(* One uTP connection endpoint as the listed properties pin it down: the   *)
(* *contract*.  An endpoint is a record; every operator here is pure:      *)
(*                                                                         *)
(*   - effect operators (TxData, RecvAck, Disp..., App...) map an endpoint *)
(*     record and the arguments of one event to the next record;           *)
(*   - rule operators (R_Cxx_...) are the clauses of the properties, each  *)
(*     a predicate over the endpoint record and the event's arguments,     *)
(*     with the clause quoted above it.                                    *)
(*                                                                         *)
(* The bounded models (MCData, MCClose, ...) use the rules as enabling     *)
(* conditions / invariants of their actions; the trace specification       *)
(* (UtpTrace) applies the same effects to the events recorded from the     *)
(* real library and *evaluates* the same rules on the recorded values.     *)
(*                                                                         *)
(* Kinds of rule: P permission (evaluated on the event that needs it),     *)
(* O obligation (a deadline that time may not pass; "immediate" ones may   *)
(* not survive any advance of the clock).                                  *)
(*                                                                         *)
(* Sequence numbers are wire values modulo SeqMod; every comparison goes   *)
(* through SeqArith!Dist (ideal modular distance).  Time is in             *)
(* microseconds.  Constants are those of the property statements.          *)
(***************************************************************************)
EXTENDS Integers, Sequences, FiniteSets, SeqArith

CONSTANT SeqMod          \* 65536 for real traces, small for the bounded models

D(a, b) == Dist(a, b, SeqMod)          \* signed distance a - b
Nx(a, k) == (a + k) % SeqMod           \* a + k on the wire

Max(a, b) == IF a > b THEN a ELSE b
Min(a, b) == IF a < b THEN a ELSE b
MaxSeq(a, b) == IF a < 0 THEN b ELSE IF b < 0 THEN a ELSE IF D(a, b) >= 0 THEN a ELSE b

ACK_DELAY == 40000           \* C07 "within the 40 ms delayed-ACK interval"
RTO_MIN   == 200000          \* C06 "within 200 ms..60 s"
RTO_MAX   == 60000000
DUP_THRESH == 3              \* C06 "three duplicate acknowledgements"
Eps       == 1001            \* tokio's timer wheel rounds sleeps up to the next millisecond

NoFin == [seq |-> -1, cnt |-> 0, acked |-> FALSE, abort |-> FALSE, own |-> FALSE]

(***************************************************************************)
(* Endpoint record.  cfg: the per-connection configuration as logged by    *)
(* conn_new (buffer sizes, limits, Nagle, link MTU...).                    *)
(***************************************************************************)
NewEndpoint(cfg, isn, rnxt0, pwnd0, now) ==
    [ cfg      |-> cfg,
      \* application side
      wr       |-> 0,          \* bytes accepted by write
      rd       |-> 0,          \* bytes handed to read
      rdFull   |-> FALSE,      \* last read filled its buffer (a partly read message may be parked in the reader)
      wDropped |-> FALSE, rDropped |-> FALSE,
      shutAt   |-> -1,         \* wr when shutdown was requested (-1: not requested)
      flushMark|-> 0,          \* largest wr covered by a successful flush / shutdown
      pend     |-> {},         \* application calls that returned Pending and have not returned yet
      readPend |-> FALSE,
      \* send side
      segs     |-> << >>,      \* wire seq -> segment record, for seqs not yet cumulatively acked
      una      |-> isn,        \* first sequence number not cumulatively acknowledged
      nxt      |-> isn,        \* next new sequence number
      nextOff  |-> 0,          \* stream offset of the next new segment
      acked    |-> 0,          \* bytes cumulatively acknowledged (by processed packets)
      flight   |-> 0,          \* bytes sent, not acked / sacked / presumed lost
      pwnd     |-> pwnd0,      \* window in the packet most recently processed
      lossSeen |-> FALSE,      \* a retransmission timeout or fast recovery has happened
      rtoMode  |-> FALSE,      \* after a timeout retransmission, until new data is acknowledged
      rtoLast  |-> 0,          \* RTO value in force at the last timeout retransmission (0: none since progress)
      rtxBase  |-> now,        \* last point at which the retransmission timer was necessarily (re)started
      dupAcks  |-> 0,          \* loosest reading of "duplicate ACK" count since the last advance
      strictDup|-> 0,          \* strictest reading (ST_STATE, same ack, same window, data outstanding)
      sackPkts |-> 0,          \* consecutive packets carrying a selective ACK
      sackHi   |-> 0,          \* packets selectively acknowledged above the hole by the last packet
      lastRxWnd|-> -1, lastRxAck |-> -1, looseEv |-> 0, peerSack |-> FALSE,
      recPoint |-> -1,         \* highest seq sent when loss evidence appeared (recovery point), -1 none
      frDue    |-> 0,          \* line at which a fast retransmission became due (0: none)
      maxAcked |-> 0,          \* largest payload acknowledged (proven size, C14)
      probeOut |-> -1,         \* sequence number of the outstanding size probe, -1 none
      probes   |-> 0, newSegs |-> 0, codeMss |-> cfg.mss0, codeMaxSs |-> 0,
      fin      |-> NoFin,
      splitDelivered |-> FALSE, \* a probe was re-segmented after the peer had already stored it (known finding)
      popSince |-> "",         \* reason of a probe give-up since the last end-of-poll record ("" = none)
      popWhy |-> "", splitWhy |-> "",   \* why the last probe was given up; why the one that made splitDelivered true was
      \* receive side
      rnxt     |-> rnxt0,      \* last in-order sequence number stored
      held     |-> << >>,      \* wire seq -> payload length, packets held out of order
      consumed |-> 0,          \* bytes stored in order so far
      maxPay   |-> 0,          \* largest payload stored
      maxArr   |-> 0,          \* largest payload that arrived
      lastAck  |-> -1,         \* last ack_nr emitted (-1: none yet)
      lastWnd  |-> -1,
      rightEdge|-> cfg.rx_buf, \* largest (bytes stored so far + window) ever advertised
      peerFin  |-> -1,         \* sequence number of the peer's FIN once accepted
      unackedB |-> 0,          \* bytes stored in order since the last emission
      ackDue   |-> -1,         \* deadline of the delayed ACK (-1: nothing to acknowledge)
      ackImm   |-> 0,          \* line at which an immediate ACK became due (0: none)
      stim     |-> TRUE,       \* something happened to this endpoint since its previous emission
      \* obligations of C02 / C17
      idleWr   |-> 0, idleFin |-> 0, finAnsDue |-> 0, resetAt |-> 0, slotDue |-> 0, drainDue |-> 0,
      stateAtReset |-> "",
      probeQ   |-> FALSE,      \* a size probe is queued or outstanding (nothing more is segmented meanwhile)
      \* bookkeeping
      txCount  |-> 0, rxCount |-> 0, synAcks |-> 0, lastRxAt |-> now, lastWire |-> now,
      lastGainAt |-> now,      \* when a packet last brought something: payload or a FIN taken in, new data acknowledged,
                               \* a state change (packets that bring nothing do not keep a closing connection alive)
      orphanPk |-> 0,          \* data packets taken in since the application dropped the read half: nobody will read
                               \* them, so they stay where they are and at most Slots(e) of them fit
      trans    |-> [on |-> FALSE, st |-> "", t |-> "syn", ackSyn |-> FALSE, ackFin |-> FALSE, seqNext |-> FALSE],
                              \* the packet being processed and the state it met (C17.Transition)
      segd     |-> 0,          \* bytes in the sender's segment queue at the end of the last poll
      peerLied |-> FALSE,      \* the peer acknowledged a sequence number that was never transmitted
      finDesig |-> -1,         \* the number the endpoint designated for its answering FIN when it took the peer's FIN in
      eofDue   |-> 0,          \* the peer's FIN was taken in while a read was waiting (trace line)
      lastDataRxAt |-> -1,     \* when the last DATA / FIN packet was taken in
      lastEmitAt |-> -1,       \* when this endpoint last emitted a datagram (whatever its fate)
      tRtx     |-> -1, tAck |-> -1, idleArmed |-> -1, ringCap |-> cfg.tx_init, txPending |-> FALSE,
      released |-> -1,
      state    |-> "new",
      dying    |-> "",         \* error string once the task announced its death ("ok" for a clean end)
      deathCtx |-> "",         \* structural context of the death, for known-finding signatures
      stalled  |-> "",         \* the connection was found stalled (C02.NoStall) earlier
      ended    |-> FALSE,
      endedAt  |-> -1,
      result   |-> "" ]

(***************************************************************************)
(* Helpers over the segment table                                          *)
(***************************************************************************)
Seg(off, len, now) ==
    [off |-> off, len |-> len, cnt |-> 1, probe |-> FALSE, sacked |-> FALSE,
     lost |-> FALSE, counted |-> TRUE, first |-> now, last |-> now, ver |-> 1, popped |-> FALSE]

Known(e, s) == s \in DOMAIN e.segs
Outstanding(e) == DOMAIN e.segs # {}
SentUnacked(e) == \E s \in DOMAIN e.segs : ~e.segs[s].sacked /\ ~e.segs[s].popped
FinUnacked(e) == e.fin.seq >= 0 /\ ~e.fin.acked /\ ~e.fin.abort

Put(f, k, v) == [x \in DOMAIN f \cup {k} |-> IF x = k THEN v ELSE f[x]]
Del(f, ks) == [x \in DOMAIN f \ ks |-> f[x]]

\* the endpoint's proven segment size: the protocol minimum, the largest payload acknowledged, the largest
\* payload that arrived from the peer (loosest reading of "proven deliverable"), never above the link ceiling
LinkCeiling(e) == e.cfg.link_mtu - (IF e.cfg.v6 THEN 48 ELSE 28) - 20
OwnMss(e) == Max(e.cfg.mss0, Min(LinkCeiling(e), Max(e.maxArr, Max(e.maxPay, e.maxAcked))))

(* a run list is the single run [pos, len] (short payloads may match at     *)
(* several positions: alts; amb: too many to list)                          *)
RunIs(runs, alts, amb, pos, len) ==
    /\ Len(runs) = 1
    /\ runs[1][2] = len
    /\ \/ runs[1][1] = pos
       \/ (runs[1][1] >= 0 /\ pos \in { alts[i] : i \in 1 .. Len(alts) })
       \/ (runs[1][1] >= 0 /\ amb)

NoGarbage(runs) == \A i \in 1 .. Len(runs) : runs[i][1] >= 0

(***************************************************************************)
(* C01 / C06  byte-stream integrity: sender side                           *)
(***************************************************************************)
\* C06 "every transmission of a sequence number carries the same bytes (only a
\*      never-acknowledged size probe may be split)"   (shared with C01: nothing altered)
R_SegStable(e, s, runs, alts, amb, plen) ==
    Known(e, s) =>
        LET g == e.segs[s] IN
        \/ RunIs(runs, alts, amb, g.off, g.len) /\ plen = g.len
        \* "only a never-acknowledged size probe may be split": a probe the sender gave up is cut again at the
        \* current segment size - usually shorter; longer when the segment size has grown meanwhile
        \/ (~g.sacked /\ (g.probe \/ g.popped) /\ plen < g.len /\ RunIs(runs, alts, amb, g.off, plen))
        \/ (~g.sacked /\ g.popped /\ plen > g.len /\ RunIs(runs, alts, amb, g.off, plen))

\* C01 "nothing is lost, duplicated, reordered": a new sequence number continues the stream where
\* its predecessor ended and carries only bytes the application has written
R_SegContiguous(e, s, runs, alts, amb, plen) ==
    (~Known(e, s) /\ s = e.nxt) =>
        /\ RunIs(runs, alts, amb, e.nextOff, plen)
        /\ e.nextOff + plen <= e.wr

R_NoGarbage(runs) == NoGarbage(runs)

\* context of the known finding D1b: a probe given up on EXPIRY had been delivered.  Any other reason for giving up a
\* delivered probe is not that finding.
SplitCtx(x) == IF ~x.splitDelivered THEN ""
               ELSE IF x.splitWhy \in {"expired", ""} THEN "split-of-delivered-probe"
               ELSE "split-of-delivered-probe," \o x.splitWhy

IsSplit(e, s, plen) == Known(e, s) /\ (plen < e.segs[s].len \/ (e.segs[s].popped /\ plen > e.segs[s].len))
IsRetx(e, s) == D(s, e.nxt) < 0       \* a sequence number that was transmitted before

\* C06 "A segment the peer has acknowledged (cumulatively or selectively) is never retransmitted"
R_C06_NeverRetxAcked(e, s) == IsRetx(e, s) => (Known(e, s) /\ ~e.segs[s].sacked)
\* C06 "after the configured number of retransmissions the connection fails with an error rather than retrying forever"
R_C06_Cap(e, s) == Known(e, s) => e.segs[s].cnt <= e.cfg.max_retx + 1    \* on the state after TxData; per version

TxData(e, s, pos, plen, now) ==
    IF Known(e, s)
    THEN LET g == e.segs[s]
             split == plen < g.len \/ (g.popped /\ plen > g.len)
             g2 == [g EXCEPT !.cnt = IF split THEN 1 ELSE @ + 1, !.last = now,
                             !.len = plen, !.lost = FALSE, !.counted = TRUE,
                             !.ver = IF split THEN @ + 1 ELSE @, !.popped = FALSE,
                             !.probe = IF split THEN FALSE ELSE @,
                             !.first = IF split THEN now ELSE @]
             fl == e.flight - (IF g.counted THEN g.len ELSE 0) + plen
         IN  [e EXCEPT !.segs = Put(@, s, g2), !.flight = fl,
                       \* a split probe was the newest segment: the stream continues after the shorter one
                       !.nextOff = IF split /\ Nx(s, 1) = e.nxt THEN g.off + plen ELSE @]
    ELSE [e EXCEPT !.segs = Put(@, s, Seg(pos, plen, now)),
                   !.flight = @ + plen,
                   !.nxt = Nx(s, 1),
                   !.nextOff = pos + plen,
                   !.rtxBase = IF ~SentUnacked(e) /\ ~FinUnacked(e) THEN now ELSE @]

\* The implementation gave up on a size probe (send error or expiry): its sequence number will be
\* re-used by a shorter segment starting at the same offset; it no longer counts as outstanding and
\* a timeout that was really the probe's loss does not start timeout recovery.
ProbePopped(e, s, expired) ==
    IF ~Known(e, s) THEN [e EXCEPT !.rtoMode = IF expired THEN FALSE ELSE @]
    ELSE LET g == e.segs[s] IN
         [e EXCEPT !.segs = Put(@, s, [g EXCEPT !.popped = TRUE, !.counted = FALSE, !.lost = TRUE]),
                   !.flight = @ - (IF g.counted THEN g.len ELSE 0),
                   !.probeOut = -1, !.probeQ = FALSE,
                   !.rtoMode = IF expired THEN FALSE ELSE @]

(***************************************************************************)
(* Acknowledgement processing (effect of a processed packet on the sender) *)
(***************************************************************************)
CumAcked(e, ack) == { s \in DOMAIN e.segs : D(s, ack) <= 0 }
SumLen(e, S, pred(_)) ==
    LET RECURSIVE Go(_)
        Go(T) == IF T = {} THEN 0
                 ELSE LET s == CHOOSE x \in T : TRUE
                      IN  (IF pred(e.segs[s]) THEN e.segs[s].len ELSE 0) + Go(T \ {s})
    IN  Go(S)
MaxLen(e, S) ==
    LET RECURSIVE Go(_)
        Go(T) == IF T = {} THEN 0
                 ELSE LET s == CHOOSE x \in T : TRUE IN Max(e.segs[s].len, Go(T \ {s}))
    IN  Go(S)

\* sackSet: offsets i such that sequence number ack + 2 + i is selectively acknowledged
RecvAck(e, ack, wnd, hasSack, sackSet, isState, now, line) ==
    LET gone0  == CumAcked(e, ack)
        \* a probe the implementation has given up on is no longer in its queue: an acknowledgement that
        \* covers it only proves that it had been delivered (known finding: its re-segmentation duplicates bytes)
        poppedAcked == { s \in gone0 : e.segs[s].popped }
        gone   == gone0 \ poppedAcked
        ackedB == SumLen(e, gone, LAMBDA g : TRUE)
        cntB   == SumLen(e, gone, LAMBDA g : g.counted)
        rest   == DOMAIN e.segs \ gone
        newS   == { s \in rest : ~e.segs[s].sacked /\ D(s, Nx(ack, 2)) \in sackSet }
        sackB  == SumLen(e, newS, LAMBDA g : g.counted)
        segs2  == [s \in rest |-> IF s \in newS
                                  THEN [e.segs[s] EXCEPT !.sacked = TRUE, !.counted = FALSE]
                                  ELSE e.segs[s]]
        adv    == gone # {} \/ newS # {}
        finAck == e.fin.seq >= 0 /\ ~e.fin.acked /\ D(e.fin.seq, ack) <= 0
        nSack  == Cardinality(sackSet)
        atHole == D(Nx(ack, 1), e.una) = 0
        dup    == ~adv /\ Outstanding(e) /\ atHole /\ (isState \/ hasSack)
        \* strictest reading of a duplicate: identical to the packet processed immediately before it
        sdup   == dup /\ isState /\ ~hasSack /\ wnd = e.lastRxWnd /\ ack = e.lastRxAck
        \* loosest reading of the evidence: every packet that repeats the acknowledgement or carries a
        \* selective ACK counts, until a plain cumulative ACK advances
        looseN == IF adv /\ ~hasSack THEN 0 ELSE IF dup \/ hasSack THEN e.looseEv + 1 ELSE e.looseEv
        dupN   == IF adv THEN 0 ELSE IF dup THEN e.dupAcks + 1 ELSE e.dupAcks
        sdupN  == IF adv \/ ~isState \/ wnd # e.lastRxWnd \/ ack # e.lastRxAck THEN 0
                  ELSE IF sdup THEN e.strictDup + 1 ELSE e.strictDup
        spN    == IF hasSack THEN e.sackPkts + 1 ELSE 0
        evid   == dupN >= DUP_THRESH \/ nSack >= DUP_THRESH \/ spN >= DUP_THRESH \/ looseN >= DUP_THRESH
        recDone == e.recPoint >= 0 /\ D(ack, e.recPoint) >= 0
        rec0   == IF recDone THEN -1 ELSE e.recPoint
        stillOut == \E s \in rest : ~segs2[s].sacked
        \* the recovery point is read loosely: the highest sequence number sent while the evidence stands
        rec1   == IF evid /\ stillOut THEN MaxSeq(rec0, Nx(e.nxt, SeqMod - 1)) ELSE rec0
        \* strictest trigger of a fast retransmission (obligation): the third strict duplicate, or a
        \* packet whose selective ACK marks three packets above the hole, outside any recovery
        strictTrig == /\ rec0 < 0 /\ ~e.rtoMode /\ stillOut /\ e.frDue = 0
                      /\ \/ (sdupN = DUP_THRESH /\ sdup /\ ~e.peerSack)   \* a peer that never used selective ACKs
                         \/ (nSack >= DUP_THRESH /\ atHole /\ e.sackHi < DUP_THRESH)
    IN  [e EXCEPT !.segs = segs2,
                  !.una = IF gone = {} THEN @ ELSE IF D(Nx(ack, 1), @) > 0 THEN Nx(ack, 1) ELSE @,
                  !.acked = @ + ackedB,
                  !.flight = @ - cntB - sackB,
                  !.pwnd = wnd,
                  !.lastRxWnd = wnd, !.lastRxAck = ack, !.looseEv = looseN, !.peerSack = @ \/ hasSack,
                  !.maxAcked = Max(@, Max(MaxLen(e, gone), MaxLen(e, newS))),
                  !.rtoMode = IF adv \/ finAck THEN FALSE ELSE @,
                  !.rtoLast = IF adv \/ finAck THEN 0 ELSE @,
                  !.rtxBase = IF adv \/ finAck THEN now ELSE @,
                  !.dupAcks = dupN, !.strictDup = sdupN, !.sackPkts = spN,
                  !.sackHi = nSack,
                  !.recPoint = rec1,
                  !.frDue = IF strictTrig THEN line ELSE IF ~stillOut THEN 0 ELSE @,
                  !.probeOut = IF @ >= 0 /\ (@ \in gone \/ @ \in newS) THEN -1 ELSE @,
                  !.probeQ = IF e.probeOut >= 0 /\ (e.probeOut \in gone \/ e.probeOut \in newS) THEN FALSE ELSE @,
                  !.splitDelivered = @ \/ poppedAcked # {},
                  !.splitWhy = IF ~e.splitDelivered /\ poppedAcked # {} THEN e.popWhy ELSE @,
                  !.fin = IF finAck THEN [@ EXCEPT !.acked = TRUE] ELSE @]

(***************************************************************************)
(* C05  sender obeys the peer's window and slow start                      *)
(*      (evaluated on the state after TxData, for a first transmission)    *)
(***************************************************************************)
InLossRecovery(e, recoveringFlag) == recoveringFlag \/ e.rtoMode

\* "the bytes it then has outstanding do not exceed the receive window most recently advertised to it"
R_C05_WindowRespected(e, recoveringFlag) ==
    ~InLossRecovery(e, recoveringFlag) => e.flight <= e.pwnd
\* "after a zero window it sends no new payload until the window re-opens"
R_C05_ZeroWindowSilence(e, recoveringFlag) ==
    ~InLossRecovery(e, recoveringFlag) => e.pwnd > 0
\* "Before the first loss event its outstanding bytes never exceed two segments plus the bytes acknowledged so far"
R_C05_SlowStartBound(e, mss) ==
    ~e.lossSeen => e.flight <= 2 * mss + e.acked
\* "immediately after a retransmission timeout it sends a single segment until new data is acknowledged"
R_C05_OneSegmentAfterRto(e, tag) == e.rtoMode => tag = "rto"

(***************************************************************************)
(* C06  retransmission discipline (permissions, on the retransmission hook)*)
(***************************************************************************)
\* "is retransmitted when its retransmission timeout expires" / "three duplicate acknowledgements or
\* equivalent selective-ACK evidence trigger a retransmission": a retransmission needs one of the two
R_C06_RetxAllowed(e, s, tag) ==
    \/ tag = "rto"
    \/ (e.recPoint >= 0 /\ D(s, e.recPoint) <= 0)
\* the timer cannot expire earlier than the minimum RTO after its last (re)start
R_C06_RtoNotEarly(e, now) == now >= e.rtxBase + RTO_MIN - Eps
\* "successive timeouts with no intervening acknowledgement double (within 200 ms..60 s)"
\* (values are logged in whole microseconds: +-2 for the truncation)
R_C06_Backoff(e, rto) ==
    e.rtoLast > 0 => LET want == Min(2 * e.rtoLast, RTO_MAX) IN rto >= want - 2 /\ rto <= want + 2
R_C06_RtoRange(rto) == RTO_MIN <= rto /\ rto <= RTO_MAX

(***************************************************************************)
(* C04  receiver honesty                                                   *)
(***************************************************************************)
\* "Every acknowledgement number an endpoint emits equals the highest sequence number it has received and stored in order"
R_C04_AckExact(e, ack) == ack = e.rnxt
\* "the acknowledgement number never moves backwards"
R_C04_AckMonotone(e, ack) == e.lastAck >= 0 => D(ack, e.lastAck) >= 0
\* "selective-ACK bits are set exactly for packets it holds out of order"
HeldOffsets(e, ack) == { D(s, Nx(ack, 2)) : s \in DOMAIN e.held } \cap (0 .. 63)
R_C04_SackExact(e, ack, hasSack, sackSet) ==
    /\ hasSack => sackSet = HeldOffsets(e, ack)
    /\ ~hasSack => HeldOffsets(e, ack) = {}
\* "The advertised receive window never exceeds the free space actually left in the configured receive buffer"
HeldBytes(e) ==
    LET RECURSIVE Go(_)
        Go(T) == IF T = {} THEN 0 ELSE LET s == CHOOSE x \in T : TRUE IN e.held[s] + Go(T \ {s})
    IN  Go(DOMAIN e.held)
Stored(e) == (e.consumed - e.rd) + HeldBytes(e)
\* slack: a message the reader popped but only partly copied out is outside the queue
ReaderSlack(e) == IF e.rdFull THEN e.maxPay ELSE 0
R_C04_WindowHonest(e, wnd) == wnd <= Max(0, e.cfg.rx_buf - Stored(e)) + ReaderSlack(e)

\* classification of an arriving DATA packet, computed by the specification
ContigAfter(e, s) ==   \* number of held packets directly following s
    LET RECURSIVE Go(_)
        Go(k) == IF Nx(s, k) \in DOMAIN e.held THEN Go(k + 1) ELSE k - 1
    IN  Go(1)
ContigBytes(e, s, n) ==
    LET RECURSIVE Go(_)
        Go(k) == IF k > n THEN 0 ELSE e.held[Nx(s, k)] + Go(k + 1)
    IN  Go(1)

\* the hook's disposition must agree with what the specification computes from the packets seen:
\* a consumed packet is the next expected one and releases exactly the contiguous run held behind it
R_C04_ConsumeExact(e, s, n, bytes, plen) ==
    /\ s = Nx(e.rnxt, 1)
    /\ n = 1 + ContigAfter(e, s)
    /\ bytes = plen + ContigBytes(e, s, n - 1)
R_C04_OutOfOrderIsAhead(e, s) == D(s, Nx(e.rnxt, 1)) > 0 /\ s \notin DOMAIN e.held
\* (what matters is that no packet the receiver could store is thrown away as a duplicate; a packet far
\*  beyond any window it can hold is dropped either way)
Slots(e) == Min((e.cfg.rx_buf \div e.cfg.mss0) + 1, 32767)
R_C04_DuplicateIsOld(e, s) == ~(D(s, e.rnxt) > 0 /\ D(s, e.rnxt) <= Slots(e))
R_C04_AlreadyPresentIsHeld(e, s) == s \in DOMAIN e.held
\* "a sender that respects it can never overflow the receiver and its data stays within the configured buffer size"
\* (rightEdge: the largest stream position any advertised window has allowed so far)
InsideAdvertised(e) == e.consumed + HeldBytes(e) <= e.rightEdge
R_C04_WithinBuffer(e) == InsideAdvertised(e) => Stored(e) <= e.cfg.rx_buf + ReaderSlack(e)

(* C07 triggers are set here: the effect of storing / declining a packet on the ACK obligations *)
AckTrig(e, bytes, imm, now, line) ==
    LET ub == e.unackedB + bytes
        im == imm     \* (the 2 x MSS threshold is judged when the clock advances, with the segment size of that instant)
    IN  [e EXCEPT !.unackedB = ub,
                  !.ackDue = IF bytes > 0 /\ @ < 0 THEN now + ACK_DELAY ELSE @,
                  !.ackImm = IF im /\ @ = 0 THEN line ELSE @]

DispConsumed(e, s, plen, now, line) ==
    LET n == 1 + ContigAfter(e, s)
        released == { Nx(s, k) : k \in 1 .. (n - 1) }
        b == plen + ContigBytes(e, s, n - 1)
        gap == DOMAIN e.held # {}          \* "fills a gap"
        e1 == [e EXCEPT !.rnxt = Nx(s, n - 1), !.held = Del(@, released),
                        !.consumed = @ + b, !.maxPay = Max(@, plen)]
    IN  AckTrig(e1, b, gap, now, line)
DispOutOfOrder(e, s, plen, now, line) ==
    AckTrig([e EXCEPT !.held = Put(@, s, plen), !.maxPay = Max(@, plen)], 0, TRUE, now, line)
DispDuplicate(e, now, line) == AckTrig(e, 0, TRUE, now, line)
DispFinAccepted(e, s, now, line) ==
    LET e1 == [e EXCEPT !.rnxt = s, !.peerFin = s, !.drainDue = 0, !.idleWr = 0,
                        !.finDesig = IF e.fin.seq >= 0 THEN e.fin.seq ELSE e.nxt,
                        \* C17 "answered with the endpoint's own FIN" once its data is out
                        \* (strictest precondition: everything written was transmitted and acknowledged)
                        !.finAnsDue = IF e.fin.seq < 0 /\ e.nextOff = e.wr /\ ~Outstanding(e) THEN line ELSE 0]
    IN  AckTrig(e1, 0, TRUE, now, line)

\* every emitted packet carries the current ack_nr and window: it discharges the ACK obligations
Emitted(e, ack, wnd, now) ==
    [e EXCEPT !.lastAck = ack, !.lastWnd = wnd, !.unackedB = 0, !.ackDue = -1, !.ackImm = 0,
              !.rightEdge = Max(@, e.consumed + HeldBytes(e) + Min(wnd, 1000000000)),
              !.stim = FALSE, !.txCount = @ + 1, !.lastWire = now]

(***************************************************************************)
(* C07  acknowledgement timeliness                                         *)
(***************************************************************************)
\* "An established endpoint with nothing new to acknowledge and nothing to send stays silent":
\* a pure ST_STATE needs a stimulus (a packet processed, an application call) since the previous
\* emission, or something new to acknowledge
\* (or report that the window opened from / closed to zero)
R_C07_NoSpontaneousAck(e, wnd) ==
    \/ e.stim \/ e.lastAck < 0
    \/ (e.lastAck >= 0 /\ D(e.rnxt, e.lastAck) > 0)
    \/ ((wnd = 0) # (e.lastWnd = 0))
\* "Every in-order data packet an endpoint accepts is acknowledged within the 40 ms delayed-ACK interval"
R_C07_DelayedAck(e, t) == e.ackDue >= 0 => t <= e.ackDue + Eps
\* "and immediately (without any clock advance) once the unacknowledged bytes reach twice its own segment
\*  size, when a packet arrives out of order or fills a gap, when a duplicate arrives, when a FIN arrives,
\*  and when the receive window re-opens from zero"
R_C07_ImmediateAck(e) == e.ackImm = 0

(***************************************************************************)
(* C17  handshake and teardown on the wire                                 *)
(***************************************************************************)
\* "its FIN carries the sequence number following the last data segment"
R_C17_FinSeq(e, s, abort) ==
    IF e.fin.seq >= 0 /\ ~abort THEN s = e.fin.seq
    ELSE IF abort THEN D(s, e.nxt) >= 0
    ELSE s = e.nxt
\* "is sent only after all accepted data has been transmitted" (when closing on its own initiative)
R_C17_FinAfterData(e) == e.nextOff = e.wr
\* "no new payload follows it"
\* (the clause is about an endpoint that closes on its own initiative; fin.own)
R_C17_NothingAfterFin(e, s) == (e.fin.seq >= 0 /\ e.fin.own) => (Known(e, s) /\ D(s, e.fin.seq) < 0)
\* "A peer's FIN is honoured only in sequence"
R_C17_PeerFinInOrder(e, s) == s = Nx(e.rnxt, 1)
TxFin(e, s, abort, now) ==
    [e EXCEPT !.fin = [seq |-> s, cnt |-> (IF e.fin.seq = s THEN e.fin.cnt + 1 ELSE 1), acked |-> FALSE, abort |-> abort,
                       own |-> IF e.fin.seq >= 0 THEN e.fin.own ELSE e.peerFin < 0],
              !.idleFin = 0, !.finAnsDue = 0,
              !.rtxBase = IF ~SentUnacked(e) /\ e.fin.seq < 0 THEN now ELSE @]

(***************************************************************************)
(* Application calls                                                       *)
(***************************************************************************)
\* C01 "the bytes an application has read ... are a prefix of the bytes the peer application wrote"
R_C01_ReadIsPrefix(e, runs, n) == Len(runs) = 1 /\ runs[1][1] = e.rd /\ runs[1][2] = n
R_C01_ReadWithinWritten(e, n, peerWr) == e.rd + n <= peerWr
AppRead(e, n, want) == [e EXCEPT !.rd = @ + n, !.rdFull = (n = want), !.stim = TRUE]
Idle(e) == e.wr = e.acked /\ ~Outstanding(e) /\ e.fin.seq < 0 /\ e.state = "established" /\ e.dying = ""
AppWrite(e, n, line) ==
    [e EXCEPT !.wr = @ + n, !.stim = TRUE,
              \* C02 "a write on an idle connection is transmitted at once"
              !.idleWr = IF Idle(e) /\ e.pwnd > 0 /\ n > 0 /\ ~e.txPending THEN line ELSE @]

\* C19 "The bytes a stream has accepted from write but not yet had acknowledged never exceed
\*      the configured transmit buffer limit (the larger of its initial and maximum size)"
\* (selectively acknowledged bytes are acknowledged)
SackedBytes(e) == SumLen(e, DOMAIN e.segs, LAMBDA g : g.sacked)
R_C19_TxBounded(e) == e.wr - e.acked - SackedBytes(e) <= Max(e.cfg.tx_init, e.cfg.tx_max)
\* C19 "it is woken as soon as acknowledgements free space" / C02 "blocked readers/writers are always
\*      woken when their condition changes": a write may not stay pending across a clock advance
\*      while the buffer has room
R_C19_WriteNotStuck(e) == ("write" \in e.pend /\ ~e.ended) => e.wr - e.acked >= e.ringCap

\* C03 "A successful flush or shutdown implies every byte written before it has been acknowledged by the peer's stack"
R_C03_FlushHonest(e, pos) == e.acked + SackedBytes(e) >= pos
\* C03 "a reader sees end-of-stream only after every byte that preceded the peer's FIN"
R_C03_EofOnlyAfterFin(e) == e.peerFin >= 0 /\ e.rd = e.consumed
\* C03 "will reach a peer application that keeps reading even if the network then dies" / "never a clean
\*      end-of-stream with bytes missing while the writer was told its shutdown succeeded"
R_C03_SuccessMeansDelivered(e, peerFlushMark) == e.rd >= peerFlushMark
\* C03 "When a connection is aborted ... every pending and later read/write/flush/shutdown resolves with an error"
AbortedWithError(e) == e.ended /\ e.result # "ok"

=============================================================================
