SPECIFICATION Spec
VIEW View
INVARIANT Inv
INVARIANT Honest
INVARIANT ClosedResolves
INVARIANT AckedCompletes
INVARIANT GrowthHelps
INVARIANT Progress
CHECK_DEADLOCK FALSE
