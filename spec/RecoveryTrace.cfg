SPECIFICATION Spec
INVARIANT Report
POSTCONDITION TraceAccepted
CHECK_DEADLOCK FALSE
