//! Component-level drivers (D-unit): each binary drives one pure component of librqbit-utp
//! directly (through the guarded `verif_api` re-exports) and writes ND-JSON, one line per call
//! with arguments, results and the observable state after the call; or replays cases generated
//! by TLC and writes the implementation's answers.
//!
//! Integers must fit TLC's 32-bit ints: split or saturate before writing.

use std::io::Write;

pub struct Out {
    w: std::io::BufWriter<std::fs::File>,
    pub lines: usize,
}

impl Out {
    pub fn create(path: &str) -> Self {
        Out {
            w: std::io::BufWriter::new(std::fs::File::create(path).expect("create output")),
            lines: 0,
        }
    }
    pub fn line(&mut self, v: serde_json::Value) {
        writeln!(self.w, "{v}").unwrap();
        self.lines += 1;
    }
    pub fn finish(mut self) -> usize {
        self.w.flush().unwrap();
        self.lines
    }
}

/// splitmix64, for seeded drivers
pub struct Rng(pub u64);
impl Rng {
    pub fn next(&mut self) -> u64 {
        self.0 = self.0.wrapping_add(0x9E37_79B9_7F4A_7C15);
        let mut z = self.0;
        z = (z ^ (z >> 30)).wrapping_mul(0xBF58_476D_1CE4_E5B9);
        z = (z ^ (z >> 27)).wrapping_mul(0x94D0_49BB_1331_11EB);
        z ^ (z >> 31)
    }
    pub fn below(&mut self, n: u64) -> u64 {
        self.next() % n.max(1)
    }
    pub fn pick<T: Copy>(&mut self, v: &[T]) -> T {
        v[self.below(v.len() as u64) as usize]
    }
}
