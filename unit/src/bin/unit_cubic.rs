//! C15 driver: `congestion::cubic::Cubic` through the `CongestionController` trait only.
//!
//!   unit_cubic replay <cases.ndjson> <answers.ndjson>
//!       every case is a call sequence (JSON array, first call `new`).  The cases are merged into a
//!       trie (common prefixes executed once; `Cubic` is `Copy`, so a node's state is a snapshot) and
//!       walked depth-first; one output line per trie edge = per call, with the observables after it.
//!   unit_cubic record <seed> <n> <out.ndjson>
//!       about n lines of seeded random call sequences (runs of 40..400 calls, each started by `new`),
//!       boundary-heavy arguments, shaped like the connection's use (set_mss; set_remote_window; on_ack
//!       per packet, lone set_mss after delivered payload, recovery entry / exit, timeouts).
//!
//! A line:  {"op":..., <arguments>, "d": slot, "w":window(), "s":sshthresh(), "u":uncapped window,
//!           "smss":smss(), "nan":bool, "panic":bool, "rtt":[s,ns]}  (+ "case": k in replay mode on the
//!           line of the last call of case number k, so that the caller can find the answer to a case)
//!   d   the call is executed on the state stored in slot d%16 and its result is stored in slot
//!       (d+1)%16 (`new` ignores d and stores into slot 0).  In a depth-first walk d is the depth,
//!       in a recorded run it is the running number of the call.
//!   u   "the congestion window proper": window() of a *copy* of the controller to which a practically
//!       unbounded peer window (2^40) has been applied - observable behaviour, no hook.
//!   nan the Debug rendering shows NaN (anywhere) or an infinite cwnd.
//! All integers saturate at 2^31-1 (TLC's integers are 32 bit); the specification treats that value
//! as "huge / not finite".  Durations are [seconds, nanoseconds].

use std::collections::HashMap;
use std::io::BufRead;
use std::panic::{AssertUnwindSafe, catch_unwind};
use std::time::{Duration, Instant};

use librqbit_utp::verif_api::{CongestionController, Cubic, RttEstimator};
use serde_json::{Value, json};
use utp_verif_unit::{Out, Rng};

const HUGE: u64 = (1 << 31) - 1;
const UNBOUNDED_PEER_WINDOW: usize = 1 << 40;

fn sat(x: usize) -> u64 {
    (x as u64).min(HUGE)
}

fn dur(v: &Value) -> Duration {
    let a = v.as_array().expect("duration is [secs, nanos]");
    Duration::new(a[0].as_u64().unwrap(), a[1].as_u64().unwrap() as u32)
}

fn dur_json(d: Duration) -> Value {
    json!([d.as_secs().min(HUGE), d.subsec_nanos()])
}

#[derive(Clone, Copy)]
struct St {
    c: Option<Cubic>,
    rtte: RttEstimator,
    now: Duration, // offset from the base instant
    dead: bool,    // a call panicked: the subtree / the rest of the run is not executed
}

impl St {
    fn empty() -> St {
        St {
            c: None,
            rtte: RttEstimator::default(),
            now: Duration::ZERO,
            dead: false,
        }
    }
}

struct Obs {
    w: u64,
    s: u64,
    u: u64,
    smss: u64,
    nan: bool,
    panic: bool,
}

fn observe(c: &Cubic) -> Obs {
    let mut probe = *c;
    probe.set_remote_window(UNBOUNDED_PEER_WINDOW);
    let dbg = format!("{c:?}");
    Obs {
        w: sat(c.window()),
        s: sat(c.sshthresh()),
        u: sat(probe.window()),
        smss: sat(c.smss()),
        nan: dbg.contains("NaN") || dbg.contains("cwnd_mss=inf") || dbg.contains("cwnd_mss=-inf"),
        panic: false,
    }
}

fn us(v: &Value, k: &str) -> usize {
    v[k].as_u64().unwrap_or_else(|| panic!("field {k} missing in {v}")) as usize
}

/// Executes one call (JSON object) on `st`.  Panics of the code under test are data.
fn exec(st: &mut St, base: Instant, call: &Value) -> Obs {
    let op = call["op"].as_str().expect("op");
    let r = catch_unwind(AssertUnwindSafe(|| {
        if op == "new" {
            st.now = Duration::ZERO;
            st.rtte = RttEstimator::default();
            st.c = Some(Cubic::new(base, us(call, "mss")));
        } else {
            if let Some(dt) = call.get("dt") {
                st.now += dur(dt);
            }
            let now = base + st.now;
            let c = st.c.as_mut().expect("call before new");
            match op {
                "set_mss" => c.set_mss(us(call, "mss")),
                "set_rwnd" => c.set_remote_window(us(call, "win")),
                "ack" => {
                    if call.get("fresh").and_then(|x| x.as_bool()).unwrap_or(false) {
                        st.rtte = RttEstimator::default();
                    }
                    if let Some(s) = call.get("sample") {
                        st.rtte.sample(dur(s));
                    }
                    c.on_ack(now, us(call, "len"), &st.rtte)
                }
                "rto" => c.on_retransmission_timeout(now),
                "enter_recovery" => c.on_enter_recovery(now),
                "recovered" => c.on_recovered(us(call, "cwnd"), us(call, "ssthresh")),
                _ => panic!("unknown op {op}"),
            }
        }
        observe(st.c.as_ref().unwrap())
    }));
    match r {
        Ok(o) => o,
        Err(_) => {
            st.dead = true;
            Obs { w: 0, s: 0, u: 0, smss: 0, nan: false, panic: true }
        }
    }
}

fn line(call: &Value, d: usize, st: &St, o: &Obs) -> Value {
    let mut v = call.clone();
    let m = v.as_object_mut().unwrap();
    m.insert("d".into(), json!(d));
    m.insert("w".into(), json!(o.w));
    m.insert("s".into(), json!(o.s));
    m.insert("u".into(), json!(o.u));
    m.insert("smss".into(), json!(o.smss));
    m.insert("nan".into(), json!(o.nan));
    m.insert("panic".into(), json!(o.panic));
    m.insert("rtt".into(), dur_json(st.rtte.roundtrip_time()));
    v
}

// ------------------------------------------------------------------------------------------ replay
struct Node {
    call: Value,
    children: Vec<usize>,
    case: Option<usize>, // the case that ends here
}

/// A case line is either a JSON array of calls (first call `new`), or
/// {"p": k, "c": [calls]}: the calls of case number k (0-based line number among the cases of the
/// file, must precede) followed by these calls.
fn replay(cases: &str, answers: &str) {
    let mut nodes = vec![Node { call: Value::Null, children: vec![], case: None }];
    let mut index: HashMap<(usize, String), usize> = HashMap::new();
    let mut end_of_case: Vec<usize> = vec![];
    let f = std::io::BufReader::new(std::fs::File::open(cases).expect("open cases"));
    for l in f.lines() {
        let l = l.unwrap();
        if l.trim().is_empty() {
            continue;
        }
        let v: Value = serde_json::from_str(&l).expect("case json");
        let (mut at, calls) = match v.as_array() {
            Some(a) => {
                assert!(a[0]["op"] == "new", "case must start with new");
                (0usize, a.clone())
            }
            None => (
                end_of_case[v["p"].as_u64().expect("p") as usize],
                v["c"].as_array().expect("c").clone(),
            ),
        };
        for c in calls {
            let key = (at, c.to_string());
            at = match index.get(&key) {
                Some(&i) => i,
                None => {
                    let i = nodes.len();
                    nodes.push(Node { call: c, children: vec![], case: None });
                    nodes[at].children.push(i);
                    index.insert(key, i);
                    i
                }
            };
        }
        nodes[at].case.get_or_insert(end_of_case.len());
        end_of_case.push(at);
    }
    let ncases = end_of_case.len();
    drop(index);
    let base = Instant::now();
    let mut out = Out::create(answers);
    // depth-first, explicit stack of (node, depth, state before the node's call)
    let mut stack: Vec<(usize, usize, St)> = nodes[0].children.iter().rev().map(|&i| (i, 0, St::empty())).collect();
    while let Some((i, depth, mut st)) = stack.pop() {
        let o = exec(&mut st, base, &nodes[i].call);
        // `new` is at depth 0 and fills slot 0; a call at depth k >= 1 reads slot k-1 and fills slot k
        let d = depth.saturating_sub(1);
        assert!(depth < 16, "case longer than the 16 slots of CubicTrace");
        let mut v = line(&nodes[i].call, d, &st, &o);
        if let Some(k) = nodes[i].case {
            v["case"] = json!(k);
        }
        out.line(v);
        if !st.dead {
            for &ch in nodes[i].children.iter().rev() {
                stack.push((ch, depth + 1, st));
            }
        }
    }
    let n = out.finish();
    println!("cases={ncases} nodes={} lines={n}", nodes.len() - 1);
}

// ------------------------------------------------------------------------------------------ record
const MSS_SET: [usize; 9] = [1, 2, 5, 100, 528, 1452, 1453, 9000, 65535];
const DUR_SET: [(u64, u32); 12] = [
    (0, 0),
    (0, 1),
    (0, 1_000),
    (0, 1_000_000),
    (0, 50_000_000),
    (0, 200_000_000),
    (0, 300_000_000),
    (1, 0),
    (10, 0),
    (60, 0),
    (3600, 0),
    (86_400, 0),
];

fn pick_dur(r: &mut Rng) -> Duration {
    match r.below(10) {
        0..=6 => {
            let (s, n) = r.pick(&DUR_SET);
            Duration::new(s, n)
        }
        7 => Duration::from_micros(r.below(2_000_000)),
        8 => Duration::from_millis(r.below(500)),
        _ => Duration::from_nanos(r.below(1_000)),
    }
}

fn pick_mss(r: &mut Rng) -> usize {
    if r.below(4) == 0 { 1 + r.below(9000) as usize } else { r.pick(&MSS_SET) }
}

fn pick_bytes(r: &mut Rng, mss: usize, cur: &[u64]) -> usize {
    let m = mss as u64;
    let v = match r.below(16) {
        0 => 0,
        1 => 1,
        2 => m.saturating_sub(1),
        3 => m,
        4 => m + 1,
        5 => 2 * m - 1,
        6 => 2 * m,
        7 => 2 * m + 1,
        8 => 10 * m,
        9 => 65_535,
        10 => 1 << 20,
        11 => 1 << 30,
        12 => r.below(4 * m + 1),
        13 => r.below(1 << 20),
        _ => {
            // a value the controller itself reported (window, ssthresh, uncapped window), +-1
            let x = cur[r.below(cur.len() as u64) as usize];
            (x + r.below(3)).saturating_sub(1)
        }
    };
    v.min(1 << 30) as usize
}

fn record(seed: u64, n: usize, path: &str) {
    let mut r = Rng(seed.wrapping_mul(0x2545_F491_4F6C_DD1D) ^ 0xC15);
    let base = Instant::now();
    let mut out = Out::create(path);
    while out.lines < n {
        let mut st = St::empty();
        let mss0 = pick_mss(&mut r);
        let call = json!({"op": "new", "mss": mss0});
        let o = exec(&mut st, base, &call);
        out.line(line(&call, 0, &st, &o));
        let mut cur = [o.w, o.s.min(1 << 30), o.u.min(1 << 30)];
        let mut mss = mss0;
        let mut d = 0usize;
        let mut first = true;
        let run_len = 40 + r.below(360) as usize;
        let mut calls: Vec<Value> = vec![];
        // the style of the run: 0 = small windows (near the floor), 1 = large peer window, 2 = mixed
        let style = r.below(3);
        while d < run_len && !st.dead {
            calls.clear();
            let win = |r: &mut Rng, mss: usize, cur: &[u64]| -> usize {
                match style {
                    0 => pick_bytes(r, mss, cur).min(4 * mss),
                    1 => {
                        if r.below(8) == 0 { pick_bytes(r, mss, cur) } else { [1usize << 20, 1 << 30, 65_535 * 16][r.below(3) as usize] }
                    }
                    _ => pick_bytes(r, mss, cur),
                }
            };
            let ack = |r: &mut Rng, mss: usize, cur: &[u64]| -> Value {
                let mut a = json!({"op": "ack", "dt": dur_json(pick_dur(r)), "len": pick_bytes(r, mss, cur)});
                if r.below(3) == 0 {
                    a["len"] = json!(mss * (1 + r.below(3) as usize));
                }
                if r.below(10) == 0 {
                    a["fresh"] = json!(true);
                }
                if r.below(3) != 0 {
                    a["sample"] = dur_json(pick_dur(r));
                }
                a
            };
            let k = if first { 0 } else { r.below(100) };
            first = false;
            match k {
                // one incoming packet, as process_incoming_message does it
                0..=54 => {
                    let m = if r.below(5) == 0 { pick_mss(&mut r) } else { mss };
                    calls.push(json!({"op": "set_mss", "mss": m}));
                    calls.push(json!({"op": "set_rwnd", "win": win(&mut r, m, &cur)}));
                    calls.push(ack(&mut r, m, &cur));
                }
                // delivered payload changed the segment size: set_mss alone
                55..=59 => calls.push(json!({"op": "set_mss", "mss": pick_mss(&mut r)})),
                60..=64 => calls.push(json!({"op": "set_rwnd", "win": win(&mut r, mss, &cur)})),
                65..=72 => calls.push(ack(&mut r, mss, &cur)),
                73..=82 => calls.push(json!({"op": "rto", "dt": dur_json(pick_dur(&mut r))})),
                83..=92 => {
                    calls.push(json!({"op": "enter_recovery", "dt": dur_json(pick_dur(&mut r))}));
                    if r.below(2) == 0 {
                        // the way recovery.rs leaves recovery: cwnd = min(ssthresh, flight + mss), ssthresh = the
                        // ssthresh read at entry; executed after a few packets
                        for _ in 0..r.below(3) {
                            calls.push(json!({"op": "set_mss", "mss": mss}));
                            calls.push(json!({"op": "set_rwnd", "win": win(&mut r, mss, &cur)}));
                            calls.push(ack(&mut r, mss, &cur));
                        }
                        calls.push(json!({"op": "recovered", "cwnd": "ssthresh-or-flight", "ssthresh": "ssthresh"}));
                    }
                }
                _ => calls.push(json!({"op": "recovered", "cwnd": pick_bytes(&mut r, mss, &cur),
                                       "ssthresh": pick_bytes(&mut r, mss, &cur)})),
            }
            let mut entry_ssthresh = cur[1];
            for c in calls.iter() {
                let mut c = c.clone();
                if c["op"] == "recovered" && c["cwnd"].is_string() {
                    let s_now = st.c.as_ref().unwrap().sshthresh().min(1 << 30);
                    let flight = pick_bytes(&mut r, mss, &cur).max(mss) + mss;
                    c["cwnd"] = json!(s_now.min(flight));
                    c["ssthresh"] = json!(entry_ssthresh as usize);
                }
                let o = exec(&mut st, base, &c);
                out.line(line(&c, d, &st, &o));
                d += 1;
                if st.dead {
                    break;
                }
                if c["op"] == "set_mss" {
                    mss = us(&c, "mss");
                }
                if c["op"] == "enter_recovery" {
                    entry_ssthresh = o.s.min(1 << 30);
                }
                cur = [o.w, o.s.min(1 << 30), o.u.min(1 << 30)];
            }
        }
    }
    let n = out.finish();
    println!("lines={n}");
}

fn main() {
    std::panic::set_hook(Box::new(|_| {}));
    let a: Vec<String> = std::env::args().collect();
    match a.get(1).map(|s| s.as_str()) {
        Some("replay") if a.len() == 4 => replay(&a[2], &a[3]),
        Some("record") if a.len() == 5 => record(a[2].parse().expect("seed"), a[3].parse().expect("n"), &a[4]),
        _ => {
            eprintln!("usage: unit_cubic replay <cases.ndjson> <answers.ndjson> | record <seed> <n> <out.ndjson>");
            std::process::exit(2);
        }
    }
}
