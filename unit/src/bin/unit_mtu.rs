//! C14 driver (component part): `librqbit_utp::mtu::SegmentSizes` (src/mtu.rs) driven directly, the way
//! src/stream_dispatch.rs drives it: `next_segment_size()` for every segment; a returned size above
//! `mss()` is an MTU probe, nothing is asked while it is outstanding; an acknowledged probe is
//! `on_payload_delivered(size)`, a lost one `on_probe_failed(size)` (followed by `disarm_cooldown()` when
//! the loss is noticed by EMSGSIZE); every packet of the peer is `on_payload_delivered(its payload
//! length)`; a probe larger than the congestion window is dropped and `disarm_cooldown()` called.
//!
//!   unit_mtu replay <cases.ndjson> <answers.ndjson>
//!       Each input line is an environment script emitted by TLC from MCMtu.tla:
//!       `[link, v4, cd, p, em, ncalls, [[k, phase, kind], ...], [expected...]]` (the expectation is not
//!       used here).  Probes are answered by the path limit p (delivered iff size <= p); injection
//!       `[k, phase, kind]` is made after k calls of next_segment_size, with (phase 1) / without (phase 0)
//!       a probe outstanding; k = -1: when the search is settled.  kinds: 0..12 on_payload_delivered(n) with
//!       n = 0, 1, mss, mss + 1, max_ss, max_ss + 1, 65535, 70000, link ceiling, link ceiling + 1, p, p + 1,
//!       65536 + mss + 1; 20 disarm_cooldown; 21 outstanding probe unused + disarm_cooldown; 22 outstanding
//!       probe lost although it fits.  The run ends when the search has been settled for cd + 2 calls and
//!       every injection is made, or after ncalls calls.
//!       The output is the recorded run, one line per call (the format MtuTrace.tla reads):
//!       `{"op":"new|next|ok|fail|peer|disarm|unused|end|panic","a":arg-or-returned-size,"mss":..,"max":..,
//!         "probing":0|1, ...}` with mss(), max_ss(), is_probing() AFTER the call.
//!
//!   unit_mtu record <seed> <n> <out.ndjson>
//!       n seeded random runs (boundary-heavy link MTUs, both families, cooldowns 0..65535, path limits,
//!       hostile peer payload sizes, random non-path probe losses (flagged "path":0), unused probes,
//!       disarms), same line format.

use librqbit_utp::mtu::{SegmentSizes, SegmentSizesConfig};
use serde_json::{Value, json};
use std::io::BufRead;
use std::panic::{AssertUnwindSafe, catch_unwind};
use utp_verif_unit::{Out, Rng};

fn panic_msg(e: Box<dyn std::any::Any + Send>) -> String {
    if let Some(s) = e.downcast_ref::<&str>() {
        s.to_string()
    } else if let Some(s) = e.downcast_ref::<String>() {
        s.clone()
    } else {
        "panic".to_string()
    }
}

/// The property's header sizes (only used to resolve the symbolic "link ceiling" argument of an
/// injection and to pick path limits in record mode; the judgement is MtuTrace's).
fn overhead(v4: bool) -> i64 {
    (if v4 { 20 } else { 40 }) + 8 + 20
}

#[derive(Clone, Copy)]
struct Cfg {
    link: i64,
    v4: bool,
    cd: i64,
    p: i64,
    em: bool,
}

struct Run {
    ss: Option<SegmentSizes>,
    cfg: Cfg,
    out: Option<u16>, // outstanding probe
    calls: i64,
    probes: i64,
    unused: i64,
    dead: bool,
}

enum Call {
    Next,
    Delivered(usize),
    Failed(usize),
    Disarm,
}

impl Run {
    fn obs(&self) -> (i64, i64, i64) {
        match &self.ss {
            Some(s) => (s.mss() as i64, s.max_ss() as i64, s.is_probing() as i64),
            None => (0, 0, 0),
        }
    }

    fn new(cfg: Cfg, out: &mut Out, extra: Value) -> Run {
        let r = catch_unwind(AssertUnwindSafe(|| {
            let s = SegmentSizes::new(SegmentSizesConfig {
                is_ipv4: cfg.v4,
                link_mtu: cfg.link as u16,
                probe_expiry_cooldown_packets: cfg.cd as u16,
            });
            let _ = (s.mss(), s.max_ss(), s.is_probing());
            s
        }));
        let mut run = Run { ss: None, cfg, out: None, calls: 0, probes: 0, unused: 0, dead: false };
        let mut line = json!({"op": "new", "a": 0, "link": cfg.link, "v4": cfg.v4 as i64, "cd": cfg.cd, "p": cfg.p,
                              "em": cfg.em as i64});
        for (k, v) in extra.as_object().unwrap() {
            line[k] = v.clone();
        }
        match r {
            Ok(s) => {
                run.ss = Some(s);
                let (m, x, pr) = run.obs();
                line["mss"] = json!(m);
                line["max"] = json!(x);
                line["probing"] = json!(pr);
                out.line(line);
            }
            Err(e) => {
                line["mss"] = json!(0);
                line["max"] = json!(0);
                line["probing"] = json!(0);
                out.line(line);
                out.line(json!({"op": "panic", "a": 0, "in": "new", "msg": panic_msg(e), "mss": 0, "max": 0, "probing": 0}));
                run.dead = true;
            }
        }
        run
    }

    /// One call on the real component (on a copy, so that a panic leaves the state as it was).
    /// Returns the size for Next.
    fn call(&mut self, c: Call, out: &mut Out, mut line: Value) -> Option<u16> {
        let mut s = self.ss.unwrap();
        let name = line["op"].as_str().unwrap().to_string();
        let r = catch_unwind(AssertUnwindSafe(|| {
            let ret = match c {
                Call::Next => s.next_segment_size(),
                Call::Delivered(n) => {
                    s.on_payload_delivered(n);
                    0
                }
                Call::Failed(n) => {
                    s.on_probe_failed(n);
                    0
                }
                Call::Disarm => {
                    s.disarm_cooldown();
                    0
                }
            };
            let _ = (s.mss(), s.max_ss(), s.is_probing());
            (ret, s)
        }));
        match r {
            Ok((ret, s1)) => {
                self.ss = Some(s1);
                let (m, x, pr) = self.obs();
                if name == "next" {
                    line["a"] = json!(ret);
                }
                line["mss"] = json!(m);
                line["max"] = json!(x);
                line["probing"] = json!(pr);
                out.line(line);
                Some(ret)
            }
            Err(e) => {
                let (m, x, pr) = self.obs();
                out.line(json!({"op": "panic", "a": line["a"], "in": name, "msg": panic_msg(e), "mss": m, "max": x, "probing": pr}));
                self.dead = true;
                None
            }
        }
    }

    fn next(&mut self, out: &mut Out) {
        self.calls += 1;
        if let Some(size) = self.call(Call::Next, out, json!({"op": "next", "a": 0})) {
            // as the dispatcher: `is_mtu_probe = payload_size > min_ss`
            if size > self.ss.unwrap().mss() {
                self.out = Some(size);
            }
        }
    }

    /// The outstanding probe is decided: by the path (lost = None) or lost for another reason.
    fn decide(&mut self, out: &mut Out, random_loss: bool) {
        let size = self.out.take().unwrap();
        self.probes += 1;
        let fits = (size as i64) <= self.cfg.p;
        if fits && !random_loss {
            self.call(Call::Delivered(size as usize), out, json!({"op": "ok", "a": size}));
        } else {
            self.call(Call::Failed(size as usize), out, json!({"op": "fail", "a": size, "path": (!fits) as i64}));
            if self.cfg.em && !self.dead {
                self.call(Call::Disarm, out, json!({"op": "disarm", "a": 0, "forced": 1}));
            }
        }
    }

    fn unused(&mut self, out: &mut Out) {
        let size = self.out.take().unwrap();
        self.unused += 1;
        self.call(Call::Disarm, out, json!({"op": "unused", "a": size}));
    }

    fn peer(&mut self, out: &mut Out, n: i64, kind: i64) {
        self.call(Call::Delivered(n as usize), out, json!({"op": "peer", "a": n, "kind": kind}));
    }

    fn disarm(&mut self, out: &mut Out) {
        self.call(Call::Disarm, out, json!({"op": "disarm", "a": 0, "forced": 0}));
    }

    fn settled(&self) -> bool {
        let (m, x, _) = self.obs();
        m == x && self.out.is_none()
    }

    fn peer_value(&self, kind: i64) -> i64 {
        let (m, x, _) = self.obs();
        let ceil0 = self.cfg.link - overhead(self.cfg.v4);
        match kind {
            0 => 0,
            1 => 1,
            2 => m,
            3 => m + 1,
            4 => x,
            5 => x + 1,
            6 => 65535,
            7 => 70000,
            8 => ceil0,
            9 => ceil0 + 1,
            10 => self.cfg.p,
            11 => self.cfg.p + 1,
            _ => 65536 + m + 1,
        }
    }

    fn end(&mut self, out: &mut Out, skipped: i64) {
        let (m, x, pr) = self.obs();
        out.line(json!({"op": "end", "a": 0, "calls": self.calls, "probes": self.probes, "unused": self.unused,
                        "skipped": skipped, "mss": m, "max": x, "probing": pr}));
    }
}

fn replay(cases: &str, answers: &str) {
    let f = std::io::BufReader::new(std::fs::File::open(cases).expect("open cases"));
    let mut out = Out::create(answers);
    let mut n = 0usize;
    for line in f.lines() {
        let line = line.unwrap();
        if line.trim().is_empty() {
            continue;
        }
        let c: Vec<Value> = serde_json::from_str(&line).expect("case line");
        let g = |i: usize| c[i].as_i64().expect("integer");
        let cfg = Cfg { link: g(0), v4: g(1) == 1, cd: g(2), p: g(3), em: g(4) == 1 };
        let ncalls = g(5);
        let inj: Vec<(i64, i64, i64)> = c[6]
            .as_array()
            .unwrap()
            .iter()
            .map(|x| (x[0].as_i64().unwrap(), x[1].as_i64().unwrap(), x[2].as_i64().unwrap()))
            .collect();
        let mut run = Run::new(cfg, &mut out, json!({"ncalls": ncalls, "run": n, "src": "case"}));
        n += 1;
        let mut next_inj = 0usize;
        let mut skipped = 0i64;
        let mut tail = 0i64;
        while !run.dead {
            // injections due at this point
            while next_inj < inj.len() && !run.dead {
                let (k, phase, kind) = inj[next_inj];
                let has = run.out.is_some();
                let here = if k < 0 { run.settled() } else { run.calls == k && (phase == 1) == has };
                let late = k >= 0 && run.calls > k;
                if !(here || late) {
                    break;
                }
                next_inj += 1;
                match kind {
                    0..=12 => {
                        let v = run.peer_value(kind);
                        run.peer(&mut out, v, kind)
                    }
                    20 => run.disarm(&mut out),
                    21 if has => run.unused(&mut out),
                    22 if has && (run.out.unwrap() as i64) <= cfg.p => run.decide(&mut out, true),
                    _ => skipped += 1,
                }
                tail = 0;
            }
            if run.dead {
                break;
            }
            if run.out.is_some() {
                // an injection planned "with the probe outstanding" comes before the answer (handled above)
                run.decide(&mut out, false);
                continue;
            }
            let all = next_inj == inj.len();
            if (run.settled() && tail >= cfg.cd + 2 && all) || run.calls >= ncalls {
                break;
            }
            tail = if run.settled() { tail + 1 } else { 0 };
            run.next(&mut out);
        }
        skipped += (inj.len() - next_inj) as i64;
        run.end(&mut out, skipped);
    }
    let lines = out.finish();
    println!("cases={n} lines={lines}");
}

// ------------------------------------------------------------------------------------------------
const LINKS: &[i64] = &[
    49, 50, 69, 70, 100, 575, 576, 577, 600, 1000, 1279, 1280, 1281, 1400, 1492, 1500, 1501, 4000, 9000, 65534, 65535,
];
const DEGENERATE: &[i64] = &[0, 1, 20, 47, 48, 67, 68];
const COOLDOWNS: &[i64] = &[0, 1, 1, 2, 3, 3, 3, 10, 65535];
const HOSTILE: &[i64] = &[
    0, 1, 2, 527, 528, 529, 1211, 1212, 1213, 1400, 1432, 1433, 1452, 1453, 1500, 8952, 9000, 65467, 65487, 65488, 65534,
    65535, 65536, 66064, 66749, 70000, 131071, 1 << 20, (1 << 31) - 1,
];

fn record(seed: u64, n: u64, path: &str) {
    let mut out = Out::create(path);
    let mut rng = Rng(seed.wrapping_mul(0x9E37_79B9).wrapping_add(0xC14));
    for i in 0..n {
        let v4 = rng.below(2) == 0;
        let ov = overhead(v4);
        let degenerate = rng.below(25) == 0;
        let pmin = if v4 { 576 } else { 1280 };
        let link = if degenerate {
            rng.pick(DEGENERATE)
        } else {
            match rng.below(10) {
                0 => ov + 1 + rng.below((65535 - ov) as u64) as i64, // anything
                1 => ov + 1 + rng.below((pmin - ov) as u64) as i64,  // below the protocol minimum: nothing to search
                2 | 3 => pmin + 1 + rng.below(1000) as i64,          // a search over a small range
                4 => pmin + rng.below(4) as i64,                     // ranges 0..3
                _ => rng.pick(LINKS).max(ov + 1),
            }
        };
        let eff = link.max(ov + 1);
        let ceil0 = eff - ov;
        let min0 = (if v4 { 576 } else { 1280 }).min(eff) - ov;
        let cd = rng.pick(COOLDOWNS);
        // the path limit: anywhere in the range, boundary-heavy
        let p = match rng.below(8) {
            0 => min0,
            1 => ceil0,
            2 => (min0 + 1).min(ceil0),
            3 => (ceil0 - 1).max(min0),
            4 => ceil0 + 1 + rng.below(2000) as i64, // the path allows more than the link
            _ => min0 + rng.below((ceil0 - min0 + 1) as u64) as i64,
        };
        let em = rng.below(2) == 0;
        let cfg = Cfg { link, v4, cd, p, em };
        // regimes: 0 truthful (only path losses, only payloads that fit), 1 hostile peer, 2 lossy, 3 everything
        let mode = rng.below(4);
        let len = 8 + rng.below(if cd > 10 { 40 } else { 40 + 40 * (cd as u64 + 1) });
        let mut run = Run::new(cfg, &mut out, json!({"ncalls": len, "run": i, "src": "rec", "mode": mode}));
        let mut steps = 0u64;
        let mut tail = 0i64;
        let tail_max = 2 + rng.below(cd.min(6) as u64 + 3) as i64;
        while !run.dead && run.calls < len as i64 && steps < 4 * len + 50 && tail < tail_max {
            steps += 1;
            tail = if run.settled() { tail + 1 } else { 0 };
            let r = rng.below(100);
            let hostile = mode == 1 || mode == 3;
            let lossy = mode == 2 || mode == 3;
            if r < 12 {
                // a packet of the peer / an acknowledgement
                let (m, x, _) = run.obs();
                let v = if hostile && rng.below(3) == 0 {
                    rng.pick(HOSTILE)
                } else if hostile && rng.below(2) == 0 {
                    rng.below(m as u64 + 2) as i64
                } else if hostile {
                    match rng.below(6) {
                        0 => m + 1,
                        1 => x,
                        2 => x + 1,
                        3 => ceil0 + 1,
                        4 => 65536 + m + 1,
                        _ => rng.below(70000) as i64,
                    }
                } else {
                    // truthful: something that fits the path (the usual acknowledgement of an ordinary segment)
                    match rng.below(12) {
                        0 => p.min(65535),
                        1 => rng.below(p.min(65535) as u64 + 1) as i64,
                        2..=5 => m,
                        _ => rng.below(m as u64 + 1) as i64,
                    }
                };
                run.peer(&mut out, v, 99);
            } else if r < 16 && (lossy || hostile) {
                run.disarm(&mut out);
            } else if run.out.is_some() {
                if lossy && r < 24 {
                    run.unused(&mut out);
                } else {
                    let loss = lossy && r < 34;
                    run.decide(&mut out, loss);
                }
            } else {
                run.next(&mut out);
            }
        }
        if !run.dead && run.out.is_some() {
            run.decide(&mut out, false);
        }
        run.end(&mut out, 0);
    }
    let lines = out.finish();
    println!("lines={lines}");
}

fn main() {
    std::panic::set_hook(Box::new(|_| {})); // panics of the code under test are data, not noise
    let a: Vec<String> = std::env::args().collect();
    match a.get(1).map(|s| s.as_str()) {
        Some("replay") if a.len() == 4 => replay(&a[2], &a[3]),
        Some("record") if a.len() == 5 => record(a[2].parse().expect("seed"), a[3].parse().expect("n"), &a[4]),
        _ => {
            eprintln!("usage: unit_mtu replay <cases.ndjson> <answers.ndjson> | record <seed> <n> <out.ndjson>");
            std::process::exit(2);
        }
    }
}
